(* C13 (second wave): a NEXUS read only APPENDS to the namespaces: TAXLABELS, TRANSLATE and tree
   statements never remove or reorder existing members (taxa keep their identity = position),
   and no namespace object disappears.  Proved for the iterator's loops under every namespace
   configuration; the reader follows by the lock-step theorem. *)
From Coq Require Import ZArith List Bool Lia.
From DV Require Import Model.PyPrims Model.C13Model Proofs.C13Lists Proofs.C13Lockstep Proofs.C13Suffix
  Proofs.C13Blocks Proofs.C13Namespace.
Import ListNotations.

Lemma pre_refl : forall a, prefix_of a a.
Proof. intros a. exists []. rewrite app_nil_r. reflexivity. Qed.
Lemma pre_trans : forall a b c, prefix_of a b -> prefix_of b c -> prefix_of a c.
Proof. intros a b c [r1 E1] [r2 E2]. exists (r1 ++ r2). subst. rewrite app_assoc. reflexivity. Qed.
Lemma pre_nil : forall a, prefix_of [] a.
Proof. intros a. exists a. reflexivity. Qed.
Lemma pre_snoc : forall a x, prefix_of a (a ++ [x]).
Proof. intros. exists [x]. reflexivity. Qed.

(* every namespace object is still there and only got longer *)
Definition nss_grows (a b : list (list str)) : Prop :=
  (length a <= length b)%nat /\ forall i, prefix_of (nth i a []) (nth i b []).
Definition kgrows (k k' : core) : Prop := nss_grows (k_nss k) (k_nss k').

Lemma nss_grows_refl : forall a, nss_grows a a.
Proof. intros a. split; [lia | intros; apply pre_refl]. Qed.
Lemma nss_grows_trans : forall a b c, nss_grows a b -> nss_grows b c -> nss_grows a c.
Proof. intros a b c [L1 P1] [L2 P2]. split; [lia | intros i; eapply pre_trans; eauto]. Qed.
Lemma kgrows_refl : forall k, kgrows k k.
Proof. intros. apply nss_grows_refl. Qed.
Lemma kgrows_trans : forall a b c, kgrows a b -> kgrows b c -> kgrows a c.
Proof. intros a b c. apply nss_grows_trans. Qed.

Lemma list_set_nth : forall A (l : list A) i x j d,
  nth j (list_set l i x) d = if (Nat.eqb j i && Nat.ltb i (length l))%bool then x else nth j l d.
Proof.
  induction l as [|y r IH]; intros i x j d.
  - simpl. destruct i; simpl; rewrite andb_false_r; reflexivity.
  - destruct i as [|i]; destruct j as [|j]; simpl; try reflexivity.
    rewrite IH. reflexivity.
Qed.

Lemma list_set_grows : forall l i x, prefix_of (nth i l []) x -> nss_grows l (list_set l i x).
Proof.
  intros l i x P. split; [rewrite list_set_length; lia|].
  intros j. rewrite list_set_nth.
  destruct (Nat.eqb j i && Nat.ltb i (length l))%bool eqn:E; [|apply pre_refl].
  apply andb_true_iff in E. destruct E as [E _]. apply Nat.eqb_eq in E. subst. assumption.
Qed.

Lemma set_ns_taxa_grows : forall k i x, prefix_of (ns_taxa_at k i) x -> kgrows k (set_ns_taxa k i x).
Proof. intros k i x P. unfold kgrows, set_ns_taxa. simpl. apply list_set_grows. exact P. Qed.

(* what the store holds for namespace i afterwards is a prefix of (in range: equal to) x *)
Lemma set_ns_taxa_at : forall k i x, prefix_of (ns_taxa_at (set_ns_taxa k i x) i) x.
Proof.
  intros k i x. unfold ns_taxa_at, set_ns_taxa. simpl. rewrite list_set_nth. rewrite Nat.eqb_refl. simpl.
  destruct (Nat.ltb i (length (k_nss k))) eqn:E; [apply pre_refl|].
  apply Nat.ltb_ge in E. rewrite nth_overflow by lia. apply pre_nil.
Qed.

Lemma app_grows : forall l x, nss_grows l (l ++ [x]).
Proof.
  intros l x. split; [rewrite app_length; simpl; lia|].
  intros i. destruct (Nat.lt_ge_cases i (length l)) as [H|H].
  - rewrite app_nth1 by assumption. apply pre_refl.
  - rewrite (nth_overflow l) by assumption. apply pre_nil.
Qed.

Ltac kg := repeat first [ assumption | apply kgrows_refl
                       | match goal with H : kgrows ?x ?b |- kgrows ?a ?b => apply (kgrows_trans a x b); [|exact H] end ].

Section Grows.
Variable T : Type.
Variables lower upper : str -> str.
Variable parse_tree : mapper -> tz -> res (option T * mapper * tz).
Variable set_label : T -> option str -> T.
Variable add_comments : T -> list str -> T.
Variable vl : bool.
Variable c : nscfg.
Variable et : bool.

(* the statement parser only appends to the namespace of the mapper it is given *)
Hypothesis parse_tree_grows : forall m z ot m' z',
  parse_tree m z = Ok (ot, m', z') -> prefix_of (m_ns m) (m_ns m').

Lemma set_z_grows : forall k z, kgrows k (set_z k z).
Proof. intros. apply nss_grows_refl. Qed.

Lemma zstep_grows : forall k f k', zstep k f = Ok k' -> kgrows k k'.
Proof. intros k f k' H. unfold zstep in H. destruct (f (k_z k)); cbn [bind] in H; inversion H; subst. apply set_z_grows. Qed.

Lemma block_head_grows : forall fuel k k', block_head upper fuel k = Ok k' -> kgrows k k'.
Proof.
  intros fuel k k' H. unfold block_head in H.
  destruct (zstep k (next_token_ucase upper)) as [k1|e|] eqn:E1; cbn [bind] in H; try discriminate.
  destruct (zstep k1 (scan_begin upper fuel)) as [k2|e|] eqn:E2; cbn [bind] in H; try discriminate.
  apply zstep_grows in E1. apply zstep_grows in E2. apply zstep_grows in H.
  unfold kgrows in *. simpl in *. eapply nss_grows_trans; [eassumption|]. eapply nss_grows_trans; eassumption.
Qed.

Lemma taxlabels_loop_grows : forall fuel z taxa n taxa' z',
  taxlabels_loop lower c fuel z taxa n = Ok (taxa', z') -> prefix_of taxa taxa'.
Proof.
  induction fuel as [|f IH]; intros z taxa n taxa' z' H; simpl in H; [discriminate|].
  destruct (z_cur z) as [label|]; [|discriminate].
  destruct (str_eqb label K_SEMI); [inversion H; subst; apply pre_refl|].
  match type of H with bind ?r _ = _ => destruct r as [taxa1|e|] eqn:E1 end; cbn [bind] in H; try discriminate.
  destruct (require_next_token z) as [z1|e|]; cbn [bind] in H; try discriminate.
  apply IH in H.
  assert (P1 : prefix_of taxa taxa1).
  { destruct (ns_get_taxon lower taxa label); [inversion E1; apply pre_refl|].
    destruct n as [n|]; [destruct (_ && _); [discriminate|]|]; inversion E1; apply pre_snoc. }
  eapply pre_trans; eassumption.
Qed.

Lemma parse_taxlabels_grows : forall fuel k ns k', parse_taxlabels lower c fuel k ns = Ok k' -> kgrows k k'.
Proof.
  intros fuel k ns k' H. unfold parse_taxlabels in H.
  destruct (require_next_token (k_z k)) as [z1|e|]; cbn [bind] in H; try discriminate.
  destruct (taxlabels_loop lower c fuel z1 (ns_taxa_at k ns) (k_ntax k)) as [[taxa z2]|e|] eqn:E; cbn [bind] in H; try discriminate.
  inversion H; subst. apply taxlabels_loop_grows in E.
  apply (kgrows_trans _ (set_ns_taxa k ns taxa)); [apply set_ns_taxa_grows; assumption | apply nss_grows_refl].
Qed.

Lemma new_tns_grows : forall k g t i k' g', new_tns c k g t = (i, k', g') -> kgrows k k'.
Proof.
  intros k g t i k' g' H. unfold new_tns in H.
  destruct (c_attached c); [inversion H; apply kgrows_refl|].
  destruct (c_fac c); inversion H; subst; [|apply kgrows_refl].
  unfold kgrows. simpl. apply app_grows.
Qed.

Lemma get_tns_grows : forall k g t i k' g', get_tns upper c k g t = Ok (i, k', g') -> kgrows k k'.
Proof.
  intros k g t i k' g' H. unfold get_tns in H.
  destruct (c_attached c); [inversion H; apply kgrows_refl|].
  destruct t as [t|].
  - destruct (filter _ (g_reg g)) as [|x [|y r]]; inversion H; apply kgrows_refl.
  - destruct (g_reg g) as [|x [|y r]]; inversion H; try apply kgrows_refl.
    eapply new_tns_grows. eassumption.
Qed.

Lemma loc_get_ns_grows : forall k g l i k' g', loc_get_ns upper c k g l = Ok (i, k', g') -> kgrows k k'.
Proof.
  intros k g l i k' g' H. unfold loc_get_ns in H. destruct (l_ns l); [inversion H; apply kgrows_refl|].
  eapply get_tns_grows; eassumption.
Qed.

Lemma taxa_loop_grows : forall fuel k g tok tns k' g',
  taxa_loop lower upper c fuel k g tok tns = Ok (k', g') -> kgrows k k'.
Proof.
  induction fuel as [|f IH]; intros k g tok tns k' g' H; [discriminate|].
  cbn [taxa_loop] in H.
  destruct (str_eqb tok K_END || str_eqb tok K_ENDBLOCK); [inversion H; apply kgrows_refl|].
  destruct (require_next_token_ucase upper (k_z k)) as [z1|e|]; cbn [bind] in H; try discriminate.
  match type of H with bind ?r _ = _ => destruct r as [[[[token2 k2] g2] tns2]|e|] eqn:E2 end; cbn [bind] in H; try discriminate.
  assert (G2 : kgrows k k2).
  { destruct (str_eqb (cur_text z1) K_TITLE).
    - destruct (parse_title upper (k_z (set_z k z1))) as [[title z2]|e|]; cbn [bind] in E2; try discriminate.
      destruct (new_tns c (set_z (set_z k z1) z2) g (Some title)) as [[i k2'] g2'] eqn:E4.
      inversion E2; subst. apply new_tns_grows in E4. exact E4.
    - inversion E2; subst. apply nss_grows_refl. }
  match type of H with bind ?r _ = _ => destruct r as [k3|e|] eqn:E5 end; cbn [bind] in H; try discriminate.
  assert (G3 : kgrows k2 k3).
  { destruct (str_eqb token2 K_DIMENSIONS).
    - destruct (parse_dimensions upper (S f) (k_z k2) (k_ntax k2)) as [[n z3]|e|]; cbn [bind] in E5; try discriminate.
      inversion E5; subst. apply nss_grows_refl.
    - inversion E5; subst. apply kgrows_refl. }
  destruct (str_eqb token2 K_TAXLABELS).
  - destruct (match tns2 with Some i => (i, k3, g2) | None => new_tns c k3 g2 None end) as [[i k4] g4] eqn:E7.
    assert (G4 : kgrows k3 k4).
    { destruct tns2; [inversion E7; apply kgrows_refl | eapply new_tns_grows; eassumption]. }
    destruct (parse_taxlabels lower c (S f) (set_z k4 (clear_comments (k_z k4))) i) as [k5|e|] eqn:E8; cbn [bind] in H; try discriminate.
    apply IH in H. apply parse_taxlabels_grows in E8.
    assert (G5 : kgrows k4 k5) by exact E8. kg.
  - apply IH in H. kg.
Qed.

Lemma parse_taxa_block_grows : forall fuel k g k' g',
  parse_taxa_block lower upper c fuel k g = Ok (k', g') -> kgrows k k'.
Proof.
  intros fuel k g k' g' H. unfold parse_taxa_block in H.
  destruct (zstep k (skip_to_semicolon fuel)) as [k1|e|] eqn:E1; cbn [bind] in H; try discriminate.
  destruct (taxa_loop lower upper c fuel k1 g [] None) as [[k2 g2]|e|] eqn:E2; cbn [bind] in H; try discriminate.
  destruct (zstep k2 (skip_to_semicolon fuel)) as [k3|e|] eqn:E3; cbn [bind] in H; try discriminate.
  inversion H; subst. apply zstep_grows in E1. apply zstep_grows in E3. apply taxa_loop_grows in E2. kg.
Qed.

Lemma ns_require_grows : forall taxa l i taxa', ns_require_taxon lower taxa l = (i, taxa') -> prefix_of taxa taxa'.
Proof.
  intros taxa l i taxa' H. unfold ns_require_taxon in H.
  destruct (ns_get_taxon lower taxa l); inversion H; subst; [apply pre_refl | apply pre_snoc].
Qed.

Lemma translate_loop_grows : forall fuel z m n m' z',
  translate_loop lower fuel z m n = Ok (m', z') -> prefix_of (m_ns m) (m_ns m').
Proof.
  induction fuel as [|f IH]; intros z m n m' z' H; simpl in H; [discriminate|].
  destruct (next_token z) as [z1|e|]; cbn [bind] in H; try discriminate.
  destruct (tok_is z1 K_SEMI && negb (z_quoted z1)); [discriminate|].
  destruct (next_token z1) as [z2|e|]; cbn [bind] in H; try discriminate.
  destruct (z_cur z2) as [tl|]; [|discriminate].
  match type of H with bind ?r _ = _ => destruct r as [[i taxa]|e|] eqn:ER end; cbn [bind] in H; try discriminate.
  assert (P : prefix_of (m_ns m) taxa).
  { destruct n.
    - destruct (ns_get_taxon lower (m_ns m) tl); inversion ER; apply pre_refl.
    - inversion ER. eapply ns_require_grows. eassumption. }
  destruct (next_token z2) as [z3|e|]; cbn [bind] in H; try discriminate.
  destruct (cur_falsy z3 || tok_is z3 K_SEMI); [inversion H; subst; simpl; assumption|].
  destruct (negb (tok_is z3 K_COMMA)); [discriminate|].
  apply IH in H. simpl in H. eapply pre_trans; eassumption.
Qed.

(* after TRANSLATE: the store grew, and what it holds for the namespace is a prefix of the mapper's *)
Lemma parse_translate_grows : forall fuel k ns m k',
  parse_translate lower fuel k ns = Ok (m, k') ->
  kgrows k k' /\ prefix_of (ns_taxa_at k' ns) (m_ns m).
Proof.
  intros fuel k ns m k' H. unfold parse_translate in H.
  destruct (translate_loop lower fuel (k_z k) (new_mapper lower (ns_taxa_at k ns) true) (k_ntax k)) as [[m1 z1]|e|] eqn:E; cbn [bind] in H; try discriminate.
  inversion H; subst. apply translate_loop_grows in E. simpl in E. split.
  - apply (kgrows_trans _ (set_ns_taxa k ns (m_ns m))); [apply set_ns_taxa_grows; assumption | apply nss_grows_refl].
  - apply set_ns_taxa_at.
Qed.

Lemma pts_grows : forall m z t m' z',
  parse_tree_stmt T parse_tree set_label add_comments m z = Ok (t, m', z') -> prefix_of (m_ns m) (m_ns m').
Proof.
  intros m z t m' z' H. unfold parse_tree_stmt in H.
  destruct (next_token z) as [z1|e|]; cbn [bind] in H; try discriminate.
  match type of H with bind ?r _ = _ => destruct r as [z2|e|] end; cbn [bind] in H; try discriminate.
  destruct (next_token z2) as [z3|e|]; cbn [bind] in H; try discriminate.
  unfold pull_comments in H. destruct (negb (tok_is (set_com z3 []) K_EQ)); [discriminate|].
  destruct (next_token (set_com z3 [])) as [z5|e|]; cbn [bind] in H; try discriminate.
  destruct (parse_tree m z5) as [[[ot m1] z6]|e|] eqn:E6; cbn [bind] in H; try discriminate.
  destruct ot; [|discriminate]. inversion H; subst. eapply parse_tree_grows. eassumption.
Qed.

Notation YTL := (y_tree_loop T upper parse_tree set_label add_comments).
Notation YTS := (y_trees_loop T lower upper parse_tree set_label add_comments vl c).
Notation YTB := (y_trees_block T lower upper parse_tree set_label add_comments vl c et).
Notation YBL := (y_blocks_loop T lower upper parse_tree set_label add_comments vl c et).
Notation YST := (y_items_from_stream T lower upper parse_tree set_label add_comments vl c et).

Lemma after_tree_grows : forall k ns m1 z1, prefix_of (ns_taxa_at k ns) (m_ns m1) ->
  kgrows k (after_tree k ns m1 z1) /\ prefix_of (ns_taxa_at (after_tree k ns m1 z1) ns) (m_ns m1).
Proof.
  intros k ns m1 z1 P. unfold after_tree. split.
  - apply (kgrows_trans _ (set_ns_taxa k ns (m_ns m1))); [apply set_ns_taxa_grows; assumption | apply nss_grows_refl].
  - apply (set_ns_taxa_at k ns (m_ns m1)).
Qed.

Lemma y_tree_loop_grows : forall fuel k ns m out k' m' tk,
  prefix_of (ns_taxa_at k ns) (m_ns m) ->
  YTL fuel k ns m = (out, Ok (k', m', tk)) ->
  kgrows k k' /\ prefix_of (ns_taxa_at k' ns) (m_ns m').
Proof.
  induction fuel as [|f IH]; intros k ns m out k' m' tk P H; simpl in H; [inversion H|].
  destruct (parse_tree_stmt T parse_tree set_label add_comments m (k_z k)) as [[[t m1] z1]|e|] eqn:E; try (inversion H; fail).
  apply pts_grows in E.
  destruct (after_tree_grows k ns m1 z1 (pre_trans _ _ _ P E)) as [G1 P1].
  destruct (z_eof z1 || cur_falsy z1); [inversion H; subst; auto|].
  destruct (negb (tok_is (cast_ucase upper z1) K_TREE)).
  - inversion H; subst. split; [exact G1 | exact P1].
  - destruct (YTL f (set_z (after_tree k ns m1 z1) (cast_ucase upper z1)) ns m1) as [out' r] eqn:E2.
    inversion H; subst. apply IH in E2; [|exact P1]. destruct E2 as [G2 P2]. split; [|exact P2].
    eapply kgrows_trans; [exact G1 | exact G2].
Qed.

(* the local mapper of a TREES block is ahead of (or equal to) what the store holds *)
Definition loc_ok (k : core) (l : tb_locals) : Prop :=
  match l_map l with
  | None => True
  | Some m => match l_ns l with Some ns => prefix_of (ns_taxa_at k ns) (m_ns m) | None => False end
  end.

Lemma loc_ok_z : forall k z l, loc_ok k l -> loc_ok (set_z k z) l.
Proof. intros k z l H. exact H. Qed.

Lemma y_trees_loop_grows : forall fuel k g l out k' g',
  loc_ok k l -> YTS fuel k g l = (out, Ok (k', g')) -> kgrows k k'.
Proof.
  induction fuel as [|f IH]; intros k g l out k' g' LO H; [inversion H|].
  cbn [y_trees_loop] in H.
  destruct (loop_guard (k_z k) (l_token l)); [|inversion H; subst; apply kgrows_refl].
  rewrite ybind_ylift in H.
  destruct (zstep k (next_token_ucase upper)) as [k1|e|] eqn:E1; try (inversion H; fail).
  assert (G1 : kgrows k k1) by (eapply zstep_grows; eassumption).
  assert (LO1 : loc_ok k1 l).
  { unfold zstep in E1. destruct (next_token_ucase upper (k_z k)); cbn [bind] in E1; inversion E1; subst. exact LO. }
  destruct (otok_is (z_cur (k_z k1)) K_LINK).
  { rewrite ybind_ylift in H.
    destruct (parse_link upper vl (S f) (k_z k1)) as [[lt z2]|e|]; try (inversion H; fail).
    apply IH in H; [|exact LO1]. simpl in H. kg. }
  destruct (otok_is (z_cur (k_z k1)) K_TITLE).
  { rewrite ybind_ylift in H.
    destruct (parse_title upper (k_z k1)) as [[bt z2]|e|]; try (inversion H; fail).
    apply IH in H; [|exact LO1]. simpl in H. kg. }
  destruct (otok_is (z_cur (k_z k1)) K_TRANSLATE).
  { rewrite ybind_ylift in H.
    destruct (loc_get_ns upper c k1 g l) as [[[ns k2] g2]|e|] eqn:E2; try (inversion H; fail).
    rewrite ybind_ylift in H.
    destruct (parse_translate lower (S f) k2 ns) as [[m k3]|e|] eqn:E3; try (inversion H; fail).
    apply loc_get_ns_grows in E2. apply parse_translate_grows in E3. destruct E3 as [G3 P3].
    apply IH in H; [|unfold loc_ok; simpl; exact P3]. kg. }
  destruct (otok_is (z_cur (k_z k1)) K_TREE).
  { rewrite ybind_ylift in H.
    destruct (loc_get_ns upper c k1 g l) as [[[ns k2] g2]|e|] eqn:E2; try (inversion H; fail).
    destruct (pull_comments (k_z k2)) as [pre z3] eqn:EP.
    apply ybind_ok_inv in H. destruct H as [o1 [[[k6 m1] tk] [o2 [H1 [H2 _]]]]].
    assert (PM : prefix_of (ns_taxa_at (set_z k2 z3) ns)
                           (m_ns match l_map l with Some m => m | None => new_mapper lower (ns_taxa_at k2 ns) true end)).
    { unfold loc_ok in LO1. destruct (l_map l) as [m|] eqn:EM; [|apply pre_refl].
      destruct (l_ns l) as [ns'|] eqn:EN; [|contradiction].
      unfold loc_get_ns in E2. rewrite EN in E2. inversion E2; subst. exact LO1. }
    apply loc_get_ns_grows in E2.
    apply y_tree_loop_grows in H1; [|exact PM]. destruct H1 as [G6 P6].
    apply IH in H2; [|unfold loc_ok; simpl; exact P6].
    assert (G3 : kgrows k2 (set_z k2 z3)) by apply nss_grows_refl. kg. }
  destruct (otok_is (z_cur (k_z k1)) K_BEGIN); [inversion H|].
  apply IH in H; [|exact LO1]. kg.
Qed.

Lemma y_trees_block_grows : forall fuel k g out k' g', YTB fuel k g = (out, Ok (k', g')) -> kgrows k k'.
Proof.
  intros fuel k g out k' g' H. unfold y_trees_block in H.
  destruct (negb (tok_is (cast_ucase upper (k_z k)) K_TREES)); [inversion H|].
  destruct et.
  - apply ylift_ok_inv in H. destruct H as [H _].
    destruct (zstep (set_z k (cast_ucase upper (k_z k))) _) as [k1|e|] eqn:E; cbn [bind] in H; try discriminate.
    inversion H; subst. apply zstep_grows in E. exact E.
  - rewrite ybind_ylift in H.
    destruct (zstep (set_z k (cast_ucase upper (k_z k))) (skip_to_semicolon fuel)) as [k1|e|] eqn:E; try (inversion H; fail).
    apply ybind_ok_inv in H. destruct H as [o1 [[k2 g2] [o2 [H1 [H2 _]]]]].
    apply y_trees_loop_grows in H1; [|exact I]. apply ylift_ok_inv in H2. destruct H2 as [H2 _].
    destruct (zstep k2 (skip_to_semicolon fuel)) as [k3|e|] eqn:E3; cbn [bind] in H2; try discriminate.
    inversion H2; subst. apply zstep_grows in E. apply zstep_grows in E3.
    assert (G0 : kgrows k (set_z k (cast_ucase upper (k_z k)))) by apply nss_grows_refl. kg.
Qed.

Lemma y_blocks_loop_grows : forall fuel k g out k' g', YBL fuel k g = (out, Ok (k', g')) -> kgrows k k'.
Proof.
  induction fuel as [|f IH]; intros k g out k' g' H; [inversion H|]. cbn [y_blocks_loop] in H.
  destruct (negb (z_eof (k_z k))); [|inversion H; subst; apply kgrows_refl].
  rewrite ybind_ylift in H.
  destruct (block_head upper (S f) k) as [k4|e|] eqn:EH; try (inversion H; fail).
  apply block_head_grows in EH.
  destruct (otok_is (z_cur (k_z k4)) K_TAXA).
  { rewrite ybind_ylift in H.
    destruct (parse_taxa_block lower upper c (S f) k4 g) as [[k5 g5]|e|] eqn:E5; try (inversion H; fail).
    apply parse_taxa_block_grows in E5. apply IH in H. kg. }
  destruct (otok_is (z_cur (k_z k4)) K_TREES).
  { apply ybind_ok_inv in H. destruct H as [o1 [[k5 g5] [o2 [H1 [H2 _]]]]].
    apply y_trees_block_grows in H1. apply IH in H2. kg. }
  destruct (otok_is (z_cur (k_z k4)) K_BEGIN); [inversion H|].
  rewrite ybind_ylift in H.
  destruct (zstep k4 (consume_to_end_of_block upper (S f) (z_cur (k_z k4)))) as [k5|e|] eqn:E5; try (inversion H; fail).
  apply zstep_grows in E5. apply IH in H. kg.
Qed.

Lemma y_items_grows : forall fuel k g out k' g', YST fuel k g = (out, Ok (k', g')) -> kgrows k k'.
Proof.
  intros fuel k g out k' g' H. unfold y_items_from_stream in H. rewrite ybind_ylift in H.
  destruct (zstep k require_next_token) as [k1|e|] eqn:E1; try (inversion H; fail).
  destruct (z_cur (k_z k1)); [|inversion H].
  destruct (negb (str_eqb (upper s) K_NEXUS)); [inversion H|].
  apply zstep_grows in E1. apply y_blocks_loop_grows in H. kg.
Qed.

End Grows.

(* the same for the reader's loops (needed where the reader is compared with itself under two
   configurations) *)
Section GrowsReader.
Variable T : Type.
Variables lower upper : str -> str.
Variable parse_tree : mapper -> tz -> res (option T * mapper * tz).
Variable set_label : T -> option str -> T.
Variable add_comments : T -> list str -> T.
Variable vl : bool.
Variable vs : bool.
Variable c : nscfg.
Variable tlf : tl_factory.
Variable et : bool.

Hypothesis parse_tree_grows : forall m z ot m' z',
  parse_tree m z = Ok (ot, m', z') -> prefix_of (m_ns m) (m_ns m').

Notation RTL := (r_tree_loop T upper parse_tree set_label add_comments).
Notation RTS := (r_trees_loop T lower upper parse_tree set_label add_comments vl c tlf).
Notation RTB := (r_parse_trees_block T lower upper parse_tree set_label add_comments vl c tlf et).
Notation RBL := (r_blocks_loop T lower upper parse_tree set_label add_comments vl c tlf et vs).
Notation RST := (r_parse_nexus_stream T lower upper parse_tree set_label add_comments vl c tlf et vs).

Lemma r_tree_loop_grows : forall fuel k tls ns i m k' tls' m' tk,
  prefix_of (ns_taxa_at k ns) (m_ns m) ->
  RTL fuel k tls ns i m = Ok (k', tls', m', tk) ->
  kgrows k k' /\ prefix_of (ns_taxa_at k' ns) (m_ns m').
Proof.
  intros fuel k tls ns i m k' tls' m' tk P H. rewrite tree_loop_agree in H.
  destruct (y_tree_loop T upper parse_tree set_label add_comments fuel k ns m) as [out r] eqn:E.
  destruct r as [[[k1 m1] tk1]|e|]; try discriminate. inversion H; subst.
  eapply (y_tree_loop_grows T upper parse_tree set_label add_comments parse_tree_grows); eassumption.
Qed.

Lemma r_trees_loop_grows : forall fuel s l tb s',
  loc_ok (r_k s) l -> RTS fuel s l tb = Ok s' -> kgrows (r_k s) (r_k s').
Proof.
  induction fuel as [|f IH]; intros s l tb s' LO H; [discriminate|].
  cbn [r_trees_loop] in H.
  destruct (loop_guard (k_z (r_k s)) (l_token l)); [|inversion H; subst; apply kgrows_refl].
  destruct (zstep (r_k s) (next_token_ucase upper)) as [k1|e|] eqn:E1; cbn [bind] in H; try discriminate.
  assert (G1 : kgrows (r_k s) k1) by (eapply zstep_grows; eassumption).
  assert (LO1 : loc_ok k1 l).
  { unfold zstep in E1. destruct (next_token_ucase upper (k_z (r_k s))); cbn [bind] in E1; inversion E1; subst. exact LO. }
  destruct (otok_is (z_cur (k_z k1)) K_LINK).
  { destruct (parse_link upper vl (S f) (k_z k1)) as [[lt z2]|e|]; cbn [bind] in H; try discriminate.
    apply IH in H; [|exact LO1]. simpl in H. kg. }
  destruct (otok_is (z_cur (k_z k1)) K_TITLE).
  { destruct (parse_title upper (k_z k1)) as [[bt z2]|e|]; cbn [bind] in H; try discriminate.
    apply IH in H; [|exact LO1]. simpl in H. kg. }
  destruct (otok_is (z_cur (k_z k1)) K_TRANSLATE).
  { destruct (loc_get_ns upper c k1 (r_g s) l) as [[[ns k2] g2]|e|] eqn:E2; cbn [bind] in H; try discriminate.
    destruct (parse_translate lower (S f) k2 ns) as [[m k3]|e|] eqn:E3; cbn [bind] in H; try discriminate.
    apply loc_get_ns_grows in E2. apply parse_translate_grows in E3. destruct E3 as [G3 P3].
    apply IH in H; [|unfold loc_ok; simpl; exact P3]. simpl in H. kg. }
  destruct (otok_is (z_cur (k_z k1)) K_TREE).
  { destruct (loc_get_ns upper c k1 (r_g s) l) as [[[ns k2] g2]|e|] eqn:E2; cbn [bind] in H; try discriminate.
    destruct (pull_comments (k_z k2)) as [pre z3] eqn:EP.
    destruct (match tb with Some i => (i, r_tls s, r_tlreg s) | None => new_tree_list T tlf (r_tls s) (r_tlreg s) (l_title l) end)
      as [[i tls4] reg4].
    match type of H with bind ?r _ = _ => destruct r as [[[[k6 tls6] m1] tk]|e|] eqn:E3 end; cbn [bind] in H; try discriminate.
    assert (PM : prefix_of (ns_taxa_at (set_z k2 z3) ns)
                           (m_ns match l_map l with Some m => m | None => new_mapper lower (ns_taxa_at k2 ns) true end)).
    { unfold loc_ok in LO1. destruct (l_map l) as [m|] eqn:EM; [|apply pre_refl].
      destruct (l_ns l) as [ns'|] eqn:EN; [|contradiction].
      unfold loc_get_ns in E2. rewrite EN in E2. inversion E2; subst. exact LO1. }
    apply loc_get_ns_grows in E2.
    apply r_tree_loop_grows in E3; [|exact PM]. destruct E3 as [G6 P6].
    apply IH in H; [|unfold loc_ok; simpl; exact P6]. simpl in H.
    assert (G3 : kgrows k2 (set_z k2 z3)) by apply nss_grows_refl. kg. }
  destruct (otok_is (z_cur (k_z k1)) K_BEGIN); [discriminate|].
  apply IH in H; [|exact LO1]. simpl in H. kg.
Qed.

Lemma r_trees_block_grows : forall fuel s s', RTB fuel s = Ok s' -> kgrows (r_k s) (r_k s').
Proof.
  intros fuel s s' H. unfold r_parse_trees_block in H.
  destruct (negb (tok_is (cast_ucase upper (k_z (r_k s))) K_TREES)); [discriminate|].
  assert (G0 : kgrows (r_k s) (set_z (r_k s) (cast_ucase upper (k_z (r_k s))))) by apply nss_grows_refl.
  destruct et.
  - destruct (zstep _ _) as [k1|e|] eqn:E; cbn [bind] in H; try discriminate.
    inversion H; subst. simpl. apply zstep_grows in E. kg.
  - destruct (zstep (set_z (r_k s) (cast_ucase upper (k_z (r_k s)))) (skip_to_semicolon fuel)) as [k1|e|] eqn:E; cbn [bind] in H; try discriminate.
    match type of H with bind ?r _ = _ => destruct r as [s2|e|] eqn:E2 end; cbn [bind] in H; try discriminate.
    destruct (zstep (r_k s2) (skip_to_semicolon fuel)) as [k3|e|] eqn:E3; cbn [bind] in H; try discriminate.
    inversion H; subst. simpl.
    apply zstep_grows in E. apply zstep_grows in E3. apply r_trees_loop_grows in E2; [|exact I]. simpl in E2. kg.
Qed.

Lemma r_blocks_loop_grows : forall fuel s s', RBL fuel s = Ok s' -> kgrows (r_k s) (r_k s').
Proof.
  induction fuel as [|f IH]; intros s s' H; [discriminate|]. cbn [r_blocks_loop] in H.
  destruct (negb (z_eof (k_z (r_k s)))); [|inversion H; subst; apply kgrows_refl].
  destruct (block_head upper (S f) (r_k s)) as [k4|e|] eqn:EH; cbn [bind] in H; try discriminate.
  apply block_head_grows in EH.
  destruct (otok_is (z_cur (k_z k4)) K_TAXA).
  { destruct (parse_taxa_block lower upper c (S f) k4 (r_g s)) as [[k5 g5]|e|] eqn:E5; cbn [bind] in H; try discriminate.
    apply parse_taxa_block_grows in E5. apply IH in H. simpl in H. kg. }
  destruct (otok_is (z_cur (k_z k4)) K_CHARACTERS || otok_is (z_cur (k_z k4)) K_DATA).
  { destruct (negb _); [discriminate|].
    destruct (zstep _ _) as [k5|e|] eqn:E5; cbn [bind] in H; try discriminate.
    apply zstep_grows in E5. apply IH in H. simpl in *.
    assert (G0 : kgrows k4 (set_z k4 (cast_ucase upper (k_z k4)))) by apply nss_grows_refl. kg. }
  destruct (otok_is (z_cur (k_z k4)) K_TREES).
  { match type of H with bind ?r _ = _ => destruct r as [s5|e|] eqn:E5 end; cbn [bind] in H; try discriminate.
    apply r_trees_block_grows in E5. apply IH in H. simpl in E5. kg. }
  destruct (is_sets_kw (z_cur (k_z k4))).
  { destruct vs.
    - destruct (zstep k4 _) as [k5|e|] eqn:E5; cbn [bind] in H; try discriminate.
      apply zstep_grows in E5. apply IH in H. simpl in H. kg.
    - apply IH in H. simpl in H. kg. }
  destruct (otok_is (z_cur (k_z k4)) K_BEGIN); [discriminate|].
  destruct (zstep k4 _) as [k5|e|] eqn:E5; cbn [bind] in H; try discriminate.
  apply zstep_grows in E5. apply IH in H. simpl in H. kg.
Qed.

Lemma r_stream_grows : forall fuel s s', RST fuel s = Ok s' -> kgrows (r_k s) (r_k s').
Proof.
  intros fuel s s' H. unfold r_parse_nexus_stream in H.
  destruct (zstep (r_k s) require_next_token) as [k1|e|] eqn:E1; cbn [bind] in H; try discriminate.
  destruct (z_cur (k_z k1)); [|discriminate].
  destruct (negb (str_eqb (upper s0) K_NEXUS)); [discriminate|].
  apply zstep_grows in E1. apply r_blocks_loop_grows in H. simpl in H. kg.
Qed.

End GrowsReader.
