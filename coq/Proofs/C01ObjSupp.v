(* C01, object level, wave 8: Tree.suppress_unifurcations(update_bipartitions=True) MAINTAINS the stored
   encoding (Model/C01ObjModel.v obj_supp): it drops from Tree.bipartition_encoding the objects of the removed
   outdegree-one nodes - chosen by IDENTITY - and keeps every other object.  On a tree whose stored list holds
   one object per edge the maintained list again holds exactly one object per edge of the tree that is left. *)
From Coq Require Import ZArith List Bool Lia.
From DV Require Import Model.PyPrims Model.Tree Gen.BitFns Model.C01Model Model.C01GenPrims Model.C01ObjModel
  Proofs.C01Obj.
Import ListNotations.
Open Scope Z_scope.

Lemma supp_keep_false del c : supp_keep del c = false <-> In c del.
Proof.
  unfold supp_keep. rewrite negb_false_iff, existsb_exists. split.
  - intros (x & Ix & E). apply Z.eqb_eq in E. subst x. exact Ix.
  - intro I. exists c. split; [exact I | apply Z.eqb_refl].
Qed.

Lemma supp_keep_true del c : supp_keep del c = true <-> ~ In c del.
Proof.
  rewrite <- supp_keep_false. destruct (supp_keep del c); split.
  - intros _ H'. discriminate.
  - reflexivity.
  - discriminate.
  - intro H. exfalso. apply H. reflexivity.
Qed.

Lemma in_supp_deleted h t c :
  In c (supp_deleted h t) <->
  exists n, In n (postorder t) /\ is_unary n = true /\ oh_slot h (t_id n) = Some c.
Proof.
  unfold supp_deleted, unary_ids. rewrite in_flat_map. split.
  - intros (k & Ik & Ic). apply in_map_iff in Ik. destruct Ik as (n & <- & In_). apply filter_In in In_.
    destruct In_ as (In_ & U). exists n. split; [exact In_ |]. split; [exact U |].
    destruct (oh_slot h (t_id n)) as [c'|]; [| destruct Ic]. destruct Ic as [<- | []]. reflexivity.
  - intros (n & In_ & U & S). exists (t_id n). split.
    + apply in_map. apply filter_In. split; assumption.
    + rewrite S. left. reflexivity.
Qed.

Lemma slot_in_cells (slot : tree -> option Z) : forall ns cells n c,
  map slot ns = map Some cells -> In n ns -> slot n = Some c -> In c cells.
Proof.
  intros ns cells n c E I S. apply (in_map slot) in I. rewrite E, S in I. apply in_map_iff in I.
  destruct I as (c' & E' & I'). injection E' as ->. exact I'.
Qed.

(* filtering by identity: on a list of pairwise distinct objects, one per node, exactly the objects of the
   marked nodes go *)
Lemma filter_by_identity (slot : tree -> option Z) (u : tree -> bool) (del : list Z) : forall ns cells,
  map slot ns = map Some cells -> NoDup cells ->
  (forall n c, In n ns -> slot n = Some c -> u n = true -> In c del) ->
  (forall c, In c del -> In c cells -> exists n, In n ns /\ u n = true /\ slot n = Some c) ->
  map slot (filter (fun n => negb (u n)) ns) = map Some (filter (supp_keep del) cells).
Proof.
  induction ns as [|n ns IH]; intros cells E ND H1 H2.
  - destruct cells; [reflexivity | discriminate].
  - destruct cells as [|c cells]; [discriminate |]. cbn [map] in E. injection E as Sn E.
    inversion ND as [|? ? NI ND']; subst.
    assert (IHa : map slot (filter (fun n => negb (u n)) ns) = map Some (filter (supp_keep del) cells)).
    { apply IH; [exact E | exact ND' | |].
      - intros m c' Im. apply H1. right. exact Im.
      - intros c' Id Ic. destruct (H2 c' Id (or_intror Ic)) as (m & [<- | Im] & Um & Sm).
        + rewrite Sn in Sm. injection Sm as <-. contradiction.
        + exists m. split; [exact Im |]. split; assumption. }
    cbn [filter]. destruct (u n) eqn:Un; cbn [negb].
    + assert (Id : In c del) by (apply (H1 n c); [left; reflexivity | exact Sn | exact Un]).
      apply supp_keep_false in Id. rewrite Id. exact IHa.
    + assert (Nd : ~ In c del).
      { intro Id. destruct (H2 c Id (or_introl eq_refl)) as (m & [<- | Im] & Um & Sm).
        - rewrite Un in Um. discriminate.
        - apply NI. exact (slot_in_cells slot ns cells m c E Im Sm). }
      apply supp_keep_true in Nd. rewrite Nd. cbn [map]. rewrite Sn, IHa. reflexivity.
Qed.

(* the maintained encoding holds exactly one object per edge of the tree that is left:
   if the edges of the tree (post-order, the order of encode_bipartitions) are bound to pairwise distinct objects
   and the stored list is the list of these objects, then after suppress_unifurcations(update_bipartitions=True)
   - whose structure t is the old one without its outdegree-one nodes - the stored list is the list of the objects
   on the edges of t, pairwise distinct, all of them objects of the old list; no object is created or written,
   no edge rebound, and what earlier encodings returned is untouched *)
Lemma supp_one_object_per_edge_l : forall t r s cells,
  NoDup cells ->
  map (fun n => oh_slot (ot_heap s) (t_id n)) (postorder (ot_tree s)) = map Some cells ->
  ot_stored s = Some cells ->
  map t_id (postorder t) = map t_id (filter (fun n => negb (is_unary n)) (postorder (ot_tree s))) ->
  let s' := obj_supp t r s in
  exists cells',
    ot_stored s' = Some cells' /\
    map (fun n => oh_slot (ot_heap s') (t_id n)) (postorder t) = map Some cells' /\
    NoDup cells' /\
    (forall c, In c cells' -> In c cells) /\
    length cells' = length (postorder t) /\
    ot_heap s' = ot_heap s /\ ot_saved s' = ot_saved s /\ ot_tree s' = t /\ ot_rooted s' = r.
Proof.
  intros t r s cells ND B St Ht. cbv zeta.
  set (del := supp_deleted (ot_heap s) (ot_tree s)).
  exists (filter (supp_keep del) cells).
  assert (F : map (fun n => oh_slot (ot_heap s) (t_id n)) (filter (fun n => negb (is_unary n)) (postorder (ot_tree s)))
              = map Some (filter (supp_keep del) cells)).
  { apply filter_by_identity; [exact B | exact ND | |].
    - intros n c In_ Sn Un. apply in_supp_deleted. exists n. split; [exact In_ |]. split; assumption.
    - intros c Id _. apply in_supp_deleted in Id. exact Id. }
  assert (M : map (fun n => oh_slot (ot_heap s) (t_id n)) (postorder t) = map Some (filter (supp_keep del) cells)).
  { rewrite <- F. rewrite <- (map_map t_id (oh_slot (ot_heap s))). rewrite Ht. rewrite map_map. reflexivity. }
  split; [unfold obj_supp; cbn [ot_stored]; rewrite St; reflexivity |].
  split; [exact M |].
  split; [apply NoDup_filter; exact ND |].
  split; [intros c Ic; apply filter_In in Ic; exact (proj1 Ic) |].
  split; [| repeat split].
  apply (f_equal (@length _)) in M. rewrite !map_length in M. symmetry. exact M.
Qed.

(* the lists returned by earlier encodings and every object's attributes stay (all histories: C01Obj
   steps_keep_saved covers HSupp); in particular the list the maintained one was made from *)
Lemma supp_keeps_heap_and_saved t r s : ot_heap (obj_supp t r s) = ot_heap s /\ ot_saved (obj_supp t r s) = ot_saved s.
Proof. split; reflexivity. Qed.

(* ------------------------------------------------------------------------------------------ *)
(* the statement bites (seeded change C01-9): filtering with `b not in set_of_Bipartition_objects`, i.e. by
   Bipartition.__eq__/__hash__ = the split bitmask, also drops the object of the surviving child edge, whose
   split equals that of the removed outdegree-one node *)
Definition supp_deleted_splits (h : oheap) (t : tree) : list (option Z) :=
  flat_map (fun c => match st_get (oh_store h) c with Some b => [b_split b] | None => [] end) (supp_deleted h t).

Definition supp_keep_by_value (h : oheap) (dels : list (option Z)) (c : Z) : bool :=
  match st_get (oh_store h) c with
  | Some b => negb (existsb (oz_eqb (b_split b)) dels)
  | None => true
  end.

Definition obj_supp_by_value (t : tree) (r : option bool) (s : otree) : otree :=
  mkOT (ot_heap s) t r
       (option_map (filter (supp_keep_by_value (ot_heap s) (supp_deleted_splits (ot_heap s) (ot_tree s)))) (ot_stored s))
       (ot_saved s).

(* (((a,b)),c,d) with an outdegree-one node 1 above the internal node 2, and the same tree without it *)
Definition demo_unary : tree :=
  T 0 None None None [T 1 None None None [T 2 None None None [T 3 (Some 0) None None []; T 4 (Some 1) None None []]];
                      T 5 (Some 2) None None []; T 6 (Some 3) None None []].
Definition demo_unary_suppressed : tree :=
  T 0 None None None [T 2 None None None [T 3 (Some 0) None None []; T 4 (Some 1) None None []];
                      T 5 (Some 2) None None []; T 6 (Some 3) None None []].

Lemma by_value_variant_refuted_l :
  let s1 := obj_encode false true false false (fun x => x) (ot_init (Some true) demo_unary) in
  let s2 := obj_supp_by_value demo_unary_suppressed (Some true) s1 in
  exists cells cells',
    NoDup cells /\
    map (fun n => oh_slot (ot_heap s1) (t_id n)) (postorder (ot_tree s1)) = map Some cells /\
    ot_stored s1 = Some cells /\
    map t_id (postorder demo_unary_suppressed) = map t_id (filter (fun n => negb (is_unary n)) (postorder (ot_tree s1))) /\
    ot_stored s2 = Some cells' /\
    map (fun n => oh_slot (ot_heap s2) (t_id n)) (postorder demo_unary_suppressed) <> map Some cells' /\
    length cells' <> length (postorder demo_unary_suppressed).
Proof.
  cbv zeta. exists [0; 1; 2; 3; 4; 5; 6]. eexists.
  split; [repeat constructor; cbn; intuition lia |].
  split; [vm_compute; reflexivity |]. split; [vm_compute; reflexivity |]. split; [vm_compute; reflexivity |].
  split; [vm_compute; reflexivity |]. split; vm_compute; discriminate.
Qed.

(* the same state through the model of the real code: the hypotheses of supp_one_object_per_edge_l hold of it and
   the maintained list is the five-object list of the five edges that are left, the unary node's object 3 gone and
   the surviving child's object 2 (same split 3) kept *)
Example supp_example :
  let s1 := obj_encode false true false false (fun x => x) (ot_init (Some true) demo_unary) in
  let s2 := obj_supp demo_unary_suppressed (Some true) s1 in
  NoDup [0; 1; 2; 3; 4; 5; 6] /\
  map (fun n => oh_slot (ot_heap s1) (t_id n)) (postorder (ot_tree s1)) = map Some [0; 1; 2; 3; 4; 5; 6] /\
  ot_stored s1 = Some [0; 1; 2; 3; 4; 5; 6] /\
  map t_id (postorder demo_unary_suppressed) = map t_id (filter (fun n => negb (is_unary n)) (postorder (ot_tree s1))) /\
  ot_stored s2 = Some [0; 1; 2; 4; 5; 6] /\
  map (fun c => option_map b_split (st_get (oh_store (ot_heap s2)) c)) [2; 3] = [Some (Some 3); Some (Some 3)].
Proof.
  cbv zeta. split; [repeat constructor; cbn; intuition lia |].
  repeat split; vm_compute; reflexivity.
Qed.
