(* C12, sixth wave: WHAT a seeded deep copy shares with its source, as an `iff` (no privacy hypothesis needed):
   the old objects the copy reaches are exactly what is reachable from a memo seed or an atomic object
   (StateAlphabet, StateIdentity) that the SOURCE ROOT reaches.  In particular every atomic object the source
   reaches is reached by the copy as the very same object (it is never recorded as copied: C12NoAtom.v). *)
From Coq Require Import ZArith List Bool Lia.
From DV Require Import Model.PyPrims Model.C12Model Model.C12Spec2 Model.C12Spec3 Model.C12Spec4 Proofs.C12Heap Proofs.C12Inv
  Proofs.C12Copy Proofs.C12Wf Proofs.C12Proofs Proofs.C12Iso Proofs.C12Wf2 Proofs.C12IsoTop Proofs.C12Own Proofs.C12AnnDef
  Proofs.C12Own2 Proofs.C12Fun Proofs.C12Wf3 Proofs.C12AnnTop Proofs.C12FunTop Proofs.C12Image Proofs.C12ImageTop
  Proofs.C12Examples Proofs.C12IsoFull Proofs.C12IsoFullTop Proofs.C12NoAtom Proofs.C12Strict Proofs.C12StrictTop.
Import ListNotations.
Open Scope Z_scope.

(* run_fresh, strengthened: the seed / atomic object from which an old object of the copy is reachable is itself
   reached by the copy *)
Lemma run_fresh_via : forall nf h seeds root fuel s' y,
  wf_heap h seeds = true -> 0 <= root < hlen h -> (length h < fuel)%nat ->
  run_seeded nf fuel h seeds root = Ok (s', R y) ->
  forall o, reach (sh s') y o ->
    hlen h <= o < hlen (sh s') \/
    exists b, (In b seeds \/ is_atomic h b = true) /\ 0 <= b < hlen h /\ reach (sh s') y b /\ reach h b o.
Proof.
  intros nf h seeds root fuel s' y WF Hr Hf E.
  destruct (run_spec h seeds nf WF fuel root Hr Hf) as [_ OK].
  destruct (OK s' (R y) E) as [IV [EX RO]].
  assert (SC : forall b, reach (sh s') y b -> Shared h seeds b ->
             exists b0, (In b0 seeds \/ is_atomic h b0 = true) /\ 0 <= b0 < hlen h /\ reach (sh s') y b0 /\ reach h b0 b).
  { intros b RB [Rb Sb]. exists b. split; [exact Sb|]. split; [exact Rb|]. split; [exact RB | apply reach_refl]. }
  intros o RE. induction RE as [|a o2 RE IH ED].
  - simpl in RO. destruct RO as [RO|[RO _]]; [left; lia | right; apply SC; [apply reach_refl | exact RO]].
  - assert (RO2 : reach (sh s') y o2) by (eapply reach_step; eassumption).
    destruct ED as [ob [k [v [G [I J]]]]]. destruct (Z_lt_dec a (hlen h)) as [Lt|Ge].
    + destruct IH as [IH|[b0 [Sb [Rb [RYb Rba]]]]]; [lia|]. rewrite (i_old _ _ _ IV a Lt) in G.
      right. exists b0. split; [exact Sb|]. split; [exact Rb|]. split; [exact RYb|].
      eapply reach_step; [exact Rba|]. exists ob, k, v. auto.
    + destruct (i_fresh _ _ _ IV a ob k v ltac:(lia) G I) as [Vk Vv].
      destruct J as [J|J]; subst; simpl in *.
      * destruct Vk as [Vk|Vk]; [left; lia | right; apply SC; assumption].
      * destruct Vv as [Vv|Vv]; [left; lia | right; apply SC; assumption].
Qed.

Lemma empty_part_not_entry : forall h seeds a, Exact h -> (forall b, In b seeds -> ~ In b (owned_conts h)) ->
  empty_annset_part h a -> ~ (In a seeds \/ is_atomic h a = true).
Proof.
  intros h seeds a EX SEEDCONT [x [ox [sx [sxo [G [AK [BA [GSX [_ W]]]]]]]]] EN.
  assert (EXx := EX x ox G AK). rewrite BA in EXx.
  destruct EXx as [sxo1 [lx [zx [l [z [GSX1 [BL [BZ [BT [CS [KS [GLX [GZX [CL [KL [AR [CZ [KZ EZ]]]]]]]]]]]]]]]]]].
  assert (sxo1 = sxo) by congruence. subst sxo1.
  assert (IC : In a (owned_conts h)).
  { unfold owned_conts. apply in_flat_map. exists ox. split; [eapply hget_In; exact G|].
    rewrite AK, BA, GSX, BL, BZ. simpl. destruct W as [E|[E|E]]; [left; auto | right; left; congruence | right; right; left; congruence]. }
  destruct EN as [S|A]; [exact (SEEDCONT a S IC)|].
  unfold is_atomic, kind_at in A.
  destruct W as [E|[E|E]].
  - subst a. rewrite GSX, KS in A. discriminate.
  - assert (a = lx) by congruence. subst a. rewrite GLX, KL in A. discriminate.
  - assert (a = zx) by congruence. subst a. rewrite GZX, KZ in A. discriminate.
Qed.

Theorem shares_exactly_iff_l : forall nf h seeds root fuel s' y,
  wf_heap h seeds = true -> wf_heap2 h = true -> wf_heap3 h = true -> wf_heap3s h = true -> wf_heap4 h = true ->
  root_seeds_ok h seeds root = true -> memz root (owned_list h) = false ->
  0 <= root < hlen h -> (length h < fuel)%nat ->
  run_seeded nf fuel h seeds root = Ok (s', R y) ->
  (forall o, (reach (sh s') y o /\ reach (sh s') root o) <->
             (exists b, (In b seeds \/ is_atomic h b = true) /\ reach h root b /\ reach h b o))
  /\ (forall b, (In b seeds \/ is_atomic h b = true) -> reach h root b ->
        reach (sh s') y b /\ iso_rel h s' root y b b /\ forall b', iso_rel h s' root y b b' -> b' = b)
  /\ (forall a b, In (a, b) (sc s') -> is_atomic h a = false).
Proof.
  intros nf h seeds root fuel s' y WF WF2 WF3 WF3S WF4 RS NO Hr Hf E.
  destruct (wf_heap_parts _ _ WF) as [Hc [Hs _]].
  destruct (deepcopy_fresh_disjoint_l nf h seeds root fuel s' y WF Hr Hf E) as [OLD _].
  destruct (deepcopy_bisimulation_l nf h seeds root fuel s' y WF WF2 NO Hr Hf E) as [RR [PAIR INJ]].
  assert (ANN := deepcopy_annotation_sets_l nf h seeds root fuel s' y WF WF2 WF3 NO Hr Hf E).
  destruct (deepcopy_single_valued_l nf h seeds root fuel s' y WF WF2 WF3 RS NO Hr Hf E) as [FUN [SRC FND]].
  assert (NOATOM := recorded_not_atomic_l nf h seeds root fuel s' y WF WF2 NO Hr Hf E).
  destruct (deepcopy_isomorphism_l nf h seeds root fuel s' y WF WF2 WF3 WF3S WF4 RS NO Hr Hf E) as [T1 [ONTO [TOT [INJR [_ [FRS _]]]]]].
  assert (NOSEED : forall a b, In (a, b) (sc s') -> ~ In a seeds) by (intros a b I; exact (proj2 (SRC a b I))).
  assert (ANN' : forall a b oa, In (a, b) (sc s') -> hget h a = Some oa -> is_annk (okind oa) = true ->
            exists done, AnnState s' b done /\ map fst done = refs_of (ann_items h oa) /\ (forall p, In p done -> In p (sc s'))).
  { intros a b oa I G AK. exact (ANN a b oa I G AK). }
  assert (EX := wf4_exact h WF4).
  assert (CPOF := cp_of h s'). feed CPOF.
  assert (SEEDCONT : forall a, In a seeds -> ~ In a (owned_conts h)).
  { intros a I. destruct (root_seeds_spec h seeds root RS) as [_ SD]. exact (proj2 (proj2 (SD a I))). }
  assert (SELF := entry_image_self h s' root y seeds). feed SELF.
  assert (VIA := run_fresh_via nf h seeds root fuel s' y WF Hr Hf E).
  assert (SRO := source_reach_old nf h seeds root fuel s' y WF Hr Hf E).
  assert (FR : forall b o, 0 <= b < hlen h -> reach h b o -> reach (sh s') b o).
  { intros b o Hb RB. apply (frame_reach_fwd h (sh s') b); [|exact RB].
    intros o' R'. apply OLD. apply (reach_in_range h b Hc Hb o' R'). }
  assert (ENTRY : forall b, (In b seeds \/ is_atomic h b = true) -> reach h root b ->
            reach (sh s') y b /\ iso_rel h s' root y b b /\ forall b', iso_rel h s' root y b b' -> b' = b).
  { intros b EN RB. destruct (TOT b RB) as [[b' RHO]|EMP].
    - assert (b = b') by (exact (SELF b b' RHO EN)). subst b'.
      split; [exact (proj1 (proj2 RHO))|]. split; [exact RHO|]. intros b' RHO'. symmetry. exact (SELF b b' RHO' EN).
    - exfalso. exact (empty_part_not_entry h seeds b EX SEEDCONT EMP EN). }
  split; [|split; [exact ENTRY | exact NOATOM]].
  intro o. split.
  - intros [RY RO]. destruct (SRO o RO) as [RHO Ho].
    destruct (VIA o RY) as [F|[b [EN [Hb [RYB RBO]]]]]; [lia|].
    exists b. split; [exact EN|]. split; [|exact RBO].
    destruct (ONTO b RYB) as [a RAB]. destruct (FRS a b RAB) as [F1 _]. rewrite <- (F1 (proj2 Hb)). exact (proj1 RAB).
  - intros [b [EN [RB RBO]]]. destruct (ENTRY b EN RB) as [RYB _].
    assert (Hb : 0 <= b < hlen h) by (apply (reach_in_range h root Hc Hr b RB)).
    split.
    + eapply reach_trans; [exact RYB | exact (FR b o Hb RBO)].
    + apply (FR root o Hr). eapply reach_trans; eassumption.
Qed.
