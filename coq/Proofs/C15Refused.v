(* C15, wave 8: refused calls in a history (the caller catches the documented error and carries on).
   Model/C15World.v: step SRefused k p n; steps_ok continues from the store the call started from. *)
From Coq Require Import ZArith List Bool Lia.
From DV Require Import Model.PyPrims Model.Tree Model.C15Prims Model.C15WorldPrims Gen.TraversalsObj
     Model.C15Model Model.C15World Proofs.C15WorldProofs.
Import ListNotations.
Open Scope Z_scope.

(* a history in which the caller catches the documented error of a refused call and carries on *)
Fixpoint run_steps_r (sts : list step) (s : store) : res (unit * store) :=
  match sts with
  | [] => Ok (tt, s)
  | st :: r =>
    match st, do_step st s with
    | SRefused k _ _, Err e => if err_eqb e (refused_err k) then run_steps_r r s else Err e
    | SRefused _ _ _, Ok _ => Err OtherErr
    | _, Ok (_, s') => run_steps_r r s'
    | _, Err e => Err e
    | _, OutOfFuel => OutOfFuel
    end
  end.

(* ---- the refused argument classes are refused ---- *)
Lemma remove_child_refused p n s rp c :
  node_of s p = Some rp -> list_of s (n_kids rp) = Some c -> C15WorldPrims.memZ n c = false ->
  remove_child p n s = Err ValueErr.
Proof.
  intros Hp Hl Hm. unfold remove_child, mbind, o_child_list, l_mem, l_contents, mbind, ret.
  rewrite Hp. rewrite Hl. rewrite Hm. reflexivity.
Qed.

Lemma add_child_self_refused p s : Node_add_child_obj p p s = Err AssertErr.
Proof. unfold Node_add_child_obj. rewrite Z.eqb_refl. reflexivity. Qed.

Lemma add_child_parent_refused p n s rp :
  node_of s p = Some rp -> n_parent rp = Some n -> Node_add_child_obj p n s = Err AssertErr.
Proof.
  intros Hp Hn. unfold Node_add_child_obj. destruct (Z.eqb n p); [reflexivity|]. cbn [negb].
  unfold mbind, o_get_parent. rewrite Hp. rewrite Hn. unfold opt_is. rewrite Z.eqb_refl. reflexivity.
Qed.

(* ---- frame: the history after a refused call runs from the very store the call started from ---- *)
Lemma refused_step_frame k p n r s x :
  run_steps_r (SRefused k p n :: r) s = Ok x ->
  do_step (SRefused k p n) s = Err (refused_err k) /\ run_steps_r r s = Ok x.
Proof.
  cbn [run_steps_r]. destruct (do_step (SRefused k p n) s) as [[u s1]|e|] eqn:E; try discriminate.
  destruct (err_eqb e (refused_err k)) eqn:Q; [|discriminate]. intros H. split; [|exact H].
  f_equal. destruct e, k; cbn in Q; try discriminate; reflexivity.
Qed.

Lemma steps_ok_refused k p n sr r rr s :
  steps_ok s (SRefused k p n :: sr) (r :: rr) = true ->
  do_step (SRefused k p n) s = Err (refused_err k) /\ rec_ok s r = true /\ steps_ok s sr rr = true.
Proof.
  cbn [steps_ok]. destruct (do_step (SRefused k p n) s) as [[u s1]|e|] eqn:E; try discriminate.
  intros H. apply andb_prop in H. destruct H as [H H3]. apply andb_prop in H. destruct H as [H1 H2].
  split; [|split; assumption]. f_equal. destruct e, k; cbn in H1; try discriminate; reflexivity.
Qed.

(* ---- the separation invariant over histories WITH refused calls ---- *)
Lemma sep_history_r ts sts s0 s :
  build_world ts empty_store = Ok (tt, s0) -> run_steps_r sts s0 = Ok (tt, s) -> sep s.
Proof.
  intros H0. assert (S0 : sep s0) by exact (sep_build_world _ _ _ H0 sep_empty). clear H0.
  revert s0 S0. induction sts as [|st r IH]; cbn [run_steps_r]; intros s0 S0 H.
  - injection H as <-. exact S0.
  - destruct st as [n es pb|n|t n|n p|n x|n|t|k p n];
      try (destruct (do_step _ s0) as [[[] s1]|e|] eqn:E; [exact (IH _ (sep_step _ _ _ E S0) H)|discriminate|discriminate]).
    destruct (do_step (SRefused k p n) s0) as [[[] s1]|e|] eqn:E; try discriminate.
    destruct (err_eqb e (refused_err k)); [|discriminate]. exact (IH _ S0 H).
Qed.

(* ---- the hypotheses are satisfiable: refused calls of every class inside a history ---- *)
Definition ex_steps_r : list step :=
  [SRefused RRemoveChild 4 2; SRefused RRemoveChild 1 1; SRefused RRemoveChild 2 1; SRefused RRemoveChild 1 0;
   SRefused RAddChild 2 2; SRefused RAddChild 2 1; SRemoveChild 2; SRefused RRemoveChild 1 2].

Lemma ex_history_r_runs :
  exists s0 s, build_world [ex_tree] empty_store = Ok (tt, s0) /\ run_steps_r ex_steps_r s0 = Ok (tt, s) /\
               kids_of s0 1 = [2; 3] /\ kids_of s 1 = [3] /\ parent_of s 3 = Some 1 /\ parent_of s 2 = None.
Proof. eexists. eexists. vm_compute. repeat split. Qed.
