(* C13 (translator tie, second part): _parse_taxlabels_statement and _parse_translate_statement as compiled
   from the current source over the atomic namespace / taxon / label-set operations of C13GenPrims.v
   compute the model's parse_taxlabels / parse_translate - on a namespace handle that refers to an
   existing namespace object (an index below the number of namespace objects of the state). *)
From Coq Require Import ZArith List Bool Lia.
From Coq Require String. Import String.StringSyntax.
From DV Require Import Model.PyPrims Model.C13Model Model.C13GenPrims Gen.Routes Proofs.C13Blocks Proofs.C13GenStmts.
Import ListNotations.

Section S.
Variable T : Type.
Variables lower upper : str -> str.
Variable c : nscfg.

Local Arguments fetch : simpl never.
Local Arguments next_token : simpl never.
Local Arguments require_next_token : simpl never.
Local Arguments str_eqb : simpl never.
Local Arguments s2z : simpl never.

Notation gst := (gst T).

(* a namespace handle that refers to an existing object *)
Definition nsv (k : core) (i : nat) : Prop := (i < length (k_nss k))%nat.

(* ---- the object store ---- *)
Lemma list_set_idem : forall (A : Type) (l : list A) i a b, list_set (list_set l i a) i b = list_set l i b.
Proof. induction l as [|x l IH]; intros [|i] a b; cbn; try reflexivity. rewrite IH. reflexivity. Qed.
Lemma list_set_len : forall (A : Type) (l : list A) i a, length (list_set l i a) = length l.
Proof. induction l as [|x l IH]; intros [|i] a; cbn; try reflexivity. rewrite IH. reflexivity. Qed.
Lemma list_set_get : forall (A : Type) (l : list A) i a d, (i < length l)%nat -> nth i (list_set l i a) d = a.
Proof. induction l as [|x l IH]; intros [|i] a d H; cbn in *; try lia; [reflexivity|]. apply IH. lia. Qed.
Lemma list_set_same : forall (A : Type) (l : list A) i d, list_set l i (nth i l d) = l.
Proof. induction l as [|x l IH]; intros [|i] d; cbn; try reflexivity. rewrite IH. reflexivity. Qed.

(* the core with namespace i holding `taxa` and the tokenizer at z *)
Definition KK (k : core) (i : nat) (taxa : list str) (z : tz) : core :=
  mkCore z (k_ntax k) (list_set (k_nss k) i taxa).

Lemma KK_at : forall k i taxa z, nsv k i -> ns_taxa_at (KK k i taxa z) i = taxa.
Proof. intros. unfold ns_taxa_at, KK. cbn [k_nss]. apply list_set_get. assumption. Qed.
Lemma KK_set : forall k i taxa z taxa', set_ns_taxa (KK k i taxa z) i taxa' = KK k i taxa' z.
Proof. intros. unfold set_ns_taxa, KK. cbn. rewrite list_set_idem. reflexivity. Qed.
Lemma KK_init : forall k i, KK k i (ns_taxa_at k i) (k_z k) = k.
Proof. intros [z n nss] i. unfold KK, ns_taxa_at. cbn. rewrite list_set_same. reflexivity. Qed.
Lemma KK_z : forall k i taxa z, k_z (KK k i taxa z) = z.
Proof. reflexivity. Qed.
Lemma KK_final : forall k i taxa z, KK k i taxa z = set_z (set_ns_taxa k i taxa) z.
Proof. reflexivity. Qed.

(* ---- label sets ---- *)
Lemma str_eqb_sym : forall a b, str_eqb a b = str_eqb b a.
Proof.
  intros a b. destruct (str_eqb a b) eqn:E1; destruct (str_eqb b a) eqn:E2; try reflexivity.
  - apply str_eqb_eq in E1. subst. assert (str_eqb b b = true) by (apply str_eqb_eq; reflexivity). congruence.
  - apply str_eqb_eq in E2. subst. assert (str_eqb a a = true) by (apply str_eqb_eq; reflexivity). congruence.
Qed.

Definition has_label (taxa : list str) (l : str) : bool := existsb (fun x => str_eqb (lower x) (lower l)) taxa.

Lemma find_label_has : forall taxa i l,
  match find_label lower i l taxa with Some _ => true | None => false end = has_label taxa l.
Proof.
  induction taxa as [|x r IH]; intros i l; cbn [find_label has_label existsb]; [reflexivity|].
  destruct (str_eqb (lower x) (lower l)); [reflexivity|]. apply IH.
Qed.

(* the set holds the lower-cased labels of `taxa` *)
Definition lset_ok (S : sset) (taxa : list str) : Prop :=
  forall l, sset_mem (Some (lower l)) S = has_label taxa l.

Lemma lset_add : forall S taxa x, lset_ok S taxa -> lset_ok (sset_add S (Some (lower x))) (taxa ++ [x]).
Proof.
  intros S taxa x H l. specialize (H l). unfold sset_add, sset_mem, has_label in *. cbn [existsb o_eqb].
  rewrite existsb_app. cbn [existsb]. rewrite orb_false_r, H.
  rewrite (str_eqb_sym (lower l) (lower x)). apply orb_comm.
Qed.

Lemma lset_init : forall (s : gst) rest i done S,
  lset_ok S done ->
  exists S',
    for_res (fun (acc__ : gst * sset) (v_taxon : otaxon) =>
               let '(s, v_label_set) := acc__ in
               let v_label_set : sset := sset_add v_label_set (tx_lower_label lower v_taxon) in Ok (s, v_label_set))
            (map (fun p => Some p) (enum_from i rest)) (s, S) = Ok (s, S')
    /\ lset_ok S' (done ++ rest).
Proof.
  intros s; induction rest as [|x r IH]; intros i done S H.
  - exists S. rewrite app_nil_r. split; [reflexivity|assumption].
  - cbn [enum_from map for_res bind tx_lower_label].
    destruct (IH (Datatypes.S i) (done ++ [x]) _ (lset_add S done x H)) as [S' [E1 E2]].
    exists S'. split; [exact E1|]. rewrite <- app_assoc in E2. exact E2.
Qed.

(* ---- _parse_taxlabels_statement ---- *)
Section Taxlabels.
Variables (k : core) (g : regs) (tls : list (tlval T)) (reg : list nat) (i : nat).
Hypothesis V : nsv k i.
Hypothesis HA : c_attached c = true -> i = O.

Lemma attached_truthy : forall taxa z,
  rd_ns_truthy T (mkRs (KK k i taxa z) g tls reg) (rd_reader_attached c) = (c_attached c && negb (is_nil taxa)).
Proof.
  intros. unfold rd_ns_truthy, rd_reader_attached. destruct (c_attached c) eqn:A; [|reflexivity].
  rewrite <- (HA eq_refl). cbn [r_k]. rewrite KK_at by exact V. reflexivity.
Qed.

Lemma g_taxlabels_loop_eq : forall fuel z taxa S tok,
  z_cur z = Some tok -> lset_ok S taxa ->
  (do r <- g_parse_taxlabels_statement_loop1 T lower c fuel (Some i) (mkRs (KK k i taxa z) g tls reg) (Some tok) S ;;
   Ok (fst (fst r)))
  = (do r <- taxlabels_loop lower c fuel z taxa (k_ntax k) ;;
     let '(taxa', z') := r in Ok (mkRs (KK k i taxa' z') g tls reg)).
Proof.
  induction fuel as [|f IH]; intros z taxa S tok HZ HS; [reflexivity|].
  cbn [g_parse_taxlabels_statement_loop1 taxlabels_loop]. rewrite HZ.
  change (o_eq (Some tok) (s2z ";")) with (str_eqb tok K_SEMI).
  destruct (str_eqb tok K_SEMI); cbn [negb]; [reflexivity|].
  cbv zeta. cbn [o_lower]. rewrite (HS tok).
  unfold ns_get_taxon. rewrite <- (find_label_has taxa O tok).
  unfold rd_ns_get_taxon, rd_ntax, rd_ns_len, ifc_ns_new_taxon, tk_require_next_token, tk_lift, tk_process_and_clear,
    st_z, st_set_z, st_set_k.
  cbn [r_k r_g r_tls r_tlreg on_get]. rewrite !KK_at by exact V. unfold ns_get_taxon.
  destruct (find_label lower 0 tok taxa) as [j|] eqn:F; cbn [bind].
  - (* a member already *)
    cbn [bind r_k r_g r_tls r_tlreg]. rewrite ?KK_z.
    destruct (require_next_token z) as [z1| |] eqn:R; cbn [bind r_k r_g r_tls r_tlreg]; try reflexivity.
    rewrite (require_some _ _ R).
    apply (IH (clear_comments z1) taxa S (cur_text z1)); [|exact HS].
    unfold clear_comments, set_com. cbn [z_cur]. apply (require_some _ _ R).
  - (* a new label *)
    change (k_ntax (KK k i taxa z)) with (k_ntax k). rewrite attached_truthy.
    assert (NEW :
      (do r <- (do r6__ <- (do r2__ <- Ok (Some (length taxa, tok), mkRs (set_ns_taxa (KK k i taxa z) i (taxa ++ [tok])) g tls reg) ;;
                            let '(v_taxon, s0) := r2__ in
                            let v_label_set : sset := sset_add S (tx_lower_label lower v_taxon) in Ok (s0, v_label_set, v_taxon)) ;;
                let '(s0, v_label_set, v_taxon) := r6__ in
                do r5__ <- (do z0 <- require_next_token (k_z (r_k s0)) ;;
                            Ok (z_cur z0, mkRs (set_z (r_k s0) z0) (r_g s0) (r_tls s0) (r_tlreg s0))) ;;
                let '(v_token, s1) := r5__ in
                do r4__ <- Ok (tt, mkRs (set_z (r_k s1) (clear_comments (k_z (r_k s1)))) (r_g s1) (r_tls s1) (r_tlreg s1)) ;;
                let '(_, s2) := r4__ in
                g_parse_taxlabels_statement_loop1 T lower c f (Some i) s2 v_token v_label_set) ;; Ok (fst (fst r)))
      = (do z1 <- require_next_token z ;;
         do r <- taxlabels_loop lower c f (clear_comments z1) (taxa ++ [tok]) (k_ntax k) ;;
         let '(taxa', z') := r in Ok (mkRs (KK k i taxa' z') g tls reg))).
    { rewrite KK_set. cbn [bind tx_lower_label r_k r_g r_tls r_tlreg]. rewrite ?KK_z.
      destruct (require_next_token z) as [z1| |] eqn:R; cbn [bind r_k r_g r_tls r_tlreg]; try reflexivity.
      rewrite (require_some _ _ R).
      apply (IH (clear_comments z1) (taxa ++ [tok]) _ (cur_text z1)); [|apply lset_add; exact HS].
      unfold clear_comments, set_com. cbn [z_cur]. apply (require_some _ _ R). }
    cbn [bind r_k r_g r_tls r_tlreg]. rewrite ?KK_at by exact V.
    destruct (k_ntax k) as [n|] eqn:N; cbn [oz_is_none negb andb oz_get].
    + rewrite Z.geb_leb.
      destruct ((n <=? Z.of_nat (length taxa))%Z && negb (c_attached c && negb (is_nil taxa))); cbn [bind]; [reflexivity|].

      cbn [bind r_k r_g r_tls r_tlreg fst snd]. rewrite ?KK_at by exact V.
      etransitivity; [|etransitivity; [exact NEW|]]; [reflexivity|]. destruct (require_next_token z); reflexivity.
    + cbn [bind r_k r_g r_tls r_tlreg fst snd]. rewrite ?KK_at by exact V.
      etransitivity; [|etransitivity; [exact NEW|]]; [reflexivity|]. destruct (require_next_token z); reflexivity.
Qed.

Theorem g_parse_taxlabels_eq_at : forall fuel,
  g_parse_taxlabels_statement T lower upper c fuel (mkRs k g tls reg) (Some i)
  = ifc_parse_taxlabels T lower c fuel (mkRs k g tls reg) (Some i).
Proof.
  intros fuel. unfold g_parse_taxlabels_statement, ifc_parse_taxlabels, parse_taxlabels, tk_require_next_token, tk_lift,
    st_z, st_set_z, st_set_k. cbn [on_is_none bind r_k r_g r_tls r_tlreg on_get].
  destruct (require_next_token (k_z k)) as [z1| |] eqn:R; cbn [bind]; try reflexivity.
  assert (E : set_z k z1 = KK k i (ns_taxa_at k i) z1).
  { rewrite <- (KK_init k i) at 1. reflexivity. }
  rewrite E. unfold rd_ns_members. cbn [r_k on_get]. rewrite KK_at by exact V.
  destruct (lset_init (mkRs (KK k i (ns_taxa_at k i) z1) g tls reg) (ns_taxa_at k i) O [] sset_empty) as [S' [E1 E2]].
  { intros l. reflexivity. }
  cbn [app] in E2.
  match goal with |- context [for_res ?ff ?ll ?aa] =>
    replace (for_res ff ll aa) with (Ok (mkRs (KK k i (ns_taxa_at k i) z1) g tls reg, S')) by (symmetry; exact E1) end.
  cbn [bind].
  pose proof (g_taxlabels_loop_eq fuel z1 (ns_taxa_at k i) S' (cur_text z1) (require_some _ _ R) E2) as L.
  rewrite (require_some _ _ R).
  match type of L with (bind ?G _) = _ => destruct G as [[[s' t'] S2]| |] end;
    destruct (taxlabels_loop lower c fuel z1 (ns_taxa_at k i) (k_ntax k)) as [[taxa' z']| |];
    cbn [bind fst snd] in *; cbv beta iota in L; try discriminate L; try (injection L as ->; reflexivity); reflexivity.
Qed.
End Taxlabels.

(* ---- _parse_translate_statement ---- *)
Section Translate.
Variables (k : core) (g : regs) (tls : list (tlval T)) (reg : list nat) (i : nat).
Hypothesis V : nsv k i.

Local Arguments add_translate_token : simpl never.
Local Arguments mapper_set_ns : simpl never.

Definition ntax_mutable : bool := match k_ntax k with None => true | Some _ => false end.

Lemma g_translate_loop_eq : forall fuel z m tok,
  (do r <- g_parse_translate_statement_loop1 T lower fuel (Some i) ntax_mutable
             (mkRs (KK k i (m_ns m) z) g tls reg) tok (Some (i, m)) ;;
   Ok (fst (fst r), snd r))
  = (do r <- translate_loop lower fuel z m (k_ntax k) ;;
     let '(m', z') := r in Ok (mkRs (KK k i (m_ns m') z') g tls reg, Some (i, m'))).
Proof.
  induction fuel as [|f IH]; intros z m tok; [reflexivity|].
  cbn [g_parse_translate_statement_loop1 translate_loop].
  unfold tk_next_token, tk_lift, tk_is_token_quoted, st_z, st_set_z. cbn [r_k r_g r_tls r_tlreg]. rewrite !KK_z.
  destruct (next_token z) as [z1| |]; cbn [bind r_k r_g r_tls r_tlreg]; try reflexivity.
  change (k_z (set_z (KK k i (m_ns m) z) z1)) with z1.
  change (o_eq (z_cur z1) (s2z ";")) with (tok_is z1 K_SEMI).
  destruct (tok_is z1 K_SEMI && negb (z_quoted z1)); cbn [bind r_k r_g r_tls r_tlreg]; [reflexivity|].
  change (k_z (set_z (KK k i (m_ns m) z) z1)) with z1.
  destruct (next_token z1) as [z2| |]; cbn [bind r_k r_g r_tls r_tlreg]; try reflexivity.
  change (set_z (set_z (KK k i (m_ns m) z) z1) z2) with (KK k i (m_ns m) z2).
  unfold ifc_ns_require_taxon, st_set_k. cbn [r_k r_g r_tls r_tlreg on_get]. rewrite KK_at by exact V.
  destruct (z_cur z2) as [tl|]; [|reflexivity].
  assert (STEP : forall taxa' j (tx : otaxon), tx_index tx = j ->
    (do r <- (let v_taxon_symbol_mapper : option gmap :=
                ifc_mapper_add_token T lower (mkRs (KK k i taxa' z2) g tls reg) (Some (i, m)) (z_cur z1) tx in
              do r3__ <- (do z0 <- next_token (k_z (KK k i taxa' z2)) ;;
                          Ok (z_cur z0, mkRs (set_z (KK k i taxa' z2) z0) g tls reg)) ;;
              let '(v_token, s0) := r3__ in
              if negb (o_truthy v_token) || o_eq v_token (s2z ";") then Ok (s0, v_token, v_taxon_symbol_mapper)
              else do r2__ <- (if negb (o_eq v_token (s2z ",")) then Err ParseErr else Ok s0) ;;
                   let s1 := r2__ in
                   g_parse_translate_statement_loop1 T lower f (Some i) ntax_mutable s1 v_token v_taxon_symbol_mapper) ;;
     Ok (fst (fst r), snd r))
    = (do r <- (let m1 := add_translate_token lower (mapper_set_ns m taxa')
                             (match z_cur z1 with Some t => t | None => s2z "None" end) j in
                do z3 <- next_token z2 ;;
                if cur_falsy z3 || tok_is z3 K_SEMI then Ok (m1, z3)
                else if negb (tok_is z3 K_COMMA) then Err ParseErr
                else translate_loop lower f z3 m1 (k_ntax k)) ;;
       let '(m', z') := r in Ok (mkRs (KK k i (m_ns m') z') g tls reg, Some (i, m')))).
  { intros taxa' j tx <-. unfold ifc_mapper_add_token. cbn [r_k]. rewrite KK_at by exact V. rewrite KK_z. cbv zeta.
    destruct (next_token z2) as [z3| |]; cbn [bind]; try reflexivity.
    change (set_z (KK k i taxa' z2) z3) with (KK k i taxa' z3).
    unfold o_truthy. rewrite negb_involutive.
    change (match z_cur z3 with Some x => is_nil x | None => true end) with (cur_falsy z3).
    change (o_eq (z_cur z3) (s2z ";")) with (tok_is z3 K_SEMI).
    change (o_eq (z_cur z3) (s2z ",")) with (tok_is z3 K_COMMA).
    destruct (cur_falsy z3 || tok_is z3 K_SEMI); [reflexivity|].
    destruct (negb (tok_is z3 K_COMMA)); cbn [bind]; [reflexivity|].
    apply (IH z3 (add_translate_token lower (mapper_set_ns m taxa') _ (tx_index tx)) (z_cur z3)). }
  unfold ns_require_taxon.
  destruct (ns_get_taxon lower (m_ns m) tl) as [j|] eqn:G.
  - (* an existing member *)
    cbn [bind].
    etransitivity; [|etransitivity; [exact (STEP (m_ns m) j (Some (j, nth j (m_ns m) [])) eq_refl)|]]; [reflexivity|].
    destruct (k_ntax k); reflexivity.
  - assert (NM : ntax_mutable = match k_ntax k with None => true | Some _ => false end) by reflexivity.
    destruct (k_ntax k) as [n|] eqn:N; rewrite NM in *; cbn [bind]; [reflexivity|].
    cbn [bind r_k r_g r_tls r_tlreg]. rewrite ?KK_set.
    etransitivity; [|etransitivity; [exact (STEP (m_ns m ++ [tl]) (length (m_ns m)) (Some (length (m_ns m), tl)) eq_refl)|]];
      reflexivity.
Qed.

Theorem g_parse_translate_eq_at : forall fuel,
  g_parse_translate_statement T lower fuel (mkRs k g tls reg) (Some i)
  = ifc_parse_translate T lower fuel (mkRs k g tls reg) (Some i).
Proof.
  intros fuel. unfold g_parse_translate_statement, ifc_parse_translate, parse_translate.
  rewrite g_get_taxon_symbol_mapper_eq. unfold ifc_get_taxon_symbol_mapper, rd_ntax. cbn [bind r_k on_get].
  set (m0 := new_mapper lower (ns_taxa_at k i) true).
  assert (E : mkRs k g tls reg = mkRs (KK k i (m_ns m0) (k_z k)) g tls reg).
  { subst m0. cbn [new_mapper m_ns]. rewrite KK_init. reflexivity. }
  assert (B : (do r9__ <- (if oz_is_none (k_ntax k) then Ok (mkRs k g tls reg, true) else Ok (mkRs k g tls reg, false)) ;; Ok r9__)
              = Ok (mkRs k g tls reg, ntax_mutable)).
  { unfold ntax_mutable. destruct (k_ntax k); reflexivity. }
  pose proof (g_translate_loop_eq fuel (k_z k) m0 (tk_current_token T (mkRs k g tls reg))) as L.
  rewrite <- E in L.
  unfold ntax_mutable in L.
  destruct (k_ntax k) as [n|] eqn:N; cbn [oz_is_none bind] in *;
    match type of L with (bind ?G _) = _ => destruct G as [[[s' t'] m']| |] end;
    destruct (translate_loop lower fuel (k_z k) m0 _) as [[m1 z1]| |];
    cbn [bind fst snd] in *; cbv beta iota in L; try discriminate L; try reflexivity;
    try (injection L as -> ->; reflexivity); try (injection L as ->; reflexivity).
Qed.
End Translate.

End S.
