(* C07 proofs, part 6: where the new root is.
     rot_shape            after the chain of inversions the new seed keeps its own children, in
                          order, followed by ONE more child: its old parent, carrying the length of
                          the inverted edge
     reroot_at_edge       position of the new root on the edge
     reroot_at_midpoint   preserves the unrooted tree; the chosen pair is equidistant from the root *)
From Coq Require Import ZArith List Bool Lia Permutation.
From DV Require Import Model.PyPrims Model.Tree Model.C07Model Model.C07Spec
     Proofs.C07Base Proofs.C07Equiv Proofs.C07Rot Proofs.C07Blocks Proofs.C07Ops.
Import ListNotations.
Open Scope Z_scope.

(* ---------- shape of the rotated tree ---------- *)
Lemma rot_shape n : forall t e0 above r X,
  rot e0 n t above = Some r -> find_node n t = Some X ->
  exists up, r = T (t_id X) (t_taxon X) (t_label X) e0 (t_kids X ++ up)
    /\ (t_id t = n -> up = above)
    /\ (t_id t <> n -> exists P, up = [P] /\ t_len P = t_len X).
Proof.
  induction t as [i x l e ks IH] using tree_ind'. intros e0 above r X Hr HX.
  simpl in Hr. rewrite find_node_eq in HX. cbn [t_id t_kids] in *.
  destruct (i =? n) eqn:Ei.
  - inversion Hr; inversion HX; subst. exists above. split; [reflexivity|]. split; [reflexivity|].
    intros C. exfalso. apply C. apply Z.eqb_eq. assumption.
  - rewrite Forall_forall in IH.
    destruct (first_ctx_agree _ (find_node n) ks (fun k Hk pre post => rot_none_iff n k _ _) _ _ Hr)
      as [A [k [B [Hks [Hrk Hfk]]]]].
    cbn [app] in Hrk. rewrite Hfk in HX.
    assert (Hkin : In k ks) by (rewrite Hks; apply in_or_app; right; left; reflexivity).
    destruct (IH k Hkin _ _ _ _ Hrk HX) as [up [Hr' [U1 U2]]].
    exists up. split; [assumption|]. split.
    + intros C. apply Z.eqb_neq in Ei. contradiction.
    + intros _. destruct (Z.eq_dec (t_id k) n) as [Ek|Ek].
      * rewrite (U1 Ek). eexists. split; [reflexivity|]. cbn [t_len].
        rewrite find_node_eq in HX. apply Z.eqb_eq in Ek. rewrite Ek in HX. inversion HX. reflexivity.
      * apply U2. assumption.
Qed.

(* ---------- nodes below a node ---------- *)
Definition below (t : tree) : list tree := flat_map preorder (t_kids t).

Lemma preorder_below t : preorder t = t :: below t.
Proof. destruct t; reflexivity. Qed.

Lemma in_preorder_self t : In t (preorder t).
Proof. rewrite preorder_below. left. reflexivity. Qed.

Lemma kid_below k M Y : In k (t_kids M) -> In Y (preorder k) -> In Y (below M).
Proof. intros Hk HY. unfold below. apply in_flat_map. exists k. split; assumption. Qed.

Lemma below_trans Y M : forall t, In Y (below M) -> In M (preorder t) -> In Y (below t).
Proof.
  induction t as [i x l e ks IH] using tree_ind'. intros HY HM. rewrite preorder_below in HM.
  destruct HM as [HM|HM]; [subst; assumption|].
  unfold below in HM. cbn [t_kids] in HM. apply in_flat_map in HM. destruct HM as [k [Hk HMk]].
  rewrite Forall_forall in IH. specialize (IH k Hk HY HMk).
  apply (kid_below k); [assumption|]. rewrite preorder_below. right. assumption.
Qed.

Lemma preorder_trans Y M t : In Y (preorder M) -> In M (preorder t) -> In Y (preorder t).
Proof.
  intros HY HM. rewrite preorder_below in HY. destruct HY as [HY|HY]; [subst; assumption|].
  rewrite preorder_below. right. eapply below_trans; eauto.
Qed.

Lemma below_id t Y : NoDup (ids t) -> In Y (below t) -> t_id Y <> t_id t.
Proof.
  unfold ids. rewrite preorder_below. cbn [map]. intros ND HY E. inversion ND; subst.
  apply H1. rewrite <- E. apply in_map. assumption.
Qed.

Lemma leaf_taxa_sub a : forall t Y, In Y (preorder t) -> In a (leaf_taxa Y) -> In a (leaf_taxa t).
Proof.
  induction t as [i x l e ks IH] using tree_ind'. intros Y HY Ha. rewrite preorder_below in HY.
  destruct HY as [HY|HY]; [subst; assumption|].
  unfold below in HY. cbn [t_kids] in HY. apply in_flat_map in HY. destruct HY as [k [Hk HYk]].
  rewrite Forall_forall in IH. specialize (IH k Hk Y HYk Ha).
  assert (Hn : ks <> []) by (intro; subst; contradiction).
  rewrite leaf_taxa_node by assumption. apply in_flat_map. exists k. split; assumption.
Qed.

(* ---------- first_some for two functions with the same None-pattern ---------- *)
Lemma first_some_agree {A B C} (f : A -> option B) (g : A -> option C) l :
  (forall k, In k l -> (f k = None <-> g k = None)) ->
  forall b, first_some f l = Some b ->
  exists k, In k l /\ f k = Some b /\ first_some g l = g k.
Proof.
  induction l as [|a l IH]; intros H b; [discriminate|].
  rewrite !first_some_cons. assert (Ha := H a (or_introl eq_refl)).
  destruct (f a) eqn:E1.
  - intros Hb. inversion Hb; subst. exists a. split; [left; reflexivity|]. split; [assumption|].
    destruct (g a) eqn:E2; [reflexivity|]. destruct Ha as [_ Ha]. specialize (Ha eq_refl). discriminate.
  - intros Hb. destruct Ha as [Ha _]. rewrite (Ha eq_refl).
    destruct (IH (fun k Hk => H k (or_intror Hk)) b Hb) as [k [Hk [Hf Hg]]].
    exists k. split; [right; assumption|]. split; assumption.
Qed.

Lemma first_some_none_iff {A B C} (f : A -> option B) (g : A -> option C) l :
  (forall k, In k l -> (f k = None <-> g k = None)) ->
  (first_some f l = None <-> first_some g l = None).
Proof.
  intros H. rewrite !first_some_none. rewrite !Forall_forall. split; intros G k Hk; apply H; auto.
Qed.

(* ---------- up_chain ---------- *)
Lemma sum_len0_app c d : sum_len0 (c ++ d) = sum_len0 c + sum_len0 d.
Proof. induction c as [|p c IH]; simpl; [reflexivity|]. unfold sum_len0 in *. simpl. rewrite IH. lia. Qed.

Lemma sum_len0_one i e : sum_len0 [(i, e)] = len0 e.
Proof. unfold sum_len0. simpl. lia. Qed.

Lemma up_chain_node z i x l e ks :
  ks <> [] -> up_chain z (T i x l e ks) = option_map (fun c => c ++ [(i, e)]) (first_some (up_chain z) ks).
Proof. destruct ks; [congruence | reflexivity]. Qed.

Lemma up_chain_none_iff z : forall t, up_chain z t = None <-> down z t = None.
Proof.
  induction t as [i x l e ks IH] using tree_ind'. destruct ks as [|k r].
  - simpl. destruct (oz_eqb x z); split; intros; congruence.
  - rewrite up_chain_node, down_node by discriminate. unfold downF.
    rewrite <- (first_some_none_iff (up_chain z) (downT z)).
    + destruct (first_some (up_chain z) (k :: r)); simpl; split; intros; congruence.
    + rewrite Forall_forall in IH. intros c Hc. rewrite (IH c Hc). symmetry. apply downT_none_down.
Qed.

Lemma up_chain_in z t c : up_chain z t = Some c -> In z (leaf_taxa t).
Proof.
  intros H. destruct (down z t) eqn:E; [eapply down_in; eauto|].
  apply up_chain_none_iff in E. congruence.
Qed.

Lemma in_up_chain z t : In z (leaf_taxa t) -> exists c, up_chain z t = Some c.
Proof.
  intros H. destruct (up_chain z t) eqn:E; [eexists; reflexivity|].
  apply up_chain_none_iff in E. destruct (in_down z t H) as [d Hd]. congruence.
Qed.

Lemma up_chain_down z : forall t c, up_chain z t = Some c ->
  exists c', c = c' ++ [(t_id t, t_len t)] /\ down z t = Some (sum_len0 c').
Proof.
  induction t as [i x l e ks IH] using tree_ind'. intros c H. cbn [t_id t_len]. destruct ks as [|k r].
  - simpl in *. destruct (oz_eqb x z); [|discriminate]. inversion H; subst. exists []. split; reflexivity.
  - rewrite up_chain_node in H by discriminate. rewrite down_node by discriminate.
    destruct (first_some (up_chain z) (k :: r)) as [c1|] eqn:E; [|discriminate]. cbn [option_map] in H.
    inversion H; subst c. exists c1. split; [reflexivity|].
    assert (AG : forall c, In c (k :: r) -> (up_chain z c = None <-> downT z c = None)).
    { intros c Hc. rewrite up_chain_none_iff. symmetry. apply downT_none_down. }
    destruct (first_some_agree (up_chain z) (downT z) (k :: r) AG c1 E) as [kk [Hk [Hf Hg]]].
    unfold downF. rewrite Hg. rewrite Forall_forall in IH.
    destruct (IH kk Hk c1 Hf) as [c' [Hc' Hd]]. unfold downT. rewrite Hd, Hc'.
    rewrite sum_len0_app, sum_len0_one. cbn [oadd option_map]. f_equal. lia.
Qed.

Lemma last_decomp {A} (pre post c1 : list A) x y :
  pre ++ x :: post = c1 ++ [y] ->
  (post = [] /\ pre = c1 /\ x = y) \/ (exists post', post = post' ++ [y] /\ c1 = pre ++ x :: post').
Proof.
  intros H. destruct post as [|p post0].
  - left. apply app_inj_tail in H. destruct H. auto.
  - right. assert (Hne : p :: post0 <> []) by discriminate.
    destruct (exists_last Hne) as [post' [y' Hp']]. rewrite Hp' in *. exists post'.
    rewrite app_comm_cons, app_assoc in H. apply app_inj_tail in H. destruct H as [H1 H2]. subst. split; reflexivity.
Qed.

(* every element of the chain is a node of the tree, with its identity, its length, its distance
   down to the leaf; all but the first are internal, all but the last lie below the root *)
Lemma up_chain_nodes z : forall t c, up_chain z t = Some c ->
  forall pre i e post, c = pre ++ (i, e) :: post ->
  exists Y, In Y (preorder t) /\ t_id Y = i /\ t_len Y = e /\ down z Y = Some (sum_len0 pre)
            /\ (pre <> [] -> t_kids Y <> []) /\ (post <> [] -> In Y (below t)).
Proof.
  induction t as [i0 x0 l0 e0 ks IH] using tree_ind'. intros c H pre i e post Hc.
  destruct (up_chain_down z _ _ H) as [c1 [Hc1 Hd]]. cbn [t_id t_len] in Hc1.
  rewrite Hc1 in Hc. symmetry in Hc. apply last_decomp in Hc.
  destruct Hc as [[Hp [Hpre Hx]]|[post' [Hpost Hc1']]].
  - inversion Hx; subst. exists (T i0 x0 l0 e0 ks). split; [apply in_preorder_self|].
    split; [reflexivity|]. split; [reflexivity|]. split; [assumption|]. split; [|intros C; congruence].
    intros Hne. cbn [t_kids]. intro; subst ks. simpl in H. destruct (oz_eqb x0 z); [|discriminate].
    inversion H as [Hc].
    destruct c1; [congruence|]. destruct c1; discriminate.
  - destruct ks as [|k r].
    + simpl in H. destruct (oz_eqb x0 z); [|discriminate]. inversion H as [Hc]. rewrite Hc1 in Hc.
      destruct c1 as [|p c1]; [destruct pre; discriminate|]. destruct c1; discriminate.
    + rewrite up_chain_node in H by discriminate.
      destruct (first_some (up_chain z) (k :: r)) as [c2|] eqn:E; [|discriminate]. cbn [option_map] in H.
      inversion H as [Hc]. rewrite Hc1 in Hc. apply app_inj_tail in Hc. destruct Hc as [Hc _]. subst c2.
      apply first_some_some in E. destruct E as [kk [Hk Hf]].
      rewrite Forall_forall in IH.
      destruct (IH kk Hk c1 Hf pre i e post' Hc1') as [Y [Y1 [Y2 [Y3 [Y4 [Y5 _]]]]]].
      exists Y. split; [rewrite preorder_below; right; eapply kid_below; eauto|].
      repeat (split; [assumption|]). intros _. eapply kid_below; eauto.
Qed.

(* ---------- mrca_chains ---------- *)
Lemma mrca_chains_eq a b t :
  mrca_chains a b t =
  match first_some (mrca_chains a b) (t_kids t) with
  | Some m => Some m
  | None => match first_some (up_chain a) (t_kids t), first_some (up_chain b) (t_kids t) with
            | Some ca, Some cb => Some (t_id t, ca, cb)
            | _, _ => None
            end
  end.
Proof. destruct t; reflexivity. Qed.

Lemma mrca_chains_node a b : forall t m ca cb, mrca_chains a b t = Some (m, ca, cb) ->
  exists M, In M (preorder t) /\ t_id M = m /\ first_some (mrca_chains a b) (t_kids M) = None
     /\ first_some (up_chain a) (t_kids M) = Some ca /\ first_some (up_chain b) (t_kids M) = Some cb.
Proof.
  induction t as [i x l e ks IH] using tree_ind'. intros m ca cb H. rewrite mrca_chains_eq in H.
  cbn [t_kids t_id] in H.
  destruct (first_some (mrca_chains a b) ks) as [mm|] eqn:E.
  - inversion H; subst mm. apply first_some_some in E. destruct E as [k [Hk Hf]].
    rewrite Forall_forall in IH. destruct (IH k Hk _ _ _ Hf) as [M [M1 M2]].
    exists M. split; [|assumption]. rewrite preorder_below. right. eapply kid_below; eauto.
  - destruct (first_some (up_chain a) ks) as [ca'|] eqn:Ea; [|discriminate].
    destruct (first_some (up_chain b) ks) as [cb'|] eqn:Eb; [|discriminate].
    inversion H; subst. exists (T m x l e ks). split; [apply in_preorder_self|]. cbn [t_id t_kids].
    repeat split; assumption.
Qed.

(* two different leaves below one node have their mrca below (or at) that node *)
Lemma mrca_chains_some a b t ca cb :
  up_chain a t = Some ca -> up_chain b t = Some cb -> a <> b -> mrca_chains a b t <> None.
Proof.
  intros Ha Hb Hab. rewrite mrca_chains_eq. destruct t as [i x l e ks]. cbn [t_kids t_id].
  destruct (first_some (mrca_chains a b) ks); [discriminate|].
  destruct ks as [|k r].
  - simpl in Ha, Hb. destruct (oz_eqb x a) eqn:E1; [|discriminate]. destruct (oz_eqb x b) eqn:E2; [|discriminate].
    apply oz_eqb_true in E1, E2. congruence.
  - rewrite up_chain_node in Ha, Hb by discriminate.
    destruct (first_some (up_chain a) (k :: r)); [|discriminate].
    destruct (first_some (up_chain b) (k :: r)); [|discriminate]. discriminate.
Qed.

Definition sep (z w : option Z) (ks : list tree) : Prop :=
  forall k, In k ks -> ~ (In z (leaf_taxa k) /\ In w (leaf_taxa k)).

Lemma mrca_sep a b M :
  a <> b -> first_some (mrca_chains a b) (t_kids M) = None -> sep a b (t_kids M).
Proof.
  intros Hab H k Hk [Ha Hb]. apply first_some_none in H. rewrite Forall_forall in H. specialize (H k Hk).
  destruct (in_up_chain a k Ha) as [ca Hca]. destruct (in_up_chain b k Hb) as [cb Hcb].
  exact (mrca_chains_some a b k ca cb Hca Hcb Hab H).
Qed.

Lemma sep_sym z w ks : sep z w ks -> sep w z ks.
Proof. intros H k Hk [A B]. apply (H k Hk). split; assumption. Qed.

(* ---------- distances across different children ---------- *)
Lemma distF_sep z w ks : sep z w ks ->
  forall dz dw, downF z ks = Some dz -> downF w ks = Some dw -> distF z w ks = Some (dz + dw).
Proof.
  induction ks as [|k r IH]; intros S dz dw Hz Hw; [discriminate|].
  rewrite downF_cons in Hz, Hw. rewrite distF_cons.
  assert (S' : sep z w r) by (intros c Hc; apply S; right; assumption).
  destruct (downT z k) eqn:Ez, (downT w k) eqn:Ew.
  - exfalso. apply (S k (or_introl eq_refl)). split; eapply downT_in; eauto.
  - inversion Hz; subst. rewrite Hw. reflexivity.
  - inversion Hw; subst. rewrite Hz. cbn [oadd option_map]. f_equal. lia.
  - apply IH; assumption.
Qed.

Lemma dist_some_down a b t d : dist a b t = Some d -> down a t <> None /\ down b t <> None.
Proof.
  intros H. split; intro E.
  - rewrite (dist_none_l a b t E) in H. discriminate.
  - rewrite (dist_none_r a b t E) in H. discriminate.
Qed.

Lemma mrca_dist z w M dz dw : forall t,
  In M (preorder t) -> NoDup (leaf_taxa t) ->
  downF z (t_kids M) = Some dz -> downF w (t_kids M) = Some dw -> sep z w (t_kids M) ->
  dist z w t = Some (dz + dw).
Proof.
  induction t as [i x l e ks IH] using tree_ind'. intros HM ND Hz Hw S.
  rewrite preorder_below in HM. destruct HM as [HM|HM].
  - subst M. cbn [t_kids] in *. assert (Hn : ks <> []) by (intro; subst; discriminate).
    rewrite dist_node by assumption. apply distF_sep; assumption.
  - unfold below in HM. cbn [t_kids] in HM. apply in_flat_map in HM. destruct HM as [k [Hk HMk]].
    assert (Hn : ks <> []) by (intro; subst; contradiction).
    rewrite leaf_taxa_node in ND by assumption. rewrite dist_node by assumption.
    apply in_split in Hk. destruct Hk as [A [B Hks]]. subst ks.
    rewrite Forall_forall in IH.
    assert (Dk : dist z w k = Some (dz + dw)).
    { apply IH; try assumption; [apply in_or_app; right; left; reflexivity | eapply nodup_ltF_elem; eauto]. }
    destruct (dist_some_down _ _ _ _ Dk) as [Z1 W1].
    assert (ZA : downF z A = None).
    { apply downF_none. intro Hin. rewrite flat_map_app in ND.
      destruct (down z k) eqn:E; [|congruence]. apply down_in in E.
      eapply (nodup_app_disj _ _ z ND); [exact Hin | cbn [flat_map]; apply in_or_app; left; assumption]. }
    assert (WA : downF w A = None).
    { apply downF_none. intro Hin. rewrite flat_map_app in ND.
      destruct (down w k) eqn:E; [|congruence]. apply down_in in E.
      eapply (nodup_app_disj _ _ w ND); [exact Hin | cbn [flat_map]; apply in_or_app; left; assumption]. }
    rewrite distF_app, ZA, WA, distF_cons.
    destruct (downT z k) eqn:E1; [|apply downT_none_down in E1; contradiction].
    destruct (downT w k) eqn:E2; [|apply downT_none_down in E2; contradiction].
    assumption.
Qed.

(* ---------- the walk ---------- *)
Lemma walk_spec top : forall chain p h, walk top p chain = Ok h ->
  match h with
  | HitNode n => exists pre i e post, chain = pre ++ (i, Some e) :: post /\ sum_len0 pre + e = p
                   /\ n = match post with (q, _) :: _ => q | [] => top end
  | HitEdge hd hl tl => exists pre e post, chain = pre ++ (hd, Some e) :: post
                   /\ sum_len0 pre + hl = p /\ hl + tl = e
  end.
Proof.
  induction chain as [|[i oe] rest IH]; intros p h H; [discriminate|].
  simpl in H. destruct oe as [e|]; [|discriminate].
  destruct (p <? e) eqn:E1.
  - inversion H; subst. exists [], e, rest. split; [reflexivity|]. unfold sum_len0. simpl. split; lia.
  - destruct (e <? p) eqn:E2.
    + specialize (IH _ _ H). destruct h as [n|hd hl tl].
      * destruct IH as [pre [i' [e' [post [A [B C]]]]]]. exists ((i, Some e) :: pre), i', e', post.
        split; [rewrite A; reflexivity|]. split; [|assumption]. unfold sum_len0 in *. simpl. lia.
      * destruct IH as [pre [e' [post [A [B C]]]]]. exists ((i, Some e) :: pre), e', post.
        split; [rewrite A; reflexivity|]. split; [|assumption]. unfold sum_len0 in *. simpl. lia.
    + inversion H; subst. exists [], i, e, rest. split; [reflexivity|]. split; [|reflexivity].
      apply Z.ltb_ge in E1, E2. unfold sum_len0. simpl. lia.
Qed.

(* ---------- the node put on an edge is found again ---------- *)
Lemma split_edge_finds h fresh l1 l2 : forall t t1 H,
  split_edge h fresh l1 l2 t = Some t1 -> ~ In fresh (ids t) ->
  first_some (find_node h) (t_kids t) = Some H ->
  find_node fresh t1 = Some (T fresh None None l1 [set_len l2 H]) /\ t_id t1 = t_id t /\ t_len t1 = t_len t.
Proof.
  induction t as [i x l e ks IH] using tree_ind'. intros t1 H Hs Hf HH. simpl in Hs. cbn [t_kids] in HH.
  match type of Hs with option_map _ ?F = Some _ => destruct F as [ks2|] eqn:EF; [|discriminate] end.
  cbn [option_map] in Hs. inversion Hs; subst t1. clear Hs. split; [|split; reflexivity].
  assert (AG : forall k, In k ks -> forall pre post,
     (if t_id k =? h then Some (pre ++ post ++ [T fresh None None l1 [set_len l2 k]])
      else option_map (fun k' => pre ++ k' :: post) (split_edge h fresh l1 l2 k)) = None <-> find_node h k = None).
  { intros k Hk pre post. rewrite find_node_eq.
    destruct (t_id k =? h); [split; discriminate|].
    rewrite <- (split_none_iff h fresh l1 l2 k).
    destruct (split_edge h fresh l1 l2 k); simpl; split; intros; congruence. }
  destruct (first_ctx_agree _ (find_node h) ks AG _ _ EF) as [A [k [B [Hks [EF' Hg]]]]].
  cbn [app] in EF'. rewrite Hg in HH.
  assert (Hi : i <> fresh) by (intro; subst; apply Hf; left; reflexivity).
  assert (Hsub : forall c, In c ks -> ~ In fresh (ids c)).
  { intros c Hc Hin. apply Hf. unfold ids in *. rewrite preorder_node. cbn [map]. right.
    apply in_map_iff in Hin. destruct Hin as [y [Hy1 Hy2]]. apply in_map_iff. exists y. split; [assumption|].
    apply in_flat_map. exists c. split; assumption. }
  assert (HA : first_some (find_node fresh) A = None).
  { apply first_some_none. rewrite Forall_forall. intros c Hc. apply find_node_none. apply Hsub. rewrite Hks. apply in_or_app. left; assumption. }
  assert (HB : first_some (find_node fresh) B = None).
  { apply first_some_none. rewrite Forall_forall. intros c Hc. apply find_node_none. apply Hsub. rewrite Hks. apply in_or_app. right; right; assumption. }
  rewrite find_node_eq. cbn [t_id t_kids].
  replace (i =? fresh) with false by (symmetry; apply Z.eqb_neq; assumption).
  rewrite find_node_eq in HH.
  destruct (t_id k =? h).
  - inversion EF'; subst ks2. inversion HH; subst H.
    rewrite !first_some_app, HA, HB. simpl. rewrite Z.eqb_refl. reflexivity.
  - destruct (split_edge h fresh l1 l2 k) as [k'|] eqn:Ek; [|discriminate]. cbn [option_map] in EF'.
    inversion EF'; subst ks2. rewrite Forall_forall in IH.
    assert (Hkin : In k ks) by (rewrite Hks; apply in_or_app; right; left; reflexivity).
    destruct (IH k Hkin k' H Ek (Hsub k Hkin) HH) as [HX _].
    rewrite first_some_app, HA, first_some_cons, HX. reflexivity.
Qed.

(* ---------- suppress_unifurcations at a root with at least two children ---------- *)
Lemma suppress_two t :
  two_kids t -> suppress t = T (t_id t) (t_taxon t) (t_label t) (t_len t) (map suppress (t_kids t)).
Proof.
  destruct t as [i x l e ks]. unfold two_kids. cbn [t_kids t_id t_taxon t_label t_len].
  destruct ks as [|k1 [|k2 r]]; cbn [length]; intros H; try lia. reflexivity.
Qed.

Lemma forall2_suppress ks : Forall2 equivT ks (map suppress ks).
Proof. apply forall_forall2_map. rewrite Forall_forall. intros k _. apply suppress_equivT. Qed.

Lemma two_kids_nonnil t : two_kids t -> t_kids t <> [].
Proof. unfold two_kids. destruct (t_kids t); cbn [length]; [lia | discriminate]. Qed.

Lemma down_kids z t : t_kids t <> [] -> down z t = downF z (t_kids t).
Proof. destruct t as [i x l e ks]. cbn [t_kids]. apply down_node. Qed.

Lemma dist_kids a b t : t_kids t <> [] -> dist a b t = distF a b (t_kids t).
Proof. destruct t as [i x l e ks]. cbn [t_kids]. apply dist_node. Qed.

Lemma leaf_taxa_kids t : t_kids t <> [] -> leaf_taxa t = ltF (t_kids t).
Proof. destruct t as [i x l e ks]. cbn [t_kids]. apply leaf_taxa_node. Qed.

Lemma post_tail z w p t1 r supp t' r' :
  two_kids t1 -> down z t1 = Some p -> sep z w (t_kids t1) ->
  post_reseed t1 r false supp = (t', r') ->
  two_kids t' /\ down z t' = Some p /\ sep z w (t_kids t').
Proof.
  intros TK Hd HS H. unfold post_reseed in H. cbn [andb] in H. inversion H; subst. clear H.
  destruct supp; [|auto].
  rewrite (suppress_two _ TK). cbn [t_kids]. split; [|split].
  - unfold two_kids in *. cbn [t_kids]. rewrite map_length. assumption.
  - assert (Hn := two_kids_nonnil _ TK).
    rewrite down_node by (destruct (t_kids t1); [congruence | discriminate]).
    rewrite <- (forall2_downF z _ _ (forall2_suppress (t_kids t1))). rewrite <- down_kids by assumption. assumption.
  - intros k' Hk'. apply in_map_iff in Hk'. destruct Hk' as [k [Hk Hin]]. subst k'.
    rewrite suppress_leaf_taxa. apply HS. assumption.
Qed.

Lemma sep_append z w ks P :
  sep z w ks -> NoDup (ltF (ks ++ [P])) -> In z (ltF ks) -> sep z w (ks ++ [P]).
Proof.
  intros HS ND Hz k Hk. apply in_app_or in Hk. destruct Hk as [Hk|[Hk|[]]]; [apply HS; assumption|].
  subst k. intros [A _]. rewrite flat_map_app in ND. eapply (nodup_app_disj _ _ z ND); [assumption|].
  cbn [flat_map]. apply in_or_app. left. assumption.
Qed.

Lemma some_inj {A} (a b : A) : Some a = Some b -> a = b.
Proof. intros H; inversion H; reflexivity. Qed.

Lemma ok_inj {A} (a b : A) : Ok a = Ok b -> a = b.
Proof. intros H; inversion H; reflexivity. Qed.

(* ---------- re-seeding at an internal node Y: where z ends up ---------- *)
Lemma reseed_node_pos t r supp t' r' Y z w p :
  NoDup (ids t) -> NoDup (leaf_taxa t) -> two_kids t ->
  In Y (preorder t) -> t_kids Y <> [] -> down z Y = Some p -> sep z w (t_kids Y) ->
  reseed_at t r (t_id Y) false false supp = Ok (t', r') ->
  equivU t t' /\ two_kids t' /\ down z t' = Some p /\ sep z w (t_kids t').
Proof.
  intros NI ND TK HY HYk Hd HS H.
  assert (HF : find_node (t_id Y) t = Some Y) by (apply find_node_unique; auto).
  assert (EU : equivU t t').
  { eapply reseed_at_equivU; eauto. exists Y; split; assumption. }
  split; [assumption|].
  unfold reseed_at in H. apply bind_ok in H. destruct H as [t1 [H1 Hp]]. apply ok_inj in Hp. rename Hp into Hp'.
  destruct (t_id t =? t_id Y) eqn:E.
  - inversion H1; subst t1. rewrite find_node_eq, E in HF. inversion HF; subst Y.
    eapply post_tail; eauto.
  - rewrite HF in H1. destruct (rot (t_len t) (t_id Y) t []) as [t2|] eqn:ER; [|discriminate].
    assert (HL : is_leaf Y = false) by (unfold is_leaf; destruct (t_kids Y); [congruence | reflexivity]).
    rewrite HL in H1. cbn [andb] in H1. inversion H1; subst t1.
    destruct (reseed_rot_equivU t _ t2 Y ER HF HYk (or_intror TK) ND) as [E1 _].
    destruct (rot_shape _ _ _ _ _ _ ER HF) as [up [Hs [_ U2]]].
    destruct U2 as [P [HP _]]; [apply Z.eqb_neq; assumption|]. subst up.
    assert (ND2 := equivU_nodup _ _ E1 ND).
    assert (Hn : t_kids Y ++ [P] <> []) by (destruct (t_kids Y); discriminate).
    rewrite Hs in ND2. rewrite leaf_taxa_node in ND2 by assumption.
    assert (Hzin : In z (ltF (t_kids Y))).
    { rewrite down_kids in Hd by assumption. eapply downF_in; eauto. }
    eapply post_tail; [| | |exact Hp']; rewrite Hs.
    + unfold two_kids. cbn [t_kids]. rewrite app_length. cbn [length]. destruct (t_kids Y); [congruence | cbn [length]; lia].
    + rewrite down_node by assumption. rewrite downF_app. rewrite <- down_kids by assumption. rewrite Hd. reflexivity.
    + cbn [t_kids]. apply sep_append; assumption.
Qed.

(* ---------- putting a node on the edge above Y and re-seeding there ---------- *)
Lemma reseed_edge_pos t r supp fresh t1 t' r' Y z w e hl tl d :
  NoDup (ids t) -> NoDup (leaf_taxa t) -> two_kids t -> ~ In fresh (ids t) ->
  In Y (below t) -> t_len Y = Some e -> hl + tl = e -> down z Y = Some d -> ~ In w (leaf_taxa Y) ->
  split_edge (t_id Y) fresh (Some tl) (Some hl) t = Some t1 ->
  reseed_at t1 r fresh false false supp = Ok (t', r') ->
  equivU t t' /\ two_kids t' /\ down z t' = Some (hl + d) /\ sep z w (t_kids t').
Proof.
  intros NI ND TK FR HY HYl Hsum Hd Hw Hs H.
  assert (HYp : In Y (preorder t)) by (rewrite preorder_below; right; assumption).
  assert (HF : find_node (t_id Y) t = Some Y) by (apply find_node_unique; auto).
  assert (Hne : t_id Y <> t_id t) by (apply below_id; assumption).
  assert (HF' : first_some (find_node (t_id Y)) (t_kids t) = Some Y).
  { rewrite find_node_eq in HF. replace (t_id t =? t_id Y) with false in HF; [assumption|].
    symmetry. apply Z.eqb_neq. congruence. }
  assert (E1 : equivT t t1).
  { eapply split_edge_equivT; eauto. intros X HX. rewrite HF' in HX. inversion HX; subst X.
    rewrite HYl. cbn [len0]. lia. }
  destruct (split_edge_finds _ _ _ _ _ _ _ Hs FR HF') as [HN [Hid Hlen]].
  destruct (split_edge_fresh _ _ _ _ _ _ Hs FR) as [HI HK].
  assert (TK1 : two_kids t1) by (unfold two_kids in *; rewrite HK; assumption).
  assert (ND1 : NoDup (leaf_taxa t1)) by (eapply equivU_nodup; [apply equivT_U; exact E1 | assumption]).
  assert (EU : equivU t t').
  { eapply equivU_trans; [apply equivT_U; exact E1|].
    eapply reseed_at_equivU; eauto. }
  split; [assumption|].
  assert (Hfr : t_id t1 <> fresh).
  { rewrite Hid. intro C. apply FR. unfold ids. rewrite preorder_below. left. assumption. }
  unfold reseed_at in H. apply bind_ok in H. destruct H as [t2 [H1 Hp]]. apply ok_inj in Hp. rename Hp into Hp'.
  replace (t_id t1 =? fresh) with false in H1 by (symmetry; apply Z.eqb_neq; assumption).
  rewrite HN in H1. destruct (rot (t_len t1) fresh t1 []) as [t3|] eqn:ER; [|discriminate].
  cbn [is_leaf t_kids andb] in H1. inversion H1; subst t2.
  destruct (reseed_rot_equivU t1 _ t3 _ ER HN ltac:(discriminate) (or_intror TK1) ND1) as [E2 _].
  destruct (rot_shape _ _ _ _ _ _ ER HN) as [up [Hsh [_ U2]]].
  destruct U2 as [P [HP _]]; [assumption|]. subst up. cbn [t_id t_taxon t_label t_kids] in Hsh.
  assert (ND3 := equivU_nodup _ _ E2 ND1). rewrite Hsh in ND3.
  rewrite leaf_taxa_node in ND3 by discriminate.
  assert (Hzin : In z (ltF [set_len (Some hl) Y])).
  { cbn [flat_map]. rewrite app_nil_r, set_len_leaf_taxa. eapply down_in; eauto. }
  eapply post_tail; [| | |exact Hp']; rewrite Hsh.
  - unfold two_kids. cbn. lia.
  - rewrite down_node by discriminate. cbn [app]. rewrite downF_cons, set_len_downT, Hd. reflexivity.
  - cbn [t_kids]. apply sep_append; try assumption.
    intros k [Hk|[]]. subst k. rewrite set_len_leaf_taxa. intros [_ C]. contradiction.
Qed.

(* ---------- the walk towards the midpoint, and re-seeding where it stops ---------- *)
Lemma chain_downF z M cz :
  first_some (up_chain z) (t_kids M) = Some cz ->
  exists kz, In kz (t_kids M) /\ up_chain z kz = Some cz /\ downF z (t_kids M) = Some (sum_len0 cz)
             /\ downT z kz = Some (sum_len0 cz).
Proof.
  intros H.
  assert (AG : forall c, In c (t_kids M) -> (up_chain z c = None <-> downT z c = None)).
  { intros c Hc. rewrite up_chain_none_iff. symmetry. apply downT_none_down. }
  destruct (first_some_agree (up_chain z) (downT z) (t_kids M) AG cz H) as [kz [Hk [Hf Hg]]].
  exists kz. split; [assumption|]. split; [assumption|].
  destruct (up_chain_down z kz cz Hf) as [c' [Hc' Hd]].
  assert (E : downT z kz = Some (sum_len0 cz)).
  { unfold downT. rewrite Hd, Hc', sum_len0_app, sum_len0_one. cbn [oadd option_map]. f_equal. lia. }
  split; [|assumption]. unfold downF. rewrite Hg. assumption.
Qed.

Lemma mid_hit_pos t r supp fresh M z w cz p h t' r' :
  NoDup (ids t) -> NoDup (leaf_taxa t) -> two_kids t -> ~ In fresh (ids t) ->
  In M (preorder t) -> first_some (up_chain z) (t_kids M) = Some cz -> sep z w (t_kids M) ->
  walk (t_id M) p cz = Ok h ->
  match h with
  | HitNode n => reseed_at t r n false false supp
  | HitEdge hd hl tl => match split_edge hd fresh (Some tl) (Some hl) t with
                        | Some t1 => reseed_at t1 r fresh false false supp
                        | None => Err LookupErr
                        end
  end = Ok (t', r') ->
  equivU t t' /\ two_kids t' /\ down z t' = Some p /\ sep z w (t_kids t').
Proof.
  intros NI ND TK FR HM Hz HS HW H.
  destruct (chain_downF z M cz Hz) as [kz [Hkz [Hcz [HdF HdT]]]].
  assert (Hzk : In z (leaf_taxa kz)) by (eapply up_chain_in; eauto).
  assert (Hwk : ~ In w (leaf_taxa kz)) by (intro C; apply (HS kz Hkz); split; assumption).
  assert (Hsub : forall Y, In Y (preorder kz) -> ~ In w (leaf_taxa Y)).
  { intros Y HY C. apply Hwk. eapply leaf_taxa_sub; eauto. }
  assert (Hkzt : forall Y, In Y (preorder kz) -> In Y (below t)).
  { intros Y HY. eapply below_trans; [eapply kid_below; eauto | assumption]. }
  apply walk_spec in HW. destruct h as [n|hd hl tl].
  - destruct HW as [pre [i [e [post [Hc [Hsum Hn]]]]]].
    destruct post as [|[q qe] post'].
    + (* the midpoint is the mrca itself *)
      subst n. destruct (up_chain_down z kz cz Hcz) as [c' [Hc' Hd]].
      assert (HMk : t_kids M <> []) by (intro C; rewrite C in Hkz; contradiction).
      apply (reseed_node_pos t r supp t' r' M z w p); try assumption.
      rewrite down_kids by assumption. rewrite HdF, Hc, sum_len0_app, sum_len0_one. cbn [len0]. f_equal. lia.
    + subst n.
      assert (Hc2 : cz = (pre ++ [(i, Some e)]) ++ (q, qe) :: post') by (rewrite Hc, <- app_assoc; reflexivity).
      destruct (up_chain_nodes z kz cz Hcz _ _ _ _ Hc2) as [Y [Y1 [Y2 [Y3 [Y4 [Y5 _]]]]]].
      rewrite <- Y2 in H.
      apply (reseed_node_pos t r supp t' r' Y z w p); try assumption.
      * rewrite preorder_below. right. apply Hkzt. assumption.
      * apply Y5. destruct pre; discriminate.
      * rewrite Y4, sum_len0_app, sum_len0_one. cbn [len0]. f_equal. lia.
      * intros k Hk [_ C]. apply (Hsub k); [|assumption].
        eapply preorder_trans; [|exact Y1]. rewrite preorder_below. right. eapply kid_below; [exact Hk | apply in_preorder_self].
  - destruct HW as [pre [e [post [Hc [Hsum Hlen]]]]].
    destruct (up_chain_nodes z kz cz Hcz _ _ _ _ Hc) as [Y [Y1 [Y2 [Y3 [Y4 _]]]]].
    destruct (split_edge hd fresh (Some tl) (Some hl) t) as [t1|] eqn:ES; [|discriminate].
    rewrite <- Y2 in ES.
    destruct (reseed_edge_pos t r supp fresh t1 t' r' Y z w e hl tl (sum_len0 pre)) as [A [B [C D]]]; try assumption.
    + apply Hkzt. assumption.
    + apply Hsub. assumption.
    + split; [assumption|]. split; [assumption|]. split; [|assumption]. rewrite C. f_equal. lia.
Qed.

Lemma mid_pair t r supp fresh M z w cz cw p h t' r' :
  NoDup (ids t) -> NoDup (leaf_taxa t) -> two_kids t -> ~ In fresh (ids t) ->
  In M (preorder t) ->
  first_some (up_chain z) (t_kids M) = Some cz -> first_some (up_chain w) (t_kids M) = Some cw ->
  sep z w (t_kids M) ->
  walk (t_id M) p cz = Ok h ->
  match h with
  | HitNode n => reseed_at t r n false false supp
  | HitEdge hd hl tl => match split_edge hd fresh (Some tl) (Some hl) t with
                        | Some t1 => reseed_at t1 r fresh false false supp
                        | None => Err LookupErr
                        end
  end = Ok (t', r') ->
  equivU t t' /\ dist z w t = Some (sum_len0 cz + sum_len0 cw)
  /\ down z t' = Some p /\ down w t' = Some (sum_len0 cz + sum_len0 cw - p).
Proof.
  intros NI ND TK FR HM Hz Hw HS HW H.
  destruct (mid_hit_pos _ _ _ _ _ _ _ _ _ _ _ _ NI ND TK FR HM Hz HS HW H) as [EU [TK' [Dz S']]].
  destruct (chain_downF z M cz Hz) as [_ [_ [_ [HzF _]]]].
  destruct (chain_downF w M cw Hw) as [_ [_ [_ [HwF _]]]].
  assert (DD : dist z w t = Some (sum_len0 cz + sum_len0 cw)) by (eapply mrca_dist; eauto).
  split; [assumption|]. split; [assumption|]. split; [assumption|].
  assert (DD' : dist z w t' = Some (sum_len0 cz + sum_len0 cw)) by (rewrite <- (eu_dist _ _ EU); assumption).
  destruct (dist_some_down _ _ _ _ DD') as [_ Wn].
  destruct (down w t') as [dw|] eqn:Ew; [|congruence].
  assert (Hn := two_kids_nonnil _ TK').
  rewrite dist_kids in DD' by assumption. rewrite down_kids in Dz, Ew by assumption.
  rewrite (distF_sep z w _ S' _ _ Dz Ew) in DD'. inversion DD'. f_equal. lia.
Qed.

Lemma dist_sym a b : forall t, dist a b t = dist b a t.
Proof.
  induction t as [i x l e ks IH] using tree_ind'. destruct ks as [|k r].
  - simpl. rewrite andb_comm. reflexivity.
  - rewrite !dist_node by discriminate. induction IH as [|c cs Hc _ IHcs]; [reflexivity|].
    rewrite !distF_cons, Hc, IHcs. destruct (downT a c), (downT b c); reflexivity.
Qed.

Lemma post_reseed_rooted x coll : post_reseed x (Some true) coll false = (x, Some true).
Proof. unfold post_reseed. cbn [not_rooted]. rewrite andb_false_r. reflexivity. Qed.

Lemma midpoint_core_spec t r a b upd supp coll fresh t' r' :
  midpoint_core t r (Some (a, b)) upd supp coll fresh = Ok (t', r') ->
  NoDup (ids t) -> NoDup (leaf_taxa t) -> two_kids t -> ~ In fresh (ids t) -> a <> b ->
  equivU t t' /\ exists D, dist a b t = Some D /\
     forall q, D = 2 * q -> down a t' = Some q /\ down b t' = Some q.
Proof.
  unfold midpoint_core. intros H NI ND TK FR Hab.
  destruct (negb (is_leaf t) && existsb is_none (leaf_taxa t)); [discriminate|].
  assert (G : forall s0 s1, s0 <> s1 ->
    match up_chain s0 t, up_chain s1 t, mrca_chains s0 s1 t with
    | Some f0, Some f1, Some (m, c0, c1) =>
      do d0 <- dfr f0;;
      do d1 <- dfr f1;;
      let chain := if d0 <? d1 then c1 else c0 in
      let D := sum_len0 c0 + sum_len0 c1 in
      do h <- walk m (D / 2) chain;;
      do tr <- match h with
               | HitNode n => reseed_at t r n false false supp
               | HitEdge hd hl tl =>
                 match split_edge hd fresh (Some tl) (Some hl) t with
                 | Some t' => reseed_at t' r fresh false false supp
                 | None => Err LookupErr
                 end
               end;;
      Ok (if upd then (fst (post_reseed (fst tr) (Some true) coll false), Some true)
          else (fst tr, Some true))
    | _, _, _ => Err LookupErr
    end = Ok (t', r') ->
    equivU t t' /\ exists D, dist s0 s1 t = Some D /\
       forall q, D = 2 * q -> down s0 t' = Some q /\ down s1 t' = Some q).
  { clear H. intros s0 s1 Hs H.
    destruct (up_chain s0 t) as [f0|]; [|discriminate].
    destruct (up_chain s1 t) as [f1|]; [|discriminate].
    destruct (mrca_chains s0 s1 t) as [[[m c0] c1]|] eqn:EM; [|discriminate].
    apply bind_ok in H. destruct H as [d0 [_ H]].
    apply bind_ok in H. destruct H as [d1 [_ H]].
    cbv zeta in H.
    apply bind_ok in H. destruct H as [h [HW H]].
    apply bind_ok in H. destruct H as [[t1 r1] [HT H]].
    assert (Ht' : t' = t1).
    { destruct upd; cbn [fst] in H; [rewrite post_reseed_rooted in H|]; inversion H; reflexivity. }
    subst t1.
    destruct (mrca_chains_node _ _ _ _ _ _ EM) as [M [M1 [M2 [M3 [M4 M5]]]]]. subst m.
    assert (S01 := mrca_sep s0 s1 M Hs M3).
    destruct (d0 <? d1).
    - destruct (mid_pair t r supp fresh M s1 s0 c1 c0 _ h t' r1 NI ND TK FR M1 M5 M4 (sep_sym _ _ _ S01) HW HT)
        as [EU [DD [D1 D0]]].
      split; [assumption|]. exists (sum_len0 c0 + sum_len0 c1). split; [rewrite dist_sym, DD; f_equal; lia|].
      intros q Hq. rewrite Hq in *. replace (2 * q / 2) with q in * by (symmetry; rewrite Z.mul_comm; apply Z.div_mul; lia).
      split; [rewrite D0; f_equal; lia | assumption].
    - destruct (mid_pair t r supp fresh M s0 s1 c0 c1 _ h t' r1 NI ND TK FR M1 M4 M5 S01 HW HT)
        as [EU [DD [D0 D1]]].
      split; [assumption|]. exists (sum_len0 c0 + sum_len0 c1). split; [assumption|].
      intros q Hq. rewrite Hq in *. replace (2 * q / 2) with q in * by (symmetry; rewrite Z.mul_comm; apply Z.div_mul; lia).
      split; [assumption | rewrite D1; f_equal; lia]. }
  destruct (comes_first a b (leaf_taxa t)).
  - apply G; assumption.
  - destruct (G b a (fun C => Hab (eq_sym C)) H) as [EU [D [DD HD]]].
    split; [assumption|]. exists D. split; [rewrite dist_sym; assumption|].
    intros q Hq. destruct (HD q Hq). split; assumption.
Qed.

(* ---------- doubling all lengths ---------- *)
Lemma dbl_node i x l e ks : dbl (T i x l e ks) = T i x l (option_map (Z.mul 2) e) (map dbl ks).
Proof. reflexivity. Qed.

Lemma len0_dbl e : len0 (option_map (Z.mul 2) e) = 2 * len0 e.
Proof. destruct e; simpl; lia. Qed.

Lemma flat_map_map_ext {A B} (f g : A -> list B) (h : A -> A) l :
  Forall (fun k => f (h k) = g k) l -> flat_map f (map h l) = flat_map g l.
Proof. induction 1 as [|c cs Hc _ IH]; [reflexivity|]. cbn [map flat_map]. rewrite Hc, IH. reflexivity. Qed.

Lemma ids_node i x l e ks : ids (T i x l e ks) = i :: flat_map ids ks.
Proof.
  unfold ids. rewrite preorder_node. cbn [map t_id]. f_equal.
  induction ks as [|k r IH]; [reflexivity|]. cbn [flat_map]. rewrite map_app, IH. reflexivity.
Qed.

Lemma dbl_leaf_taxa : forall t, leaf_taxa (dbl t) = leaf_taxa t.
Proof.
  induction t as [i x l e ks IH] using tree_ind'. rewrite dbl_node. destruct ks as [|k r]; [reflexivity|].
  rewrite !leaf_taxa_node by discriminate. apply flat_map_map_ext. assumption.
Qed.

Lemma dbl_ids : forall t, ids (dbl t) = ids t.
Proof.
  induction t as [i x l e ks IH] using tree_ind'. rewrite dbl_node, !ids_node. f_equal.
  apply flat_map_map_ext. assumption.
Qed.

Lemma dbl_clades : forall t, clades (dbl t) = clades t.
Proof.
  induction t as [i x l e ks IH] using tree_ind'.
  rewrite clades_node, <- (dbl_leaf_taxa (T i x l e ks)), dbl_node, clades_node. f_equal.
  apply flat_map_map_ext. assumption.
Qed.

Lemma dbl_total : forall t, total_length (dbl t) = 2 * total_length t.
Proof.
  induction t as [i x l e ks IH] using tree_ind'. rewrite dbl_node, !total_node, len0_dbl, map_map.
  assert (E : zsum (map (fun k => total_length (dbl k)) ks) = 2 * zsum (map total_length ks)).
  { induction IH as [|c cs Hc _ IHc]; [reflexivity|]. cbn [map]. rewrite !zsum_cons, Hc, IHc. lia. }
  rewrite E. lia.
Qed.

Definition odbl (o : option Z) : option Z := option_map (Z.mul 2) o.

Lemma dbl_down a : forall t, down a (dbl t) = odbl (down a t).
Proof.
  induction t as [i x l e ks IH] using tree_ind'. rewrite dbl_node. destruct ks as [|k r].
  - simpl. destruct (oz_eqb x a); reflexivity.
  - rewrite !down_node by discriminate. unfold downF.
    induction IH as [|c cs Hc _ IHc]; [reflexivity|]. cbn [map]. rewrite !first_some_cons.
    assert (E : downT a (dbl c) = odbl (downT a c)).
    { unfold downT. rewrite Hc. destruct c as [i' x' l' e' ks']. rewrite dbl_node. cbn [t_len]. rewrite len0_dbl.
      destruct (down a (T i' x' l' e' ks')); cbn [oadd odbl option_map]; [f_equal; lia | reflexivity]. }
    rewrite E. destruct (downT a c); [reflexivity | apply IHc].
Qed.

Lemma dbl_downT a c : downT a (dbl c) = odbl (downT a c).
Proof.
  unfold downT. rewrite dbl_down. destruct c as [i' x' l' e' ks']. rewrite dbl_node. cbn [t_len]. rewrite len0_dbl.
  destruct (down a (T i' x' l' e' ks')); cbn [oadd odbl option_map]; [f_equal; lia | reflexivity].
Qed.

Lemma dbl_downF a ks : downF a (map dbl ks) = odbl (downF a ks).
Proof.
  induction ks as [|c cs IH]; [reflexivity|]. cbn [map]. rewrite !downF_cons, dbl_downT.
  destruct (downT a c); [reflexivity | apply IH].
Qed.

Lemma dbl_dist a b : forall t, dist a b (dbl t) = odbl (dist a b t).
Proof.
  induction t as [i x l e ks IH] using tree_ind'. rewrite dbl_node. destruct ks as [|k r].
  - simpl. destruct (oz_eqb x a && oz_eqb x b); reflexivity.
  - rewrite !dist_node by discriminate.
    induction IH as [|c cs Hc _ IHc]; [reflexivity|]. cbn [map]. rewrite !distF_cons, !dbl_downT, !dbl_downF, Hc, IHc.
    destruct (downT a c), (downT b c); cbn [odbl option_map]; try reflexivity.
    + destruct (downF b cs); cbn [oadd odbl option_map]; [f_equal; lia | reflexivity].
    + destruct (downF a cs); cbn [oadd odbl option_map]; [f_equal; lia | reflexivity].
Qed.

Lemma dbl_two_kids t : two_kids t -> two_kids (dbl t).
Proof. destruct t as [i x l e ks]. unfold two_kids. rewrite dbl_node. cbn [t_kids]. rewrite map_length. auto. Qed.

Lemma dbl_usplit t S : is_usplit (dbl t) S <-> is_usplit t S.
Proof. unfold is_usplit. rewrite dbl_clades, dbl_leaf_taxa. reflexivity. Qed.

(* reroot_at_midpoint: the result (in half units) is the same unrooted tree, and the chosen pair is
   equidistant from the new root *)
Lemma reroot_at_midpoint_spec t r a b upd supp coll fresh t' r' :
  reroot_at_midpoint t r (Some (a, b)) upd supp coll fresh = Ok (t', r') ->
  NoDup (ids t) -> NoDup (leaf_taxa t) -> two_kids t -> ~ In fresh (ids t) -> a <> b ->
  (Permutation (leaf_taxa t) (leaf_taxa t')
   /\ (forall S, is_usplit t S <-> is_usplit t' S)
   /\ total_length t' = 2 * total_length t
   /\ (forall x y, dist x y t' = option_map (Z.mul 2) (dist x y t)))
  /\ exists D, dist a b t = Some D /\ down a t' = Some D /\ down b t' = Some D.
Proof.
  unfold reroot_at_midpoint. intros H NI ND TK FR Hab.
  rewrite <- dbl_ids in NI, FR. rewrite <- dbl_leaf_taxa in ND. apply dbl_two_kids in TK.
  destruct (midpoint_core_spec _ _ _ _ _ _ _ _ _ _ H NI ND TK FR Hab) as [EU [D [DD HD]]].
  destruct (equivU_unfold _ _ EU) as [A [B [C E]]].
  split.
  - rewrite dbl_leaf_taxa in A. split; [assumption|]. split; [intro S; rewrite <- B; symmetry; apply dbl_usplit|].
    split; [rewrite C; apply dbl_total|]. intros x y. rewrite E. apply dbl_dist.
  - rewrite dbl_dist in DD. destruct (dist a b t) as [d|] eqn:Ed; [|discriminate]. cbn [odbl option_map] in DD. apply some_inj in DD.
    exists d. split; [reflexivity|]. apply HD. symmetry. exact DD.
Qed.

(* ---------- reroot_at_edge: where the new root is ---------- *)
Definition Rk (a b : tree) : Prop := equivT a b /\ leaf_taxa a = leaf_taxa b.

Lemma Rk_refl a : Rk a a.
Proof. split; [apply equivT_refl | reflexivity]. Qed.
Lemma Rk_trans a b c : Rk a b -> Rk b c -> Rk a c.
Proof. intros [A1 A2] [B1 B2]. split; [eapply equivT_trans; eauto | congruence]. Qed.
Lemma Rk_suppress a : Rk a (suppress a).
Proof. split; [apply suppress_equivT | symmetry; apply suppress_leaf_taxa]. Qed.

Lemma forall2_trans {A} (R : A -> A -> Prop) :
  (forall a b c, R a b -> R b c -> R a c) ->
  forall l1 l2 l3, Forall2 R l1 l2 -> Forall2 R l2 l3 -> Forall2 R l1 l3.
Proof.
  intros HT l1 l2 l3 H12. revert l3. induction H12; intros l3 H23; inversion H23; subst; constructor; eauto.
Qed.

Lemma post_shape t1 r coll supp t' r' :
  two_kids t1 -> coll && not_rooted r = false -> post_reseed t1 r coll supp = (t', r') ->
  t_id t' = t_id t1 /\ Forall2 Rk (t_kids t1) (t_kids t') /\ two_kids t'.
Proof.
  intros TK HC H. unfold post_reseed in H. rewrite HC in H. inversion H; subst. clear H.
  destruct supp.
  - rewrite (suppress_two _ TK). cbn [t_id t_kids]. split; [reflexivity|]. split.
    + apply forall_forall2_map. rewrite Forall_forall. intros k _. apply Rk_suppress.
    + unfold two_kids in *. cbn [t_kids]. rewrite map_length. assumption.
  - split; [reflexivity|]. split; [apply forall2_refl; apply Rk_refl | assumption].
Qed.

Lemma reroot_at_edge_pos t r h l1 l2 upd supp fresh t' r' H :
  reroot_at_edge t r h l1 l2 upd supp fresh = Ok (t', r') ->
  find_node h t = Some H -> ~ In fresh (ids t) -> two_kids t -> NoDup (leaf_taxa t) ->
  len0 l1 + len0 l2 = len0 (t_len H) ->
  t_id t' = fresh /\ exists c1 c2, t_kids t' = [c1; c2]
    /\ leaf_taxa c1 = leaf_taxa H
    /\ (forall a, downT a c1 = oadd (len0 l2) (down a H))
    /\ (forall a b da D, down a H = Some da -> ~ In b (leaf_taxa H) -> dist a b t = Some D ->
          downT b c2 = Some (len0 l1 + (D - da - len0 (t_len H)))).
Proof.
  intros HR HF FR TK ND HL.
  assert (EU : equivU t t').
  { eapply reroot_at_edge_equivU; eauto. intros X HX. rewrite HF in HX. inversion HX; subst. assumption. }
  unfold reroot_at_edge in HR. destruct (t_id t =? h) eqn:Eh; [discriminate|].
  destruct (split_edge h fresh l1 l2 t) as [t1|] eqn:ES; [|discriminate].
  rewrite find_node_eq, Eh in HF.
  destruct (split_edge_finds _ _ _ _ _ _ _ ES FR HF) as [HN [Hid Hlen]].
  destruct (split_edge_fresh _ _ _ _ _ _ ES FR) as [_ HK].
  assert (TK1 : two_kids t1) by (unfold two_kids in *; rewrite HK; assumption).
  assert (Hfr : t_id t1 <> fresh).
  { rewrite Hid. intro C. apply FR. unfold ids. rewrite preorder_below. left. assumption. }
  unfold reroot_at_node in HR. apply bind_ok in HR. destruct HR as [[t2 r2] [H1 H2]]. cbn [fst] in H2.
  unfold reseed_at in H1. apply bind_ok in H1. destruct H1 as [t3 [H1 Hp]]. apply ok_inj in Hp.
  replace (t_id t1 =? fresh) with false in H1 by (symmetry; apply Z.eqb_neq; assumption).
  rewrite HN in H1. destruct (rot (t_len t1) fresh t1 []) as [t4|] eqn:ER; [|discriminate].
  cbn [is_leaf t_kids andb] in H1. inversion H1; subst t3.
  destruct (rot_shape _ _ _ _ _ _ ER HN) as [up [Hsh [_ U2]]].
  destruct U2 as [P [HP _]]; [assumption|]. subst up. cbn [t_id t_taxon t_label t_kids app] in Hsh.
  assert (TK4 : two_kids t4) by (rewrite Hsh; unfold two_kids; cbn; lia).
  destruct (post_shape t4 r false supp t2 r2 TK4 eq_refl Hp) as [I2 [F2 TK2]].
  assert (S3 : t_id t' = t_id t2 /\ Forall2 Rk (t_kids t2) (t_kids t') /\ two_kids t').
  { destruct upd.
    - apply ok_inj in H2. apply (post_shape t2 (Some true) true supp t' r' TK2 eq_refl H2).
    - inversion H2; subst. split; [reflexivity|]. split; [apply forall2_refl; apply Rk_refl | assumption]. }
  destruct S3 as [I3 [F3 TK3]].
  assert (FF := forall2_trans Rk Rk_trans _ _ _ F2 F3).
  rewrite Hsh in FF, I2. cbn [t_kids t_id] in FF, I2.
  split; [congruence|].
  inversion FF as [|y1 c1 l1' l2' R1 FF1 E1 E2]. subst. inversion FF1 as [|y2 c2 l1'' l2'' R2 FF2 E3 E4]. subst.
  inversion FF2. subst.
  exists c1, c2. split; [reflexivity|].
  destruct R1 as [R1a R1b]. destruct R2 as [R2a R2b].
  assert (L1 : leaf_taxa c1 = leaf_taxa H) by (rewrite <- R1b; apply set_len_leaf_taxa).
  assert (D1 : forall a, downT a c1 = oadd (len0 l2) (down a H)).
  { intro a. rewrite <- (et_down _ _ R1a a). apply set_len_downT. }
  split; [assumption|]. split; [assumption|].
  intros a b da D Ha Hb HD.
  assert (HD' : dist a b t' = Some D) by (rewrite <- (eu_dist _ _ EU); assumption).
  assert (Hk : t_kids t' <> []) by (apply two_kids_nonnil; assumption).
  rewrite dist_kids in HD' by assumption.
  match goal with E : _ = t_kids t' |- _ => rewrite <- E in HD' end.
  rewrite distF_cons, D1, Ha in HD'. cbn [oadd option_map] in HD'.
  assert (Nb : downT b c1 = None) by (apply downT_none; rewrite L1; assumption).
  rewrite Nb, downF_cons, downF_nil in HD'.
  destruct (downT b c2) as [db|]; [|discriminate]. cbn [oadd option_map] in HD'.
  apply some_inj in HD'. f_equal. lia.
Qed.
