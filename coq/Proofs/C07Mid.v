(* C07 proofs, part 6: where the new root is.
     rot_shape            after the chain of inversions the new seed keeps its own children, in
                          order, followed by ONE more child: its old parent, carrying the length of
                          the inverted edge
     reroot_at_edge       position of the new root on the edge
     reroot_at_midpoint   preserves the unrooted tree; the chosen pair is equidistant from the root *)
From Coq Require Import ZArith List Bool Lia Permutation.
From DV Require Import Model.PyPrims Model.Tree Model.C07Model Model.C07Spec
     Proofs.C07Base Proofs.C07Equiv Proofs.C07Rot Proofs.C07Blocks Proofs.C07Ops.
Import ListNotations.
Open Scope Z_scope.

(* ---------- shape of the rotated tree ---------- *)
Lemma rot_shape n : forall t e0 above r X,
  rot e0 n t above = Some r -> find_node n t = Some X ->
  exists up, r = T (t_id X) (t_taxon X) (t_label X) e0 (t_kids X ++ up)
    /\ (t_id t = n -> up = above)
    /\ (t_id t <> n -> exists P, up = [P] /\ t_len P = t_len X).
Proof.
  induction t as [i x l e ks IH] using tree_ind'. intros e0 above r X Hr HX.
  simpl in Hr. rewrite find_node_eq in HX. cbn [t_id t_kids] in *.
  destruct (i =? n) eqn:Ei.
  - inversion Hr; inversion HX; subst. exists above. split; [reflexivity|]. split; [reflexivity|].
    intros C. exfalso. apply C. apply Z.eqb_eq. assumption.
  - rewrite Forall_forall in IH.
    destruct (first_ctx_agree _ (find_node n) ks (fun k Hk pre post => rot_none_iff n k _ _) _ _ Hr)
      as [A [k [B [Hks [Hrk Hfk]]]]].
    cbn [app] in Hrk. rewrite Hfk in HX.
    assert (Hkin : In k ks) by (rewrite Hks; apply in_or_app; right; left; reflexivity).
    destruct (IH k Hkin _ _ _ _ Hrk HX) as [up [Hr' [U1 U2]]].
    exists up. split; [assumption|]. split.
    + intros C. apply Z.eqb_neq in Ei. contradiction.
    + intros _. destruct (Z.eq_dec (t_id k) n) as [Ek|Ek].
      * rewrite (U1 Ek). eexists. split; [reflexivity|]. cbn [t_len].
        rewrite find_node_eq in HX. apply Z.eqb_eq in Ek. rewrite Ek in HX. inversion HX. reflexivity.
      * apply U2. assumption.
Qed.

(* ---------- nodes below a node ---------- *)
Definition below (t : tree) : list tree := flat_map preorder (t_kids t).

Lemma preorder_below t : preorder t = t :: below t.
Proof. destruct t; reflexivity. Qed.

Lemma in_preorder_self t : In t (preorder t).
Proof. rewrite preorder_below. left. reflexivity. Qed.

Lemma kid_below k M Y : In k (t_kids M) -> In Y (preorder k) -> In Y (below M).
Proof. intros Hk HY. unfold below. apply in_flat_map. exists k. split; assumption. Qed.

Lemma below_trans Y M : forall t, In Y (below M) -> In M (preorder t) -> In Y (below t).
Proof.
  induction t as [i x l e ks IH] using tree_ind'. intros HY HM. rewrite preorder_below in HM.
  destruct HM as [HM|HM]; [subst; assumption|].
  unfold below in HM. cbn [t_kids] in HM. apply in_flat_map in HM. destruct HM as [k [Hk HMk]].
  rewrite Forall_forall in IH. specialize (IH k Hk HY HMk).
  apply (kid_below k); [assumption|]. rewrite preorder_below. right. assumption.
Qed.

Lemma preorder_trans Y M t : In Y (preorder M) -> In M (preorder t) -> In Y (preorder t).
Proof.
  intros HY HM. rewrite preorder_below in HY. destruct HY as [HY|HY]; [subst; assumption|].
  rewrite preorder_below. right. eapply below_trans; eauto.
Qed.

Lemma below_id t Y : NoDup (ids t) -> In Y (below t) -> t_id Y <> t_id t.
Proof.
  unfold ids. rewrite preorder_below. cbn [map]. intros ND HY E. inversion ND; subst.
  apply H1. rewrite <- E. apply in_map. assumption.
Qed.

Lemma leaf_taxa_sub a : forall t Y, In Y (preorder t) -> In a (leaf_taxa Y) -> In a (leaf_taxa t).
Proof.
  induction t as [i x l e ks IH] using tree_ind'. intros Y HY Ha. rewrite preorder_below in HY.
  destruct HY as [HY|HY]; [subst; assumption|].
  unfold below in HY. cbn [t_kids] in HY. apply in_flat_map in HY. destruct HY as [k [Hk HYk]].
  rewrite Forall_forall in IH. specialize (IH k Hk Y HYk Ha).
  assert (Hn : ks <> []) by (intro; subst; contradiction).
  rewrite leaf_taxa_node by assumption. apply in_flat_map. exists k. split; assumption.
Qed.

(* ---------- first_some for two functions with the same None-pattern ---------- *)
Lemma first_some_agree {A B C} (f : A -> option B) (g : A -> option C) l :
  (forall k, In k l -> (f k = None <-> g k = None)) ->
  forall b, first_some f l = Some b ->
  exists k, In k l /\ f k = Some b /\ first_some g l = g k.
Proof.
  induction l as [|a l IH]; intros H b; [discriminate|].
  rewrite !first_some_cons. assert (Ha := H a (or_introl eq_refl)).
  destruct (f a) eqn:E1.
  - intros Hb. inversion Hb; subst. exists a. split; [left; reflexivity|]. split; [assumption|].
    destruct (g a) eqn:E2; [reflexivity|]. destruct Ha as [_ Ha]. specialize (Ha eq_refl). discriminate.
  - intros Hb. destruct Ha as [Ha _]. rewrite (Ha eq_refl).
    destruct (IH (fun k Hk => H k (or_intror Hk)) b Hb) as [k [Hk [Hf Hg]]].
    exists k. split; [right; assumption|]. split; assumption.
Qed.

Lemma first_some_none_iff {A B C} (f : A -> option B) (g : A -> option C) l :
  (forall k, In k l -> (f k = None <-> g k = None)) ->
  (first_some f l = None <-> first_some g l = None).
Proof.
  intros H. rewrite !first_some_none. rewrite !Forall_forall. split; intros G k Hk; apply H; auto.
Qed.

(* ---------- up_chain ---------- *)
Lemma sum_len0_app c d : sum_len0 (c ++ d) = sum_len0 c + sum_len0 d.
Proof. induction c as [|p c IH]; simpl; [reflexivity|]. unfold sum_len0 in *. simpl. rewrite IH. lia. Qed.

Lemma sum_len0_one i e : sum_len0 [(i, e)] = len0 e.
Proof. unfold sum_len0. simpl. lia. Qed.

Lemma up_chain_node z i x l e ks :
  ks <> [] -> up_chain z (T i x l e ks) = option_map (fun c => c ++ [(i, e)]) (first_some (up_chain z) ks).
Proof. destruct ks; [congruence | reflexivity]. Qed.

Lemma up_chain_none_iff z : forall t, up_chain z t = None <-> down z t = None.
Proof.
  induction t as [i x l e ks IH] using tree_ind'. destruct ks as [|k r].
  - simpl. destruct (oz_eqb x z); split; intros; congruence.
  - rewrite up_chain_node, down_node by discriminate. unfold downF.
    rewrite <- (first_some_none_iff (up_chain z) (downT z)).
    + destruct (first_some (up_chain z) (k :: r)); simpl; split; intros; congruence.
    + rewrite Forall_forall in IH. intros c Hc. rewrite (IH c Hc). symmetry. apply downT_none_down.
Qed.

Lemma up_chain_in z t c : up_chain z t = Some c -> In z (leaf_taxa t).
Proof.
  intros H. destruct (down z t) eqn:E; [eapply down_in; eauto|].
  apply up_chain_none_iff in E. congruence.
Qed.

Lemma in_up_chain z t : In z (leaf_taxa t) -> exists c, up_chain z t = Some c.
Proof.
  intros H. destruct (up_chain z t) eqn:E; [eexists; reflexivity|].
  apply up_chain_none_iff in E. destruct (in_down z t H) as [d Hd]. congruence.
Qed.

Lemma up_chain_down z : forall t c, up_chain z t = Some c ->
  exists c', c = c' ++ [(t_id t, t_len t)] /\ down z t = Some (sum_len0 c').
Proof.
  induction t as [i x l e ks IH] using tree_ind'. intros c H. cbn [t_id t_len]. destruct ks as [|k r].
  - simpl in *. destruct (oz_eqb x z); [|discriminate]. inversion H; subst. exists []. split; reflexivity.
  - rewrite up_chain_node in H by discriminate. rewrite down_node by discriminate.
    destruct (first_some (up_chain z) (k :: r)) as [c1|] eqn:E; [|discriminate]. cbn [option_map] in H.
    inversion H; subst c. exists c1. split; [reflexivity|].
    assert (AG : forall c, In c (k :: r) -> (up_chain z c = None <-> downT z c = None)).
    { intros c Hc. rewrite up_chain_none_iff. symmetry. apply downT_none_down. }
    destruct (first_some_agree (up_chain z) (downT z) (k :: r) AG c1 E) as [kk [Hk [Hf Hg]]].
    unfold downF. rewrite Hg. rewrite Forall_forall in IH.
    destruct (IH kk Hk c1 Hf) as [c' [Hc' Hd]]. unfold downT. rewrite Hd, Hc'.
    rewrite sum_len0_app, sum_len0_one. cbn [oadd option_map]. f_equal. lia.
Qed.

Lemma last_decomp {A} (pre post c1 : list A) x y :
  pre ++ x :: post = c1 ++ [y] ->
  (post = [] /\ pre = c1 /\ x = y) \/ (exists post', post = post' ++ [y] /\ c1 = pre ++ x :: post').
Proof.
  intros H. destruct post as [|p post0].
  - left. apply app_inj_tail in H. destruct H. auto.
  - right. assert (Hne : p :: post0 <> []) by discriminate.
    destruct (exists_last Hne) as [post' [y' Hp']]. rewrite Hp' in *. exists post'.
    rewrite app_comm_cons, app_assoc in H. apply app_inj_tail in H. destruct H as [H1 H2]. subst. split; reflexivity.
Qed.

(* every element of the chain is a node of the tree, with its identity, its length, its distance
   down to the leaf; all but the first are internal, all but the last lie below the root *)
Lemma up_chain_nodes z : forall t c, up_chain z t = Some c ->
  forall pre i e post, c = pre ++ (i, e) :: post ->
  exists Y, In Y (preorder t) /\ t_id Y = i /\ t_len Y = e /\ down z Y = Some (sum_len0 pre)
            /\ (pre <> [] -> t_kids Y <> []) /\ (post <> [] -> In Y (below t)).
Proof.
  induction t as [i0 x0 l0 e0 ks IH] using tree_ind'. intros c H pre i e post Hc.
  destruct (up_chain_down z _ _ H) as [c1 [Hc1 Hd]]. cbn [t_id t_len] in Hc1.
  rewrite Hc1 in Hc. symmetry in Hc. apply last_decomp in Hc.
  destruct Hc as [[Hp [Hpre Hx]]|[post' [Hpost Hc1']]].
  - inversion Hx; subst. exists (T i0 x0 l0 e0 ks). split; [apply in_preorder_self|].
    split; [reflexivity|]. split; [reflexivity|]. split; [assumption|]. split; [|intros C; congruence].
    intros Hne. cbn [t_kids]. intro; subst ks. simpl in H. destruct (oz_eqb x0 z); [|discriminate].
    inversion H as [Hc].
    destruct c1; [congruence|]. destruct c1; discriminate.
  - destruct ks as [|k r].
    + simpl in H. destruct (oz_eqb x0 z); [|discriminate]. inversion H as [Hc]. rewrite Hc1 in Hc.
      destruct c1 as [|p c1]; [destruct pre; discriminate|]. destruct c1; discriminate.
    + rewrite up_chain_node in H by discriminate.
      destruct (first_some (up_chain z) (k :: r)) as [c2|] eqn:E; [|discriminate]. cbn [option_map] in H.
      inversion H as [Hc]. rewrite Hc1 in Hc. apply app_inj_tail in Hc. destruct Hc as [Hc _]. subst c2.
      apply first_some_some in E. destruct E as [kk [Hk Hf]].
      rewrite Forall_forall in IH.
      destruct (IH kk Hk c1 Hf pre i e post' Hc1') as [Y [Y1 [Y2 [Y3 [Y4 [Y5 _]]]]]].
      exists Y. split; [rewrite preorder_below; right; eapply kid_below; eauto|].
      repeat (split; [assumption|]). intros _. eapply kid_below; eauto.
Qed.

Lemma sum_len0_nonneg_dummy : True. Proof. exact I. Qed.

(* ---------- mrca_chains ---------- *)
Lemma mrca_chains_eq a b t :
  mrca_chains a b t =
  match first_some (mrca_chains a b) (t_kids t) with
  | Some m => Some m
  | None => match first_some (up_chain a) (t_kids t), first_some (up_chain b) (t_kids t) with
            | Some ca, Some cb => Some (t_id t, ca, cb)
            | _, _ => None
            end
  end.
Proof. destruct t; reflexivity. Qed.

Lemma mrca_chains_node a b : forall t m ca cb, mrca_chains a b t = Some (m, ca, cb) ->
  exists M, In M (preorder t) /\ t_id M = m /\ first_some (mrca_chains a b) (t_kids M) = None
     /\ first_some (up_chain a) (t_kids M) = Some ca /\ first_some (up_chain b) (t_kids M) = Some cb.
Proof.
  induction t as [i x l e ks IH] using tree_ind'. intros m ca cb H. rewrite mrca_chains_eq in H.
  cbn [t_kids t_id] in H.
  destruct (first_some (mrca_chains a b) ks) as [mm|] eqn:E.
  - inversion H; subst mm. apply first_some_some in E. destruct E as [k [Hk Hf]].
    rewrite Forall_forall in IH. destruct (IH k Hk _ _ _ Hf) as [M [M1 M2]].
    exists M. split; [|assumption]. rewrite preorder_below. right. eapply kid_below; eauto.
  - destruct (first_some (up_chain a) ks) as [ca'|] eqn:Ea; [|discriminate].
    destruct (first_some (up_chain b) ks) as [cb'|] eqn:Eb; [|discriminate].
    inversion H; subst. exists (T m x l e ks). split; [apply in_preorder_self|]. cbn [t_id t_kids].
    repeat split; assumption.
Qed.

(* two different leaves below one node have their mrca below (or at) that node *)
Lemma mrca_chains_some a b t ca cb :
  up_chain a t = Some ca -> up_chain b t = Some cb -> a <> b -> mrca_chains a b t <> None.
Proof.
  intros Ha Hb Hab. rewrite mrca_chains_eq. destruct t as [i x l e ks]. cbn [t_kids t_id].
  destruct (first_some (mrca_chains a b) ks); [discriminate|].
  destruct ks as [|k r].
  - simpl in Ha, Hb. destruct (oz_eqb x a) eqn:E1; [|discriminate]. destruct (oz_eqb x b) eqn:E2; [|discriminate].
    apply oz_eqb_true in E1, E2. congruence.
  - rewrite up_chain_node in Ha, Hb by discriminate.
    destruct (first_some (up_chain a) (k :: r)); [|discriminate].
    destruct (first_some (up_chain b) (k :: r)); [|discriminate]. discriminate.
Qed.

Definition sep (z w : option Z) (ks : list tree) : Prop :=
  forall k, In k ks -> ~ (In z (leaf_taxa k) /\ In w (leaf_taxa k)).

Lemma mrca_sep a b M :
  a <> b -> first_some (mrca_chains a b) (t_kids M) = None -> sep a b (t_kids M).
Proof.
  intros Hab H k Hk [Ha Hb]. apply first_some_none in H. rewrite Forall_forall in H. specialize (H k Hk).
  destruct (in_up_chain a k Ha) as [ca Hca]. destruct (in_up_chain b k Hb) as [cb Hcb].
  exact (mrca_chains_some a b k ca cb Hca Hcb Hab H).
Qed.

Lemma sep_sym z w ks : sep z w ks -> sep w z ks.
Proof. intros H k Hk [A B]. apply (H k Hk). split; assumption. Qed.

(* ---------- distances across different children ---------- *)
Lemma distF_sep z w ks : sep z w ks ->
  forall dz dw, downF z ks = Some dz -> downF w ks = Some dw -> distF z w ks = Some (dz + dw).
Proof.
  induction ks as [|k r IH]; intros S dz dw Hz Hw; [discriminate|].
  rewrite downF_cons in Hz, Hw. rewrite distF_cons.
  assert (S' : sep z w r) by (intros c Hc; apply S; right; assumption).
  destruct (downT z k) eqn:Ez, (downT w k) eqn:Ew.
  - exfalso. apply (S k (or_introl eq_refl)). split; eapply downT_in; eauto.
  - inversion Hz; subst. rewrite Hw. reflexivity.
  - inversion Hw; subst. rewrite Hz. cbn [oadd option_map]. f_equal. lia.
  - apply IH; assumption.
Qed.

Lemma dist_some_down a b t d : dist a b t = Some d -> down a t <> None /\ down b t <> None.
Proof.
  intros H. split; intro E.
  - rewrite (dist_none_l a b t E) in H. discriminate.
  - rewrite (dist_none_r a b t E) in H. discriminate.
Qed.

Lemma mrca_dist z w M dz dw : forall t,
  In M (preorder t) -> NoDup (leaf_taxa t) ->
  downF z (t_kids M) = Some dz -> downF w (t_kids M) = Some dw -> sep z w (t_kids M) ->
  dist z w t = Some (dz + dw).
Proof.
  induction t as [i x l e ks IH] using tree_ind'. intros HM ND Hz Hw S.
  rewrite preorder_below in HM. destruct HM as [HM|HM].
  - subst M. cbn [t_kids] in *. assert (Hn : ks <> []) by (intro; subst; discriminate).
    rewrite dist_node by assumption. apply distF_sep; assumption.
  - unfold below in HM. cbn [t_kids] in HM. apply in_flat_map in HM. destruct HM as [k [Hk HMk]].
    assert (Hn : ks <> []) by (intro; subst; contradiction).
    rewrite leaf_taxa_node in ND by assumption. rewrite dist_node by assumption.
    apply in_split in Hk. destruct Hk as [A [B Hks]]. subst ks.
    rewrite Forall_forall in IH.
    assert (Dk : dist z w k = Some (dz + dw)).
    { apply IH; try assumption; [apply in_or_app; right; left; reflexivity | eapply nodup_ltF_elem; eauto]. }
    destruct (dist_some_down _ _ _ _ Dk) as [Z1 W1].
    assert (ZA : downF z A = None).
    { apply downF_none. intro Hin. rewrite flat_map_app in ND.
      destruct (down z k) eqn:E; [|congruence]. apply down_in in E.
      eapply (nodup_app_disj _ _ z ND); [exact Hin | cbn [flat_map]; apply in_or_app; left; assumption]. }
    assert (WA : downF w A = None).
    { apply downF_none. intro Hin. rewrite flat_map_app in ND.
      destruct (down w k) eqn:E; [|congruence]. apply down_in in E.
      eapply (nodup_app_disj _ _ w ND); [exact Hin | cbn [flat_map]; apply in_or_app; left; assumption]. }
    rewrite distF_app, ZA, WA, distF_cons.
    destruct (downT z k) eqn:E1; [|apply downT_none_down in E1; contradiction].
    destruct (downT w k) eqn:E2; [|apply downT_none_down in E2; contradiction].
    assumption.
Qed.

(* ---------- the walk ---------- *)
Lemma walk_spec top : forall chain p h, walk top p chain = Ok h ->
  match h with
  | HitNode n => exists pre i e post, chain = pre ++ (i, Some e) :: post /\ sum_len0 pre + e = p
                   /\ n = match post with (q, _) :: _ => q | [] => top end
  | HitEdge hd hl tl => exists pre e post, chain = pre ++ (hd, Some e) :: post
                   /\ sum_len0 pre + hl = p /\ hl + tl = e
  end.
Proof.
  induction chain as [|[i oe] rest IH]; intros p h H; [discriminate|].
  simpl in H. destruct oe as [e|]; [|discriminate].
  destruct (p <? e) eqn:E1.
  - inversion H; subst. exists [], e, rest. split; [reflexivity|]. unfold sum_len0. simpl. split; lia.
  - destruct (e <? p) eqn:E2.
    + specialize (IH _ _ H). destruct h as [n|hd hl tl].
      * destruct IH as [pre [i' [e' [post [A [B C]]]]]]. exists ((i, Some e) :: pre), i', e', post.
        split; [rewrite A; reflexivity|]. split; [|assumption]. unfold sum_len0 in *. simpl. lia.
      * destruct IH as [pre [e' [post [A [B C]]]]]. exists ((i, Some e) :: pre), e', post.
        split; [rewrite A; reflexivity|]. split; [|assumption]. unfold sum_len0 in *. simpl. lia.
    + inversion H; subst. exists [], i, e, rest. split; [reflexivity|]. split; [|reflexivity].
      apply Z.ltb_ge in E1, E2. unfold sum_len0. simpl. lia.
Qed.
