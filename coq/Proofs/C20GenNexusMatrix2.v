(* C20, translator tie for the NEXUS character block, part 4: the row loops of the GENERATED
   NexusReader._process_discrete_matrix_data and NexusReader._parse_matrix_statement (Gen/NexusChars.v) against
   matrix_loop / parse_matrix of the skeleton (Model/C20Nexus2.v).

   The generated code addresses the matrix through its index in self._char_matrices (cbref) and works on the rows in
   the state; the skeleton carries the matrix `m` beside the state and writes it back with set_last_mat.  The tie:
   along the row loop  n_mats st = pre ++ [m]  with the cbref pointing at the last position (Inv), the generated loop
   and matrix_loop deliver the SAME reader state, token and outcome class.  One difference is visible in between:
   when _read_character_states leaves with BlockTerminatedException the source discards the states read for the
   unfinished row (the row keeps its old length n0), the skeleton records the length reached (n1); both are < NCHAR,
   so the closing check of the interleaved form raises the same error on either (bte_rel below), and the results of
   the whole MATRIX statement are EQUAL (gen_parse_matrix_eq). *)
From Coq Require Import String Ascii ZArith List Bool Lia.
From DV Require Import Model.PyPrims Gen.ReaderLoops Model.Tokenizer Model.Newick Model.C20Model Model.C20Nexus2
  Model.C20NexusPrims Model.C20NexusPrims2 Gen.NexusChars Proofs.C20NexusDims Proofs.C20NexusRows Proofs.C20GenNexus
  Proofs.C20GenNexusStates Proofs.C20GenNexusMatrix.
Import ListNotations.
Close Scope string_scope.
Open Scope list_scope.
Open Scope Z_scope.

Ltac zb := repeat match goal with
  | H : (_ <? _) = true |- _ => apply Z.ltb_lt in H
  | H : (_ <? _) = false |- _ => apply Z.ltb_ge in H
  | H : (_ =? _) = true |- _ => apply Z.eqb_eq in H
  | H : (_ =? _) = false |- _ => apply Z.eqb_neq in H
  end.

(* the loop records of the two row loops of _process_discrete_matrix_data, computed from the generated table *)
Lemma rec_matrix_il tok st : guard_extra L_matrix_il tok st = negb (n_eof st).
Proof.
  unfold guard_extra. replace (guard_tests_eof L_matrix_il) with true by (vm_compute; reflexivity).
  replace (guard_tests_none L_matrix_il) with false by (vm_compute; reflexivity). apply andb_true_r.
Qed.
Lemma rec_matrix_seq tok st : guard_extra L_matrix tok st = negb (n_eof st).
Proof.
  unfold guard_extra. replace (guard_tests_eof L_matrix) with true by (vm_compute; reflexivity).
  replace (guard_tests_none L_matrix) with false by (vm_compute; reflexivity). apply andb_true_r.
Qed.
Lemma rec_matrix_prims : nth_prim L_matrix_il 0 = FNextToken /\ nth_prim L_matrix 0 = FNextToken.
Proof. split; vm_compute; reflexivity. Qed.

Definition m_with (m : matrix) (rows : list (nat * Z)) : matrix := mkMat (m_label m) (m_tns m) rows (m_sets m).
Definition n0_of (m : matrix) (t : nat) : Z := match row_len_of (m_rows m) t with Some n => n | None => 0 end.

(* frames *)
Lemma PE_nchar a b : PE a b -> n_nchar b = n_nchar a.
Proof. unfold PE, pay. intro H. inversion H. reflexivity. Qed.
Lemma nchar_set_last_mat st m : n_nchar (set_last_mat st m) = n_nchar st.
Proof. unfold set_last_mat. destruct (rev (n_mats st)); reflexivity. Qed.
Lemma match_set_last_mat st m : n_match (set_last_mat st m) = n_match st.
Proof. unfold set_last_mat. destruct (rev (n_mats st)); reflexivity. Qed.
Lemma nchar_tns_set_labels st i ls : n_nchar (tns_set_labels st i ls) = n_nchar st.
Proof. unfold tns_set_labels. destruct (nth_error (n_tns st) i) as [[t l]|]; reflexivity. Qed.
Lemma get_taxon_nchar lower st ti label t st1 : get_taxon lower st ti label = ROk (t, st1) -> n_nchar st1 = n_nchar st.
Proof. unfold get_taxon. intro H. repeat step H; try reflexivity. apply nchar_tns_set_labels. Qed.

Section MatTie.
Variable fxc fxa : bool.
Variable upper lower : str -> str.
Variable sym_ok : Z -> Z -> bool.
Variable is_float : str -> bool.
Variable F : nat.
Local Notation fx := (mkFix fxc fxa true).

Variable pre : list matrix.
Variable cb : cbref.
Variable nc : Z.

(* the invariant of the row loops *)
Record Inv (il : bool) (st : nstate) (m : matrix) : Prop := mkInv {
  inv_mats : n_mats st = pre ++ [m];
  inv_cb : cb_ix cb = length pre;
  inv_nc : n_nchar st = Some nc;
  inv_il : n_interleave st = il;
  inv_pos : Forall (fun r => 0 <= snd r) (m_rows m);
  inv_nd : NoDup (map fst (m_rows m)) }.

Lemma Inv_PE il a b m : PE a b -> Inv il a m -> Inv il b m.
Proof.
  intros P [A B C D E G]. constructor; try assumption.
  - rewrite (PE_mats _ _ P). exact A.
  - rewrite (PE_nchar _ _ P). exact C.
  - rewrite (PE_il _ _ P). exact D.
Qed.

Lemma Inv_set il st m rows : Inv il st m -> Forall (fun r => 0 <= snd r) rows -> NoDup (map fst rows) ->
  Inv il (set_last_mat st (m_with m rows)) (m_with m rows).
Proof.
  intros [A B C D E G] Hp Hn. constructor; try assumption.
  - exact (set_last_mat_mats _ _ _ _ A).
  - rewrite nchar_set_last_mat. exact C.
  - rewrite il_set_last_mat. exact D.
Qed.

Lemma set_row_nodup rows t n : NoDup (map fst rows) -> NoDup (map fst (set_row rows t n)).
Proof.
  intro H. exact (proj1 (set_row_keys_ok rows t n (fun _ => True) H (fun _ _ => I) I)).
Qed.

Lemma n0_pos m t : Forall (fun r => 0 <= snd r) (m_rows m) -> 0 <= n0_of m t.
Proof.
  intro H. unfold n0_of. destruct (row_len_of (m_rows m) t) eqn:E; [|lia].
  exact (row_len_of_Forall (fun z => 0 <= z) _ _ _ H E).
Qed.

(* a row left by BlockTerminatedException is short *)
Lemma states_loop_term_lt al il nchar first : forall f n st n1 st1,
  states_loop upper sym_ok F f al il nchar first n st = ROk (n1, true, st1) -> n1 < nchar.
Proof.
  induction f as [|f IH]; intros n st n1 st1 H; [discriminate|]. cbn [states_loop] in H.
  destruct (n <? nchar) eqn:Cn; [|inversion H]. zb.
  repeat step H; try (eapply IH; eassumption); try lia.
Qed.

Lemma read_character_states_term_lt al nchar first n st n1 st1 :
  read_character_states upper sym_ok F al nchar first n st = ROk (n1, true, st1) -> n1 < nchar.
Proof.
  unfold read_character_states. intro H. step H. destruct a as [[a1 a2] a3]. inversion H; subst.
  exact (states_loop_term_lt _ _ _ _ _ _ _ _ _ E).
Qed.

(* one row: char_block[taxon] created, _read_character_states on it, the row stored back *)
Lemma read_rel il st1 m t al first : Inv il st1 m ->
  let m1 := m_with m (set_row (m_rows m) t (n0_of m t)) in
  let stA := set_last_mat st1 m1 in
  py_cb_touch st1 cb t = stA /\ Inv il stA m1 /\
  match NexusReader_read_character_states sym_ok F (get_interleave stA) nc (get_match_char stA) (py_cb_row stA cb t) al
          (py_rowref_len stA cb first) stA,
        read_character_states upper sym_ok F al nc
          (match first with Some ft => row_len_of (m_rows m1) ft | None => None end) (n0_of m t) stA with
  | ROk (GVal (v, s1)), ROk (n1, false, s2) =>
      s1 = s2 /\
      let m2 := m_with m (set_row (m_rows m1) t n1) in
      py_cb_set_row s1 cb t v = set_last_mat s1 m2 /\ Inv il (set_last_mat s1 m2) m2 /\ row_len_of (m_rows m2) t = Some n1
  | ROk (GBte s1), ROk (n1, true, s2) =>
      s1 = s2 /\ il = true /\ n1 < nc /\ n0_of m t < nc /\ Inv il s1 m1 /\ row_len_of (m_rows m1) t = Some (n0_of m t)
  | RErr e1, RErr e2 => e1 = e2
  | RFuel, RFuel => True
  | _, _ => False
  end.
Proof.
  intros I1 m1 stA.
  assert (Hpos : 0 <= n0_of m t) by (apply n0_pos; exact (inv_pos _ _ _ I1)).
  assert (IA : Inv il stA m1).
  { apply Inv_set; [exact I1 | | apply set_row_nodup; exact (inv_nd _ _ _ I1)].
    apply (set_row_Forall (fun z => 0 <= z)); [exact (inv_pos _ _ _ I1) | exact Hpos]. }
  split; [exact (py_cb_touch_last _ _ _ _ t (inv_mats _ _ _ I1) (inv_cb _ _ _ I1))|].
  split; [exact IA|].
  assert (Erows : cb_rows stA cb = m_rows m1) by exact (cb_rows_last _ _ _ _ (inv_mats _ _ _ IA) (inv_cb _ _ _ IA)).
  assert (Erl : py_cb_row_len stA cb t = n0_of m t).
  { unfold py_cb_row_len. rewrite Erows. unfold m1, m_with. cbn [m_rows]. rewrite row_len_of_set_row. reflexivity. }
  assert (Ecdv : zlen (py_cb_row stA cb t) = n0_of m t) by (unfold py_cb_row; rewrite Erl; apply zlen_repeat; exact Hpos).
  assert (Efirst : py_rowref_len stA cb first = match first with Some ft => row_len_of (m_rows m1) ft | None => None end).
  { unfold py_rowref_len. rewrite Erows. reflexivity. }
  pose proof (gen_read_character_states_rel upper sym_ok F (get_interleave stA) nc (get_match_char stA) (py_cb_row stA cb t) al
                (py_rowref_len stA cb first) stA eq_refl eq_refl) as R.
  rewrite Ecdv, Efirst in R. rewrite Efirst.
  destruct (NexusReader_read_character_states sym_ok F (get_interleave stA) nc (get_match_char stA) (py_cb_row stA cb t) al
              (match first with Some ft => row_len_of (m_rows m1) ft | None => None end) stA) as [[[v s1]|s1]| |];
    destruct (read_character_states upper sym_ok F al nc
                (match first with Some ft => row_len_of (m_rows m1) ft | None => None end) (n0_of m t) stA) as [[[n1 [|]] s2]| |] eqn:ES;
    try contradiction; try exact R; try exact I.
  - (* normal return *)
    destruct R as [R1 R2]. subst s2. split; [reflexivity|]. cbv zeta.
    destruct (read_character_states_spec upper sym_ok F _ _ _ _ _ _ _ _ ES) as [P [B _]].
    assert (I2 : Inv il s1 m1) by exact (Inv_PE _ _ _ _ P IA).
    assert (Er2 : cb_rows s1 cb = m_rows m1) by exact (cb_rows_last _ _ _ _ (inv_mats _ _ _ I2) (inv_cb _ _ _ I2)).
    split; [|split].
    + unfold py_cb_set_row. rewrite Er2, R2. exact (cb_upd_rows_last _ _ _ _ _ (inv_mats _ _ _ I2) (inv_cb _ _ _ I2)).
    + change (m_with m (set_row (m_rows m1) t n1)) with (m_with m1 (set_row (m_rows m1) t n1)).
      apply Inv_set; [exact I2 | | apply set_row_nodup; exact (inv_nd _ _ _ I2)].
      apply (set_row_Forall (fun z => 0 <= z)); [exact (inv_pos _ _ _ I2) | lia].
    + unfold m_with. cbn [m_rows]. apply row_len_of_set_row.
  - (* BlockTerminatedException *)
    subst s2.
    destruct (read_character_states_spec upper sym_ok F _ _ _ _ _ _ _ _ ES) as [P [B T]].
    pose proof (read_character_states_term_lt _ _ _ _ _ _ _ ES) as L.
    assert (I2 : Inv il s1 m1) by exact (Inv_PE _ _ _ _ P IA).
    split; [reflexivity|]. split; [rewrite <- (inv_il _ _ _ IA); apply T; reflexivity|].
    split; [exact L|]. split; [lia|]. split; [exact I2|].
    unfold m1, m_with. cbn [m_rows]. apply row_len_of_set_row.
Qed.

(* facts about a row that exists *)
Lemma row_facts il s m t n : Inv il s m -> row_len_of (m_rows m) t = Some n ->
  py_cb_touch s cb t = s /\ py_cb_row_len s cb t = n /\ get_file_specified_nchar s = Some nc.
Proof.
  intros I1 H.
  assert (Er : cb_rows s cb = m_rows m) by exact (cb_rows_last _ _ _ _ (inv_mats _ _ _ I1) (inv_cb _ _ _ I1)).
  split; [apply (py_cb_touch_present _ _ _ n); rewrite Er; exact H|].
  split; [unfold py_cb_row_len; rewrite Er, H; reflexivity | exact (inv_nc _ _ _ I1)].
Qed.

Lemma get_taxon_Inv il st m label t st1 : get_taxon lower st (m_tns m) label = ROk (t, st1) -> Inv il st m -> Inv il st1 m.
Proof.
  intros Eg [A B C D E G]. destruct (get_taxon_frame _ _ _ _ _ _ Eg) as [Fm Fi].
  constructor; try assumption; try congruence. rewrite (get_taxon_nchar _ _ _ _ _ _ Eg). exact C.
Qed.

(* ---- `for taxon in char_block: if len(char_block[taxon]) < self._file_specified_nchar: raise` ---- *)
Lemma existsb_ext_in (A : Type) (f g : A -> bool) : forall l, (forall x, In x l -> f x = g x) -> existsb f l = existsb g l.
Proof.
  induction l as [|x l IH]; intro H; [reflexivity|]. cbn [existsb].
  rewrite (H x (or_introl eq_refl)), IH; [reflexivity|]. intros y Hy. apply H. right. exact Hy.
Qed.

Lemma existsb_rows : forall rows, NoDup (map fst rows) ->
  existsb (fun t => match row_len_of rows t with Some n => n | None => 0 end <? nc) (map fst rows)
  = existsb (fun r : nat * Z => snd r <? nc) rows.
Proof.
  induction rows as [|[i k] rows IH]; intro ND; [reflexivity|].
  cbn [map fst existsb row_len_of snd]. rewrite Nat.eqb_refl. f_equal.
  inversion ND as [|x l Hni ND']; subst. rewrite <- (IH ND').
  apply existsb_ext_in. intros t Ht. cbn [row_len_of].
  destruct (Nat.eqb i t) eqn:E; [|reflexivity]. apply Nat.eqb_eq in E. subst t. contradiction.
Qed.

Lemma for_loop_eq il st m : Inv il st m -> forall items,
  (forall t, In t items -> exists n, row_len_of (m_rows m) t = Some n) ->
  NexusReader_process_discrete_matrix_data_loop2 items cb st
  = if existsb (fun t => n0_of m t <? nc) items then RErr ParseErr else ROk st.
Proof.
  intros I1. induction items as [|t items IH]; intro H; [reflexivity|].
  cbn [NexusReader_process_discrete_matrix_data_loop2 existsb].
  destruct (H t (or_introl eq_refl)) as [n En].
  destruct (row_facts _ _ _ _ _ I1 En) as [E1 [E2 E3]]. rewrite E1, E2, E3. cbn [py_lt_z_optz nbind].
  unfold n0_of at 1. rewrite En.
  destruct (n <? nc); cbn [orb]; [reflexivity|]. apply IH. intros t' Ht'. apply H. right. exact Ht'.
Qed.

Lemma closing_check il st m : Inv il st m ->
  (dn s <- NexusReader_process_discrete_matrix_data_loop2 (py_cb_taxa st cb) cb st ;; ROk s)
  = if rows_short st nc then RErr ParseErr else ROk st.
Proof.
  intro I1.
  assert (Er : cb_rows st cb = m_rows m) by exact (cb_rows_last _ _ _ _ (inv_mats _ _ _ I1) (inv_cb _ _ _ I1)).
  unfold py_cb_taxa. rewrite Er. rewrite (for_loop_eq _ _ _ I1).
  - unfold rows_short. rewrite (last_mat_mats _ _ _ (inv_mats _ _ _ I1)).
    unfold n0_of. rewrite (existsb_rows _ (inv_nd _ _ _ I1)).
    destruct (existsb (fun r : nat * Z => snd r <? nc) (m_rows m)); reflexivity.
  - intros t Ht. apply in_map_iff in Ht. destruct Ht as [[i k] [E1 Hin]]. cbn [fst] in E1. subst i.
    clear Er. pose proof (inv_nd _ _ _ I1) as ND. induction (m_rows m) as [|[j q] rows IHr]; [destruct Hin|].
    cbn [row_len_of]. destruct (Nat.eqb j t) eqn:E; [eauto|].
    destruct Hin as [Hin|Hin]; [inversion Hin; subst; rewrite Nat.eqb_refl in E; discriminate|].
    inversion ND; subst. apply IHr; assumption.
Qed.

(* ---- the interleaved row loop (inside `try .. except BlockTerminatedException`) ---- *)
Definition bte_rel (s1 s2 : nstate) : Prop :=
  exists m1 t n0 n1, Inv true s1 m1 /\ s2 = set_last_mat s1 (m_with m1 (set_row (m_rows m1) t n1))
                     /\ row_len_of (m_rows m1) t = Some n0 /\ n0 < nc /\ n1 < nc.

Ltac split_rel R :=
  match type of R with match ?G with _ => _ end => destruct G as [[[v s1]|s1]| |] end;
  match type of R with context [match ?S with _ => _ end] => destruct S as [[[n1 [|]] s2]| |] end;
  try contradiction; cbn [nbind].

Lemma il_loop_rel al : forall f tok st m first, Inv true st m ->
  match NexusReader_process_discrete_matrix_data_loop1 lower sym_ok F f (m_tns m) al cb first tok st,
        matrix_loop fx upper lower sym_ok is_float F f L_matrix_il (Some al) true nc tok st m first with
  | ROk (GVal (_, tok1, s1)), ROk (tok2, s2, false) => tok1 = tok2 /\ s1 = s2 /\ exists m', Inv true s1 m'
  | ROk (GBte s1), ROk (_, s2, true) => bte_rel s1 s2
  | RErr e1, RErr e2 => e1 = e2
  | RFuel, RFuel => True
  | _, _ => False
  end.
Proof.
  destruct rec_matrix_prims as [K _].
  induction f as [|f IH]; intros tok st m first I0; [exact I|].
  cbn [NexusReader_process_discrete_matrix_data_loop1 matrix_loop]. rewrite rec_matrix_il. unfold ostr_is, py_is_eof.
  destruct (negb (tok_is tok ";") && negb (n_eof st)).
  2:{ split; [reflexivity|]. split; [reflexivity|]. exists m. exact I0. }
  rewrite gen_get_taxon_eq. cbv zeta.
  destruct (get_taxon lower st (m_tns m) (tok_text tok)) as [[t st1]| |] eqn:Eg; cbn [nbind]; [|reflexivity|exact I].
  pose proof (get_taxon_Inv _ _ _ _ _ _ Eg I0) as I1.
  unfold get_file_specified_nchar at 1. rewrite (inv_nc _ _ _ I1). cbn [py_optz_int nbind].
  destruct (read_rel true st1 m t al first I1) as [Et [IA R]]. cbv zeta in Et, IA, R. rewrite Et.
  unfold m_with, n0_of in R. unfold m_with, n0_of.
  split_rel R; try exact R; try exact I.
  - (* the row was read *)
    destruct R as [R1 [R2 [R3 R4]]]. subst s2. cbv zeta in R2, R3, R4. unfold m_with in R2, R3, R4. rewrite R2.
    destruct (row_facts _ _ _ _ _ R3 R4) as [E1 _].
    rewrite K. cbn [fetch negb andb]. unfold py_next_token.
    destruct first as [ft|]; cbn [py_is_none]; rewrite ?E1;
      (match goal with |- context [next_token ?s] => destruct (next_token s) as [[tk st4]| |] eqn:En end;
       cbn [nbind fst snd]; [|reflexivity|exact I];
       match goal with |- context [matrix_loop _ _ _ _ _ _ _ _ _ _ _ _ _ ?mm ?ff] =>
         exact (IH tk st4 mm ff (Inv_PE _ _ _ _ (next_token_PE _ _ En) R3)) end).
  - (* BlockTerminatedException *)
    destruct R as [R1 [_ [R3 [R4 [R5 R6]]]]]. subst s2.
    exists (mkMat (m_label m) (m_tns m) (set_row (m_rows m) t (match row_len_of (m_rows m) t with Some n => n | None => 0 end)) (m_sets m)),
           t, (match row_len_of (m_rows m) t with Some n => n | None => 0 end), n1.
    split; [exact R5|]. split; [reflexivity|]. split; [exact R6|]. split; assumption.
Qed.

(* ---- the sequential row loop ---- *)
Lemma seq_loop_rel al : forall f tok st m first, Inv false st m ->
  match NexusReader_process_discrete_matrix_data_loop3 lower sym_ok F f (m_tns m) al cb first tok st,
        matrix_loop fx upper lower sym_ok is_float F f L_matrix (Some al) false nc tok st m first with
  | ROk (_, tok1, s1), ROk (tok2, s2, false) => tok1 = tok2 /\ s1 = s2
  | RErr e1, RErr e2 => e1 = e2
  | RFuel, RFuel => True
  | _, _ => False
  end.
Proof.
  destruct rec_matrix_prims as [_ K].
  induction f as [|f IH]; intros tok st m first I0; [exact I|].
  cbn [NexusReader_process_discrete_matrix_data_loop3 matrix_loop]. rewrite rec_matrix_seq. unfold ostr_is, py_is_eof.
  destruct (negb (tok_is tok ";") && negb (n_eof st)).
  2:{ split; reflexivity. }
  rewrite gen_get_taxon_eq. cbv zeta.
  destruct (get_taxon lower st (m_tns m) (tok_text tok)) as [[t st1]| |] eqn:Eg; cbn [nbind]; [|reflexivity|exact I].
  pose proof (get_taxon_Inv _ _ _ _ _ _ Eg I0) as I1.
  unfold get_file_specified_nchar at 1. rewrite (inv_nc _ _ _ I1). cbn [py_optz_int nbind].
  destruct (read_rel false st1 m t al first I1) as [Et [IA R]]. cbv zeta in Et, IA, R. rewrite Et.
  unfold m_with, n0_of in R. unfold m_with, n0_of.
  split_rel R; try exact R; try exact I.
  - destruct R as [R1 [R2 [R3 R4]]]. subst s2. cbv zeta in R2, R3, R4. unfold m_with in R2, R3, R4. rewrite R2.
    destruct (row_facts _ _ _ _ _ R3 R4) as [E1 [E2 E3]].
    rewrite K. cbn [fetch negb andb]. unfold py_next_token.
    destruct first as [ft|]; cbn [py_is_none]; rewrite ?E1, E2, E3; cbn [py_lt_z_optz nbind];
      (destruct (n1 <? nc); [reflexivity|];
       match goal with |- context [next_token ?s] => destruct (next_token s) as [[tk st4]| |] eqn:En end;
       cbn [nbind fst snd]; [|reflexivity|exact I];
       match goal with |- context [matrix_loop _ _ _ _ _ _ _ _ _ _ _ _ _ ?mm ?ff] =>
         exact (IH tk st4 mm ff (Inv_PE _ _ _ _ (next_token_PE _ _ En) R3)) end).
  - (* BlockTerminatedException cannot leave a sequential row *)
    destruct R as [_ [X _]]. discriminate X.
Qed.

Lemma row_len_of_In : forall rows t n, row_len_of rows t = Some n -> exists i, In (i, n) rows.
Proof.
  induction rows as [|[i k] rows IH]; intros t n H; cbn [row_len_of] in H; [discriminate|].
  destruct (Nat.eqb i t).
  - inversion H; subst. exists i. left. reflexivity.
  - destruct (IH _ _ H) as [j Hj]. exists j. right. exact Hj.
Qed.

Lemma rows_short_true st pr m t n : n_mats st = pr ++ [m] -> row_len_of (m_rows m) t = Some n -> n < nc -> rows_short st nc = true.
Proof.
  intros Hm Hr Hn. unfold rows_short. rewrite (last_mat_mats _ _ _ Hm). apply existsb_exists.
  destruct (row_len_of_In _ _ _ Hr) as [i Hi]. exists (i, n). split; [exact Hi|]. cbn [snd]. apply Z.ltb_lt. exact Hn.
Qed.

(* ---- _process_discrete_matrix_data from `token = next_token()` on, for the alphabet al ---- *)
Definition discrete_tail_spec (al : alphabet) (st2 : nstate) (m0 : matrix) : nr nstate :=
  let il := n_interleave st2 in
  dn p <- next_token st2 ;;
  dn r <- matrix_loop fx upper lower sym_ok is_float F F (if il then L_matrix_il else L_matrix) (Some al) il nc (fst p) (snd p) m0 None ;;
  let '(tok, st3, term) := r in
  dn st4 <- (if term then dn q <- next_token st3 ;; ROk (snd q)
             else if negb il && negb (tok_is tok ";") then RErr ParseErr
             else ROk st3) ;;
  if il && fx_ildims fx && rows_short st4 nc then RErr ParseErr else ROk st4.

Lemma discrete_tail_eq st2 m0 : Inv (n_interleave st2) st2 m0 ->
  (let taxon_namespace := py_cb_taxon_namespace st2 cb in
   dn p_ <- py_next_token st2 ;;
   let '(token, st) := p_ in
   let state_alphabet := py_cb_default_state_alphabet cb in
   let first_sequence_defined := @None nat in
   if get_interleave st
   then dn r_ <- NexusReader_process_discrete_matrix_data_loop1 lower sym_ok F F taxon_namespace state_alphabet cb first_sequence_defined token st ;;
        match r_ with
        | GBte st0 => dn p_0 <- py_next_token st0 ;;
                      let '(_, st1) := p_0 in
                      dn st2 <- NexusReader_process_discrete_matrix_data_loop2 (py_cb_taxa st1 cb) cb st1 ;; ROk st2
        | GVal (_, _, st0) => dn st1 <- NexusReader_process_discrete_matrix_data_loop2 (py_cb_taxa st0 cb) cb st0 ;; ROk st1
        end
   else dn r_ <- NexusReader_process_discrete_matrix_data_loop3 lower sym_ok F F taxon_namespace state_alphabet cb first_sequence_defined token st ;;
        let '(_, token0, st0) := r_ in if negb (ostr_is token0 ";") then RErr ParseErr else ROk st0)
  = discrete_tail_spec (cb_alpha cb) st2 m0.
Proof.
  intro I2. unfold discrete_tail_spec. cbv zeta. unfold py_next_token, py_cb_default_state_alphabet, get_interleave.
  assert (Etn : py_cb_taxon_namespace st2 cb = m_tns m0).
  { unfold py_cb_taxon_namespace. rewrite (cb_mat_last _ _ _ _ (inv_mats _ _ _ I2) (inv_cb _ _ _ I2)). reflexivity. }
  rewrite Etn.
  destruct (next_token st2) as [[tk s]| |] eqn:En; cbn [nbind fst snd]; [|reflexivity|reflexivity].
  pose proof (next_token_PE _ _ En) as P. cbn [snd] in P.
  pose proof (Inv_PE _ _ _ _ P I2) as I3. rewrite (PE_il _ _ P).
  destruct (n_interleave st2) eqn:Eil.
  - (* interleaved *)
    pose proof (il_loop_rel (cb_alpha cb) F tk s m0 None I3) as R.
    destruct (NexusReader_process_discrete_matrix_data_loop1 lower sym_ok F F (m_tns m0) (cb_alpha cb) cb None tk s) as [[[[fs tok1] s1]|s1]| |];
      destruct (matrix_loop fx upper lower sym_ok is_float F F L_matrix_il (Some (cb_alpha cb)) true nc tk s m0 None) as [[[tok2 s2] [|]]| |];
      try contradiction; cbn [nbind negb andb fx_ildims]; try (rewrite R; reflexivity); try reflexivity.
    + (* ended at ';' / end of stream *)
      destruct R as [R1 [R2 [m' J]]]. subst s2. rewrite (closing_check _ _ _ J). reflexivity.
    + (* ended by BlockTerminatedException *)
      destruct R as [m1 [t [n0 [n1 [J1 [J2 [J3 [J4 J5]]]]]]]].
      destruct (set_last_mat_pay s1 (m_with m1 (set_row (m_rows m1) t n1))) as [pp [Q1 Q2]].
      rewrite J2, Q1, next_token_upd_pay.
      destruct (next_token s1) as [[o s']| |] eqn:En1; cbn [nbind fst snd]; [|reflexivity|reflexivity].
      pose proof (next_token_PE _ _ En1) as P1. cbn [snd] in P1.
      pose proof (Inv_PE _ _ _ _ P1 J1) as J1'.
      rewrite (closing_check _ _ _ J1').
      rewrite (rows_short_true _ _ _ _ _ (inv_mats _ _ _ J1') J3 J4).
      rewrite <- (Q2 s' P1).
      rewrite (rows_short_true (set_last_mat s' (m_with m1 (set_row (m_rows m1) t n1))) pre (m_with m1 (set_row (m_rows m1) t n1)) t n1);
        [reflexivity | exact (set_last_mat_mats _ _ _ _ (inv_mats _ _ _ J1')) | unfold m_with; cbn [m_rows]; apply row_len_of_set_row | exact J5].
  - (* sequential *)
    pose proof (seq_loop_rel (cb_alpha cb) F tk s m0 None I3) as R.
    destruct (NexusReader_process_discrete_matrix_data_loop3 lower sym_ok F F (m_tns m0) (cb_alpha cb) cb None tk s) as [[[fs tok1] s1]| |];
      destruct (matrix_loop fx upper lower sym_ok is_float F F L_matrix (Some (cb_alpha cb)) false nc tk s m0 None) as [[[tok2 s2] [|]]| |];
      try contradiction; cbn [nbind negb andb]; try (rewrite R; reflexivity); try reflexivity.
    destruct R as [R1 R2]. subst tok2 s2. unfold ostr_is. destruct (negb (tok_is tok1 ";")); reflexivity.
Qed.

End MatTie.

(* ================================================================================================================ *)
Section MatTop.
Variable fxc fxa : bool.
Variable upper lower : str -> str.
Variable sym_ok : Z -> Z -> bool.
Variable is_float : str -> bool.
Variable F : nat.
Local Notation fx := (mkFix fxc fxa true).

Lemma nbind_ret (A : Type) (r : nr A) : (dn x <- r ;; ROk x) = r.
Proof. destruct r; reflexivity. Qed.

(* NexusReader._process_discrete_matrix_data on the matrix just appended *)
Lemma gen_process_discrete_eq cb st2 m0 pre nc :
  n_mats st2 = pre ++ [m0] -> cb_ix cb = length pre -> n_nchar st2 = Some nc -> m_rows m0 = [] ->
  NexusReader_process_discrete_matrix_data fxa upper lower sym_ok F cb st2
  = dn cb' <- (if dtype_is (n_dtype st2) "standard" then py_build_state_alphabet fxa upper lower st2 cb (n_symbols st2) else ROk cb) ;;
    discrete_tail_spec fxc fxa upper lower sym_ok is_float F nc (cb_alpha cb') st2 m0.
Proof.
  intros Hm Hc Hn Hr. unfold NexusReader_process_discrete_matrix_data, get_data_type, get_symbols.
  destruct (if dtype_is (n_dtype st2) "standard" then py_build_state_alphabet fxa upper lower st2 cb (n_symbols st2) else ROk cb)
    as [cb'| |] eqn:Eb; cbn [nbind]; try reflexivity.
  assert (Hc' : cb_ix cb' = length pre).
  { destruct (dtype_is (n_dtype st2) "standard").
    - unfold py_build_state_alphabet in Eb.
      destruct (build_std_alphabet (mkFix false fxa false) upper lower (set_symbols st2 (n_symbols st2))); cbn [nbind] in Eb;
        inversion Eb; subst; exact Hc.
    - inversion Eb; subst; exact Hc. }
  apply (discrete_tail_eq fxc fxa upper lower sym_ok is_float F pre cb' nc st2 m0).
  constructor; try assumption; try reflexivity; rewrite Hr; constructor.
Qed.

(* NexusReader._parse_matrix_statement IS the skeleton's parse_matrix (with the closing check of the interleaved form
   present: fx_ildims = true; the two defect sites inside untranslated callees are the parameters fxc, fxa) *)
Theorem gen_parse_matrix_eq : forall st bt lt,
  NexusReader_parse_matrix_statement fxc fxa upper lower sym_ok is_float F bt lt st
  = parse_matrix fx upper lower sym_ok is_float F st bt lt.
Proof.
  intros st bt lt.
  unfold NexusReader_parse_matrix_statement, parse_matrix, get_file_specified_ntax, get_file_specified_nchar, py_not_optz.
  destruct (n_ntax st) as [nt|]; [|reflexivity].
  destruct (n_nchar st) as [nc|] eqn:Hnc; [|destruct (nt =? 0); reflexivity].
  destruct (nt =? 0); [reflexivity|]. destruct (nc =? 0); cbn [orb]; [reflexivity|].
  unfold py_get_taxon_namespace.
  destruct (get_tns upper st lt) as [[ti st1]| |] eqn:Eg; cbn [nbind]; [|reflexivity|reflexivity].
  destruct (get_tns_frame _ _ _ _ _ Eg) as [Fm [Fc Ft]].
  unfold py_new_char_matrix, get_data_type. cbv zeta.
  set (m0 := mkMat bt ti [] []). set (st2 := upd_mats st1 (n_mats st1 ++ [m0])).
  assert (Hm2 : n_mats st2 = n_mats st1 ++ [m0]) by reflexivity.
  assert (Hn2 : n_nchar st2 = Some nc) by (unfold st2; cbn; congruence).
  change (n_dtype st2) with (n_dtype st1).
  destruct (n_dtype st1) eqn:Dt.
  all: match goal with
       | |- context [dtype_is ?d "continuous"] =>
         let v := eval vm_compute in (dtype_is d "continuous") in change (dtype_is d "continuous") with v
       end; cbv iota.
  6:{ (* continuous *)
      rewrite nbind_ret. unfold py_process_continuous_matrix_data, cb_mat. cbn [cb_ix].
      rewrite Hm2, nth_error_last, Hn2. cbv zeta.
      destruct (next_token st2) as [[tk s]| |]; cbn [nbind fst snd]; try reflexivity.
      match goal with |- context [matrix_loop ?a ?b ?c ?d ?e ?f ?g ?h ?i ?j ?k ?l ?m ?n ?o] =>
        destruct (matrix_loop a b c d e f g h i j k l m n o) as [[[tok st3] term]| |] end; cbn [nbind]; try reflexivity.
      match goal with |- context [if term then ?x else ?y] => destruct (if term then x else y) as [st4| |] end; cbn [nbind]; try reflexivity.
      cbn [fx_ildims]. rewrite andb_true_r. reflexivity. }
  all: match goal with
       | Hm2' : n_mats ?s2 = n_mats ?s1 ++ [?mm], Hn2' : n_nchar ?s2 = Some ?n, Dt' : n_dtype ?s1 = _ |- _ =>
         rewrite nbind_ret;
         match goal with |- context [NexusReader_process_discrete_matrix_data _ _ _ _ _ ?c s2] =>
           rewrite (gen_process_discrete_eq c s2 mm (n_mats s1) n Hm2' eq_refl Hn2' eq_refl) end;
         change (n_dtype s2) with (n_dtype s1); rewrite Dt'
       end;
       match goal with
       | |- context [dtype_is ?d "standard"] =>
         let v := eval vm_compute in (dtype_is d "standard") in change (dtype_is d "standard") with v
       end; cbv iota; cbn [nbind cb_alpha dtype_code]; try reflexivity.
  (* STANDARD: the alphabet is built from SYMBOLS / GAP / MISSING *)
  unfold py_build_state_alphabet.
  change (build_std_alphabet (mkFix false fxa false) upper lower (set_symbols st2 (n_symbols st2)))
    with (build_std_alphabet fx upper lower st2).
  destruct (build_std_alphabet fx upper lower st2) as [k| |]; reflexivity.
Qed.

End MatTop.

(* ---- the declared-versus-found theorems of Props/C20.v, for the GENERATED MATRIX statement ---- *)
Lemma gen_nexus_matrix_dims_l fxc fxa upper lower sym_ok is_float F st bt lt st' nc :
  0 <= nc ->
  NexusReader_parse_matrix_statement fxc fxa upper lower sym_ok is_float F bt lt st = ROk st' ->
  n_nchar st = Some nc ->
  exists m, n_mats st' = n_mats st ++ [m] /\ Forall (fun r => snd r = nc) (m_rows m).
Proof.
  intros H0 H Hn. rewrite gen_parse_matrix_eq in H.
  exact (nexus_matrix_dims_l (mkFix fxc fxa true) upper lower sym_ok is_float F st bt lt st' nc eq_refl H0 H Hn).
Qed.

Lemma gen_nexus_matrix_rows_l fxc fxa upper lower sym_ok is_float F st bt lt st' ntax :
  NexusReader_parse_matrix_statement fxc fxa upper lower sym_ok is_float F bt lt st = ROk st' ->
  n_ntax st = Some ntax ->
  exists m, n_mats st' = n_mats st ++ [m] /\ NoDup (map fst (m_rows m))
            /\ Z.of_nat (length (m_rows m)) <= Z.max ntax (Z.of_nat (length (tns_labels st (m_tns m)))).
Proof.
  intros H Hn. rewrite gen_parse_matrix_eq in H.
  exact (nexus_matrix_rows_l (mkFix fxc fxa true) upper lower sym_ok is_float F st bt lt st' ntax H Hn).
Qed.

(* non-vacuity: the generated MATRIX statement on a sequential and on an interleaved DNA matrix (NTAX=2 NCHAR=4) *)
Definition ex_state (il : bool) (text : string) : nstate :=
  upd_interleave (upd_dtype (upd_nchar (upd_ntax (init_nstate (s_of text)) (Some 2)) (Some 4)) DDna []) il.
Definition ex_run (il : bool) (text : string) : nr nstate :=
  NexusReader_parse_matrix_statement true true ascii_upper ascii_lower (fun _ _ => true) (fun _ => false) 200 None None (ex_state il text).
Definition ex_rows (r : nr nstate) : option (list (list (nat * Z))) :=
  match r with ROk st => Some (map m_rows (n_mats st)) | _ => None end.
Definition nl : string := String (ascii_of_nat 10) "".

Lemma gen_matrix_examples_l :
  ex_rows (ex_run false " A ACGT B AC GT ; END;") = Some [[(0%nat, 4); (1%nat, 4)]]
  /\ ex_rows (ex_run true (" A AC" ++ nl ++ "B AC" ++ nl ++ "A GT" ++ nl ++ " B GT" ++ nl ++ "; END;")) = Some [[(0%nat, 4); (1%nat, 4)]]
  /\ ex_run false " A ACGT B ACG ; END;" = RErr ParseErr                                   (* a short row *)
  /\ ex_run true (" A AC" ++ nl ++ "B AC" ++ nl ++ "A GT" ++ nl ++ "; END;") = RErr ParseErr       (* a short interleaved row *)
  /\ ex_run false " A ACGT B ACGT C ACGT ; END;" = RErr ParseErr.                            (* TooManyTaxaError *)
Proof. vm_compute. repeat split; reflexivity. Qed.
