(* C05, wave 8: exception safety of SplitDistribution.count_splits_on_tree, proved about the GENERATED code
   (Gen/SplitDist.v gen_count_splits_on_tree_exc: the statements that precede each refusal point are compiled
   from the AST, so the order of the tallies relative to the raising call is part of what is proved):
     gen_count_refused_foreign_l      refused by the namespace assert: the state is returned unchanged
     gen_count_refused_nonultra_l     refused by calc_node_ages: at most total_trees_counted differs (and does not
                                      decrease) - weight sum, counts, per-split lists, rooting set, caches unchanged
     gen_count_accepted_l             otherwise: the model's count_tree
     offers_equal_accepted_l          a history of offers with caught refusals leaves the distribution of the
                                      ACCEPTED trees alone (up to total_trees_counted)
     refused_history_frequencies_l    ... and reports exactly their weighted frequencies *)
From Coq Require Import ZArith QArith Qabs Qreduction List Bool Lia.
From DV Require Import Model.PyPrims Gen.BitFns Gen.Consts Model.C05Model Model.C05Spec Model.C05Model2
     Model.C05GenPrims Gen.SplitDist Model.C05Model5 Proofs.C05Lists Proofs.C05Freq Proofs.C05GenDist Proofs.C05GenDist2.
Import ListNotations.
Open Scope Z_scope.

Lemma gen_count_refused_foreign_l c x t b dl ages_ok :
  gen_count_splits_on_tree_exc c x t b dl false ages_ok = (x, Err AssertErr).
Proof. reflexivity. Qed.

Lemma gen_count_refused_nonultra_l c x t b dl :
  ignore_ages c = false ->
  exists n, total (x_sd x) <= n /\
    gen_count_splits_on_tree_exc c x t b dl true false = (upd_sd x (set_total (x_sd x) n), Err ValueErr).
Proof.
  intro H. unfold gen_count_splits_on_tree_exc, gen_count_splits_on_tree_ages_guard, c_ignore_node_ages.
  rewrite H. cbn [negb andb].
  destruct x as [[t0 w0 ro cn el ag fr cf] ls as_ cs].
  eexists. split; [|unfold gen_count_splits_on_tree_at_calc_node_ages; reflexivity].
  cbn. lia.
Qed.

Lemma gen_count_accepted_l c x t b ages_ok :
  ignore_ages c = true \/ ages_ok = true ->
  gen_count_splits_on_tree_exc c x t b (default_len c) true ages_ok
  = (upd_sd x (fst (count_tree c (x_sd x) t)), Ok (snd (count_tree c (x_sd x) t))).
Proof.
  intro H. unfold gen_count_splits_on_tree_exc, gen_count_splits_on_tree_ages_guard, c_ignore_node_ages.
  cbn [negb].
  assert (E : (negb (ignore_ages c) && negb ages_ok)%bool = false)
    by (destruct H as [H|H]; rewrite H; cbn; [reflexivity | apply andb_false_r]).
  rewrite E. rewrite gen_count_splits_on_tree_eq. reflexivity.
Qed.

(* satisfiable: the demo of the seeded change - a rooted 3-taxon tree offered to an age-tracking distribution
   that already counted it once *)
Definition ex_r_tree : tree_in :=
  mkTree [mkRec 1 (Some 1%Q) (Some 0%Q); mkRec 2 (Some 1%Q) (Some 0%Q); mkRec 3 (Some 1%Q) (Some 1%Q);
          mkRec 4 (Some 2%Q) (Some 0%Q); mkRec 7 None (Some 2%Q)] (Some 3%Q) (Some true) 7.
Definition ex_r_cfg : config := mkCfg false false true None.

Example gen_count_refused_example :
  let d := fst (count_tree ex_r_cfg sd_empty ex_r_tree) in
  let '(x, o) := gen_count_splits_on_tree_exc ex_r_cfg (mkSdx d None None 0) ex_r_tree false None true false in
  o = Err ValueErr /\ sum_w (x_sd x) = sum_w d /\ counts (x_sd x) = counts d /\ nages (x_sd x) = nages d
  /\ Qeq_bool (sum_w d) 3 = true.
Proof. vm_compute. repeat split. Qed.

(* ---------------------------------------------------------------- histories of offers *)

Lemma count_tree_set_total c d n t :
  fst (count_tree c (set_total d n) t) = set_total (fst (count_tree c d t)) (n + 1).
Proof.
  unfold count_tree, set_total. cbn [total sum_w rootings counts elens nages freqs counted_for_freqs].
  destruct (count_recs c (weight_to_use c t) (t_recs t) (counts d) (elens d) (nages d)) as [[cnt el] ag].
  reflexivity.
Qed.

Lemma set_total_twice d n m : set_total (set_total d n) m = set_total d m.
Proof. reflexivity. Qed.

Lemma offer_sd_accepted c d t r : refused c r = false ->
  fst (offer_sd c d t r) = fst (count_tree c d t).
Proof.
  intro H. unfold offer_sd.
  destruct r as [[|]|]; cbn [tree_flags refused] in *; try discriminate.
  - apply negb_false_iff in H.
    rewrite (gen_count_accepted_l c (mkSdx d None None 0) t false false (or_introl H)). reflexivity.
  - rewrite (gen_count_accepted_l c (mkSdx d None None 0) t false true (or_intror eq_refl)). reflexivity.
Qed.

Lemma offer_sd_refused c d t r : refused c r = true ->
  exists n, total d <= n /\ fst (offer_sd c d t r) = set_total d n.
Proof.
  intro H. unfold offer_sd.
  destruct r as [[|]|]; cbn [tree_flags refused] in *; try discriminate.
  - apply negb_true_iff in H.
    destruct (gen_count_refused_nonultra_l c (mkSdx d None None 0) t false (default_len c) H) as [n [L E]].
    rewrite E. exists n. split; [exact L | reflexivity].
  - rewrite gen_count_refused_foreign_l. exists (total d). split; [lia|]. destruct d; reflexivity.
Qed.

Lemma total_count_tree c d t : total (fst (count_tree c d t)) = total d + 1.
Proof. exact (proj1 (count_tree_fields c d t)). Qed.

Lemma offers_equal_accepted_gen c l : forall d n, total d <= n ->
  exists n', total (count_trees c d (accepted c l)) <= n' /\
             offer_all c (set_total d n) l = set_total (count_trees c d (accepted c l)) n'.
Proof.
  induction l as [|[t r] l IH]; intros d n L.
  - exists n. split; [exact L | reflexivity].
  - unfold offer_all, accepted in *. cbn [fold_left filter fst snd].
    destruct (refused c r) eqn:R; cbn [negb map].
    + destruct (offer_sd_refused c (set_total d n) t r R) as [m [Lm E]]. rewrite E, set_total_twice.
      apply IH. cbn [set_total total] in Lm. lia.
    + rewrite (offer_sd_accepted c _ t r R), count_tree_set_total.
      unfold count_trees. cbn [fold_left map fst].
      apply IH. rewrite total_count_tree. lia.
Qed.

Lemma offers_equal_accepted_l c l :
  exists n, total (count_trees c sd_empty (accepted c l)) <= n /\
            offer_all c sd_empty l = set_total (count_trees c sd_empty (accepted c l)) n.
Proof. exact (offers_equal_accepted_gen c l sd_empty 0 (Z.le_refl 0)). Qed.

Lemma freqs_count_trees c ts : forall d, freqs (count_trees c d ts) = freqs d.
Proof.
  induction ts as [|t r IH]; intro d; [reflexivity|].
  unfold count_trees in *. cbn [fold_left]. rewrite IH.
  exact (proj1 (proj2 (proj2 (proj2 (count_tree_fields c d t))))).
Qed.

Lemma refused_history_frequencies_l c l s :
  (forall t, In t (accepted c l) -> NoDup (splits_of t)) ->
  ~ (total_weight c (accepted c l) == 0)%Q ->
  (snd (query (offer_all c sd_empty l) s)
   == weight_containing c s (accepted c l) / total_weight c (accepted c l))%Q.
Proof.
  intros ND NZ.
  destruct (offers_equal_accepted_l c l) as [n [L E]]. rewrite E.
  set (ts := accepted c l) in *. set (f := count_trees c sd_empty ts) in *.
  pose proof (rep_counted c ts) as R. fold f in R.
  rewrite <- (freq_exact_l c ts s ND NZ). fold f.
  assert (F : freqs f = None) by (unfold f; rewrite freqs_count_trees; reflexivity).
  assert (SW : Qeq_bool (sum_w f) 0 = false).
  { rewrite (Qeq_bool_congr _ _ (rep_sum _ _ _ R)). destruct (Qeq_bool (total_weight c ts) 0) eqn:Q0; [|reflexivity].
    apply Qeq_bool_iff in Q0. contradiction. }
  assert (TP : 0 < total f).
  { rewrite (rep_total _ _ _ R). destruct ts as [|t0 r0]; [|cbn; lia].
    exfalso. apply NZ. reflexivity. }
  assert (FT : freq_table (set_total f n) = freq_table f).
  { unfold freq_table, normalization_weight. cbn [set_total total sum_w counts]. rewrite SW.
    destruct (n =? 0) eqn:N0; [apply Z.eqb_eq in N0; lia|].
    destruct (total f =? 0) eqn:T0; [apply Z.eqb_eq in T0; lia|]. reflexivity. }
  rewrite !query_snd. unfold get_freqs. cbn [set_total freqs]. rewrite F.
  unfold calc_freqs. cbn [snd]. rewrite FT. reflexivity.
Qed.

(* satisfiable and non-trivial: 3 accepted + 1 refused (the seeded demo): the clade keeps frequency 1 *)
Example refused_history_example :
  let l := [(ex_r_tree, None); (ex_r_tree, Some RNotUltrametric); (ex_r_tree, None); (ex_r_tree, Some RForeignNs);
            (ex_r_tree, None)] in
  List.length (accepted ex_r_cfg l) = 3%nat /\
  Qeq_bool (snd (query (offer_all ex_r_cfg sd_empty l) 3)) 1 = true /\
  Qeq_bool (sum_w (offer_all ex_r_cfg sd_empty l)) 9 = true.
Proof. vm_compute. repeat split. Qed.
