(* C10, copy protocol: theorems about histories over SEVERAL namespaces (Model/C10CopyModel.v).
   1. the invariant holds for every namespace of every reachable state
   2. frame: an operation on one namespace changes no other; creating / copying / comparing
      namespaces changes no existing one - lifted to histories (a copy is independent)
   3. what the copies preserve: TaxonNamespace(other) = copy.copy is record-equal to its source
      (same Taxon objects, order, accession indices, counter, memo, BOTH flags - the keywords
      is_mutable / is_case_sensitive are overridden); deep copy = fresh objects, same everything else
   4. sort / reverse change the member order only; the flag setters change that flag only
   5. a member's bit is stable per namespace whatever happens to the others *)
From Coq Require Import ZArith List Bool Lia Permutation.
From DV Require Import Model.PyPrims Model.C10Model Model.C10CopyModel
  Proofs.C10Lists Proofs.C10Inv Proofs.C10Bits.
Import ListNotations.
Open Scope Z_scope.

Definition MInv (mw : mworld) : Prop := Forall Inv (mw_nss mw).

(* ---------- lists ---------- *)

Lemma Forall_upd {A} (P : A -> Prop) (l : list A) k x : Forall P l -> P x -> Forall P (upd l k x).
Proof.
  intros F Px. revert k. induction F as [|y r Py F IH]; intros k; simpl; [constructor|].
  destruct k; constructor; auto.
Qed.

Lemma nth_error_upd_neq {A} (l : list A) k k' x : k <> k' -> nth_error (upd l k x) k' = nth_error l k'.
Proof.
  revert k k'. induction l as [|y r IH]; intros k k' N; simpl; [reflexivity|].
  destruct k, k'; simpl; try reflexivity; try congruence. apply IH. congruence.
Qed.

Lemma nth_error_upd_eq {A} (l : list A) k x y : nth_error l k = Some y -> nth_error (upd l k x) k = Some x.
Proof.
  revert k. induction l as [|z r IH]; intros k; destruct k; simpl; try discriminate; auto.
Qed.

Lemma length_upd {A} (l : list A) k x : length (upd l k x) = length l.
Proof. revert k. induction l as [|y r IH]; intros k; destruct k; simpl; auto. Qed.

Lemma nth_error_Forall {A} (P : A -> Prop) (l : list A) k x : Forall P l -> nth_error l k = Some x -> P x.
Proof. intros F H. apply nth_error_In in H. rewrite Forall_forall in F. auto. Qed.

Lemma nth_error_app_old {A} (l : list A) (x y : A) k : nth_error l k = Some x -> nth_error (l ++ [y]) k = Some x.
Proof. intros H. rewrite nth_error_app1; [exact H|]. apply nth_error_Some. congruence. Qed.

Lemma nth_error_app_new {A} (l : list A) (y : A) : nth_error (l ++ [y]) (length l) = Some y.
Proof. rewrite nth_error_app2, Nat.sub_diag by lia. reflexivity. Qed.

(* ---------- the memo of TaxonNamespace(other) maps every taxon to itself ---------- *)

Definition id_memo (m : list (tid * tid)) : Prop := forall t, ren m t = t.

Lemma memo_zip_id (l : list tid) : id_memo (memo_zip l l).
Proof.
  unfold memo_zip. assert (G : forall m, id_memo m -> id_memo (fold_left (fun m p => aset (snd p) (fst p) m) (combine l l) m)).
  { induction l as [|x r IH]; intros m Hm; cbn [combine fold_left]; [exact Hm|].
    apply IH. intros t. unfold ren. cbn [fst snd]. rewrite alookup_aset.
    destruct (Z.eqb_spec t x) as [E|E]; [symmetry; exact E| apply Hm]. }
  apply G. intros t. reflexivity.
Qed.

Lemma copy_fields_id (memo : list (tid * tid)) (other : ns) (m c : bool) tx : id_memo memo ->
  copy_fields memo other (mkNs tx [] [] 0 [] m c)
  = mkNs tx (acc other) (rev other) (count other) (bm other) (is_mut other) (is_cs other).
Proof.
  intros Hm. unfold copy_fields. cbn [taxa]. f_equal.
  - rewrite <- (map_id (acc other)) at 2. apply map_ext. intros [a b]. cbn [fst snd]. rewrite Hm. reflexivity.
  - rewrite <- (map_id (rev other)) at 2. apply map_ext. intros [a b]. cbn [fst snd]. rewrite Hm. reflexivity.
  - rewrite <- (map_id (bm other)) at 2. apply map_ext. intros [a b]. cbn [fst snd]. rewrite Hm. reflexivity.
Qed.

(* ---------- the add loop of the constructor ---------- *)

Lemma construct_items_taxa (l : list tid) : forall w,
  NoDup l -> is_mut (w_ns w) = true -> (forall t, In t l -> alookup t (acc (w_ns w)) = None) ->
  exists n, construct_items w (map ITaxon l) = Ok (mkW n (w_lab w) (w_next w))
    /\ taxa n = taxa (w_ns w) ++ l /\ is_mut n = true /\ is_cs n = is_cs (w_ns w).
Proof.
  induction l as [|t r IH]; intros w ND M F; cbn [map construct_items].
  - exists (w_ns w). destruct w; cbn. rewrite app_nil_r. auto.
  - inversion ND as [|? ? Nin ND']; subst.
    unfold add_taxon. rewrite (F t (or_introl eq_refl)), M. cbn [negb].
    match goal with |- context [set_ns w ?n] => set (n1 := n) end.
    destruct (IH (set_ns w n1) ND') as (n & E & T & Mn & Cn).
    + reflexivity.
    + intros t' H'. subst n1. cbn [set_ns w_ns acc]. rewrite alookup_aset_neq.
      * apply F. right. exact H'.
      * intros ->. contradiction.
    + exists n. cbn [set_ns w_lab w_next] in E. split; [exact E|].
      subst n1. cbn [set_ns w_ns taxa is_cs] in T, Cn. rewrite T, <- app_assoc. auto.
Qed.

Lemma construct_items_immutable (w : world) (x : item) (r : list item) :
  is_mut (w_ns w) = false -> (forall t, x = ITaxon t -> alookup t (acc (w_ns w)) = None) ->
  construct_items w (x :: r) = Err TypeErr.
Proof.
  intros M F. destruct x as [t|l]; cbn [construct_items].
  - unfold add_taxon. rewrite (F t eq_refl), M. reflexivity.
  - unfold new_taxon. rewrite M. reflexivity.
Qed.

Lemma construct_items_inv (l : list item) : forall w w',
  Inv (w_ns w) -> construct_items w l = Ok w' -> Inv (w_ns w').
Proof.
  induction l as [|x r IH]; intros w w' I; cbn [construct_items].
  - intros E; inversion E; subst; exact I.
  - destruct x as [t|lb].
    + destruct (add_taxon (w_ns w) t) eqn:A; try discriminate.
      apply IH. cbn [set_ns w_ns]. eapply add_taxon_inv; eauto.
    + destruct (new_taxon w lb) as [[w1 t]| |] eqn:N; try discriminate.
      apply IH. apply new_taxon_spec in N. destruct N as (_ & _ & A & _).
      eapply add_taxon_inv; eauto.
Qed.

(* ---------- 3a. TaxonNamespace(other [, is_mutable=, is_case_sensitive=]) ---------- *)

(* the new namespace IS the source record: same Taxon objects in the same order, the same
   accession index for each (so the same bit), the same counter and bitmask memo, and the
   source's is_mutable / is_case_sensitive - whatever the keywords said; no Taxon is created *)
Theorem construct_from_ns_exact (mw : mworld) (h : nat) (other : ns) (mut cs : option bool) :
  Inv other -> nth_error (mw_nss mw) h = Some other ->
  mut <> Some false \/ taxa other = [] ->
  construct mw (SNs h) mut cs = Ok (view mw other).
Proof.
  intros I H C. unfold construct. rewrite H.
  destruct (taxa other) as [|t0 r0] eqn:TX.
  - cbn [map construct_items]. unfold set_ns, view. cbn [w_ns w_lab w_next taxa combine].
    f_equal. f_equal. rewrite (copy_fields_id _ other _ _ [] (memo_zip_id [])). rewrite <- TX. apply ns_eta.
  - rewrite <- TX.
    assert (M : dflt true mut = true).
    { destruct C as [C|C]; [|congruence]. destruct mut as [[|]|]; try reflexivity. congruence. }
    destruct (construct_items_taxa (taxa other) (view mw (mkNs [] [] [] 0 [] (dflt true mut) (dflt false cs))))
      as (n & E & T & _).
    + apply (inv_nodup _ I).
    + exact M.
    + reflexivity.
    + rewrite E. cbn [view w_ns taxa app] in T.
      unfold set_ns, view. cbn [w_ns w_lab w_next]. f_equal. f_equal.
      rewrite T. destruct n as [tx ac rv c b m1 c1]. cbn [taxa] in T. subst tx.
      unfold copy_fields. cbn [taxa].
      pose proof (copy_fields_id _ other true false (taxa other) (memo_zip_id (taxa other))) as Q. unfold copy_fields in Q. cbn [taxa] in Q.
      rewrite Q. apply ns_eta.
Qed.

(* is_mutable=False together with a non-empty source: the add loop raises (TypeError), nothing is created *)
Theorem construct_from_ns_immutable_kw (mw : mworld) (h : nat) (other : ns) (cs : option bool) :
  nth_error (mw_nss mw) h = Some other -> taxa other <> [] ->
  construct mw (SNs h) (Some false) cs = Err TypeErr.
Proof.
  intros H NE. unfold construct. rewrite H. destruct (taxa other) as [|t r]; [congruence|].
  cbn [map]. rewrite construct_items_immutable; reflexivity.
Qed.

Lemma construct_ns_cases (mw : mworld) h other mut cs :
  Inv other -> nth_error (mw_nss mw) h = Some other ->
  construct mw (SNs h) mut cs = Ok (view mw other) \/ construct mw (SNs h) mut cs = Err TypeErr.
Proof.
  intros I H. destruct (taxa other) as [|t r] eqn:TX.
  - left. apply construct_from_ns_exact; auto.
  - destruct mut as [[|]|].
    + left. apply construct_from_ns_exact; auto. left. discriminate.
    + right. apply (construct_from_ns_immutable_kw mw h other cs H). congruence.
    + left. apply construct_from_ns_exact; auto. left. discriminate.
Qed.

Lemma construct_inv mw src mut cs w : MInv mw -> construct mw src mut cs = Ok w -> Inv (w_ns w).
Proof.
  intros I. destruct src as [|h|l].
  - cbn. intros E; inversion E; subst. apply Inv_empty.
  - unfold MInv in I. destruct (nth_error (mw_nss mw) h) as [other|] eqn:H.
    + pose proof (nth_error_Forall _ _ _ _ I H) as Io.
      destruct (construct_ns_cases mw h other mut cs Io H) as [E|E]; rewrite E; intros Q; inversion Q; subst.
      exact Io.
    + unfold construct. rewrite H. discriminate.
  - unfold construct. apply construct_items_inv. apply Inv_empty.
Qed.

Section WithLower.
Variable lower : lbl -> lbl.

(* ---------- 1. the invariant, for every namespace, along every history ---------- *)

Theorem mstep_inv (mw : mworld) (o : mop) : MInv mw -> MInv (fst (mstep lower mw o)).
Proof.
  intros I. unfold MInv in *. destruct o as [h o|src mut cs|h|h|h|h1 h2|h1 h2]; cbn [mstep].
  - destruct (nth_error (mw_nss mw) h) as [n|] eqn:H; [|exact I].
    pose proof (step_inv lower (view mw n) o (nth_error_Forall _ _ _ _ I H)) as S.
    destruct (step lower (view mw n) o) as [w' x]. cbn [fst mw_nss] in *. apply Forall_upd; assumption.
  - destruct (construct mw src mut cs) as [w| |] eqn:C; try exact I.
    cbn [push fst mw_nss]. apply Forall_app. split; [exact I|]. constructor; [|constructor].
    eapply construct_inv; eauto.
  - destruct (construct mw (SNs h) None None) as [w| |] eqn:C; try exact I.
    cbn [push fst mw_nss]. apply Forall_app. split; [exact I|]. constructor; [|constructor].
    eapply construct_inv; eauto.
  - destruct (nth_error (mw_nss mw) h) as [n|] eqn:H; [|exact I].
    cbn [push fst mw_nss]. apply Forall_app. split; [exact I|]. constructor; [|constructor].
    apply (deep_copy_inv (view mw n)). exact (nth_error_Forall _ _ _ _ I H).
  - destruct (nth_error (mw_nss mw) h); exact I.
  - destruct (nth_error (mw_nss mw) h1), (nth_error (mw_nss mw) h2); exact I.
  - destruct (nth_error (mw_nss mw) h1), (nth_error (mw_nss mw) h2); exact I.
Qed.

Theorem mrun_inv (mw : mworld) (ops : list mop) : MInv mw -> MInv (mrun_world lower mw ops).
Proof.
  revert mw. unfold mrun_world. induction ops as [|o r IH]; intros mw I; simpl; [exact I|].
  apply IH. apply mstep_inv. exact I.
Qed.

(* ---------- 2. frame ---------- *)

(* the namespace an operation may modify *)
Definition touches (o : mop) (h : nat) : Prop := exists o', o = MOn h o'.

Theorem mstep_frame (mw : mworld) (o : mop) (h : nat) (n : ns) :
  nth_error (mw_nss mw) h = Some n -> ~ touches o h ->
  nth_error (mw_nss (fst (mstep lower mw o))) h = Some n.
Proof.
  intros H NT. destruct o as [h0 o|src mut cs|h0|h0|h0|h1 h2|h1 h2]; cbn [mstep].
  - destruct (nth_error (mw_nss mw) h0) as [n0|] eqn:H0; [|exact H].
    destruct (step lower (view mw n0) o) as [w' x]. cbn [fst mw_nss].
    rewrite nth_error_upd_neq; [exact H|]. intros ->. apply NT. exists o. reflexivity.
  - destruct (construct mw src mut cs); try exact H. cbn [push fst mw_nss]. apply nth_error_app_old. exact H.
  - destruct (construct mw (SNs h0) None None); try exact H. cbn [push fst mw_nss]. apply nth_error_app_old. exact H.
  - destruct (nth_error (mw_nss mw) h0); [|exact H]. cbn [push fst mw_nss]. apply nth_error_app_old. exact H.
  - destruct (nth_error (mw_nss mw) h0); exact H.
  - destruct (nth_error (mw_nss mw) h1), (nth_error (mw_nss mw) h2); exact H.
  - destruct (nth_error (mw_nss mw) h1), (nth_error (mw_nss mw) h2); exact H.
Qed.

Theorem mrun_frame (mw : mworld) (ops : list mop) (h : nat) (n : ns) :
  nth_error (mw_nss mw) h = Some n -> Forall (fun o => ~ touches o h) ops ->
  nth_error (mw_nss (mrun_world lower mw ops)) h = Some n.
Proof.
  revert mw. unfold mrun_world. induction ops as [|o r IH]; intros mw H F; simpl; [exact H|].
  inversion F; subst. apply IH; [|assumption]. apply mstep_frame; assumption.
Qed.

(* namespaces are never destroyed and handles stay valid *)
Theorem mstep_handles (mw : mworld) (o : mop) :
  (length (mw_nss mw) <= length (mw_nss (fst (mstep lower mw o))))%nat.
Proof.
  destruct o as [h0 o|src mut cs|h0|h0|h0|h1 h2|h1 h2]; cbn [mstep].
  - destruct (nth_error (mw_nss mw) h0) as [n0|]; [|cbn [fst]; lia].
    destruct (step lower (view mw n0) o) as [w' x]. cbn [fst mw_nss]. rewrite length_upd. lia.
  - destruct (construct mw src mut cs); cbn [push fst mw_nss]; try rewrite app_length; lia.
  - destruct (construct mw (SNs h0) None None); cbn [push fst mw_nss]; try rewrite app_length; lia.
  - destruct (nth_error (mw_nss mw) h0); cbn [push fst mw_nss]; try rewrite app_length; lia.
  - destruct (nth_error (mw_nss mw) h0); cbn [fst]; lia.
  - destruct (nth_error (mw_nss mw) h1), (nth_error (mw_nss mw) h2); cbn [fst]; lia.
  - destruct (nth_error (mw_nss mw) h1), (nth_error (mw_nss mw) h2); cbn [fst]; lia.
Qed.

(* ---------- 3b. copy.copy / TaxonNamespace(other) as a step ---------- *)

Theorem copy_exact (mw : mworld) (h : nat) (n : ns) :
  Inv n -> nth_error (mw_nss mw) h = Some n ->
  mstep lower mw (MCopy h) = (mkMW (mw_nss mw ++ [n]) (mw_lab mw) (mw_next mw), MHandle (length (mw_nss mw)))
  /\ forall mut cs, mut <> Some false \/ taxa n = [] ->
       mstep lower mw (MConstruct (SNs h) mut cs) = mstep lower mw (MCopy h).
Proof.
  intros I H. assert (E : forall mut cs, mut <> Some false \/ taxa n = [] ->
     mstep lower mw (MConstruct (SNs h) mut cs)
     = (mkMW (mw_nss mw ++ [n]) (mw_lab mw) (mw_next mw), MHandle (length (mw_nss mw)))).
  { intros mut cs C. cbn [mstep]. rewrite (construct_from_ns_exact mw h n mut cs I H C). reflexivity. }
  split.
  - cbn [mstep]. rewrite (construct_from_ns_exact mw h n None None I H); [reflexivity| left; discriminate].
  - intros mut cs C. rewrite (E mut cs C). cbn [mstep].
    rewrite (construct_from_ns_exact mw h n None None I H); [reflexivity| left; discriminate].
Qed.

(* a copy is an independent namespace: after the copy, a history that does not address the
   original leaves the original exactly as it was, and a history that does not address the copy
   leaves the copy equal to the snapshot of the original - whatever is done to the other one
   (removals, additions, sorting, clearing, flag changes, further copies) *)
Theorem copy_independent (mw : mworld) (h : nat) (n : ns) (ops : list mop) :
  Inv n -> nth_error (mw_nss mw) h = Some n ->
  let mw1 := fst (mstep lower mw (MCopy h)) in
  let c := length (mw_nss mw) in
  c <> h
  /\ nth_error (mw_nss mw1) c = Some n
  /\ (Forall (fun o => ~ touches o h) ops -> nth_error (mw_nss (mrun_world lower mw1 ops)) h = Some n)
  /\ (Forall (fun o => ~ touches o c) ops -> nth_error (mw_nss (mrun_world lower mw1 ops)) c = Some n).
Proof.
  intros I H mw1 c. destruct (copy_exact mw h n I H) as [E _].
  assert (Hc : nth_error (mw_nss mw1) c = Some n).
  { unfold mw1, c. rewrite E. cbn [fst mw_nss]. apply nth_error_app_new. }
  assert (Hh : nth_error (mw_nss mw1) h = Some n).
  { unfold mw1. rewrite E. cbn [fst mw_nss]. apply nth_error_app_old. exact H. }
  split; [|split; [exact Hc|split]].
  - unfold c. intros Q. assert (h < length (mw_nss mw))%nat by (apply nth_error_Some; congruence). lia.
  - intros F. apply mrun_frame; assumption.
  - intros F. apply mrun_frame; assumption.
Qed.

(* ---------- 3c. deep copy ---------- *)

Theorem deepcopy_exact (mw : mworld) (h : nat) (n : ns) :
  Inv n -> nth_error (mw_nss mw) h = Some n ->
  let f := dc_ren (view mw n) in
  exists n', mstep lower mw (MDeepCopy h)
             = (mkMW (mw_nss mw ++ [n']) (w_lab (deep_copy (view mw n))) (w_next (deep_copy (view mw n))),
                MHandle (length (mw_nss mw)))
  /\ Inv n'
  /\ taxa n' = map f (taxa n)
  /\ (forall t, In t (taxa n) -> alookup (f t) (acc n') = alookup t (acc n))
  /\ (forall x i, alookup x (acc n') = Some i -> exists t, In t (taxa n) /\ x = f t /\ alookup t (acc n) = Some i)
  /\ (forall t, In t (taxa n) -> label_of (deep_copy (view mw n)) (f t) = label_of (view mw n) t)
  /\ (forall t, In t (taxa n) -> mw_next mw <= f t < w_next (deep_copy (view mw n)))
  /\ (forall t1 t2, In t1 (taxa n) -> In t2 (taxa n) -> f t1 = f t2 -> t1 = t2)
  /\ count n' = count n /\ is_mut n' = is_mut n /\ is_cs n' = is_cs n.
Proof.
  intros I H f. exists (w_ns (deep_copy (view mw n))). cbn [mstep]. rewrite H.
  split; [reflexivity|]. split; [apply (deep_copy_inv (view mw n)); exact I|].
  pose proof (deepcopy_preserves_bits_l lower (view mw n) I) as D. cbn [step fst] in D.
  exact D.
Qed.

(* ---------- 4. sort / reverse: order only; flag setters: that flag only ---------- *)

Theorem reorder_only_order (mw : mworld) (h : nat) (n : ns) (o : op) :
  nth_error (mw_nss mw) h = Some n -> (o = Reverse \/ exists r, o = Sort r) ->
  exists tx, fst (mstep lower mw (MOn h o))
             = mkMW (upd (mw_nss mw) h (mkNs tx (acc n) (rev n) (count n) (bm n) (is_mut n) (is_cs n)))
                    (mw_lab mw) (mw_next mw)
    /\ Permutation (taxa n) tx
    /\ tx = match o with Sort r => py_sort (view mw n) r (taxa n) | _ => List.rev (taxa n) end.
Proof.
  intros H [->|[r ->]]; cbn [mstep]; rewrite H; cbn [step view w_ns set_ns fst w_lab w_next].
  - eexists. split; [reflexivity|]. split; [apply Permutation_rev| reflexivity].
  - eexists. split; [reflexivity|]. split; [apply py_sort_perm| reflexivity].
Qed.

Theorem flag_setters_only_flag (mw : mworld) (h : nat) (n : ns) (b : bool) :
  nth_error (mw_nss mw) h = Some n ->
  mstep lower mw (MOn h (SetMutable b))
  = (mkMW (upd (mw_nss mw) h (mkNs (taxa n) (acc n) (rev n) (count n) (bm n) b (is_cs n))) (mw_lab mw) (mw_next mw), MBase OUnit)
  /\ mstep lower mw (MOn h (SetCS b))
  = (mkMW (upd (mw_nss mw) h (mkNs (taxa n) (acc n) (rev n) (count n) (bm n) (is_mut n) b)) (mw_lab mw) (mw_next mw), MBase OUnit).
Proof. intros H. cbn [mstep]. rewrite H. split; reflexivity. Qed.

(* ---------- 5. per-namespace bit stability in a multi-namespace history ---------- *)

(* the operations that re-bind a handle to a deep copy of its namespace (the single-namespace
   model's DeepCopy, kept for the first-wave histories) replace the members by fresh objects *)
Definition rebinding (o : mop) : Prop := exists h, o = MOn h DeepCopy.

Theorem mbit_stable (mw : mworld) (o : mop) (h : nat) (n n' : ns) (t : tid) (i : Z) :
  MInv mw -> ~ rebinding o ->
  nth_error (mw_nss mw) h = Some n -> In t (taxa n) -> alookup t (acc n) = Some i ->
  nth_error (mw_nss (fst (mstep lower mw o))) h = Some n' -> In t (taxa n') ->
  alookup t (acc n') = Some i.
Proof.
  intros I NR H M A H' M'.
  assert (Fr : ~ touches o h -> alookup t (acc n') = Some i).
  { intros NT. pose proof (mstep_frame mw o h n H NT) as Q. congruence. }
  destruct o as [h0 o|src mut cs|h0|h0|h0|h1 h2|h1 h2];
    try (apply Fr; intros [o' Q]; discriminate).
  destruct (Nat.eq_dec h0 h) as [->|N].
  - cbn [mstep] in H'. rewrite H in H'.
    pose proof (bit_stable_l lower (view mw n) o t i (nth_error_Forall _ _ _ _ I H)) as B.
    destruct (step lower (view mw n) o) as [w' x] eqn:S. cbn [fst mw_nss] in H', B.
    rewrite (nth_error_upd_eq _ _ _ _ H) in H'. inversion H'; subst n'.
    apply B; auto. intros ->. apply NR. exists h. reflexivity.
  - apply Fr. intros [o' Q]. inversion Q; subst. congruence.
Qed.

End WithLower.

(* ---------- non-vacuity: a concrete reachable multi-namespace state ---------- *)

Definition cx_lower (l : lbl) : lbl := if l =? 0 then 1 else l.      (* "A" -> "a" *)
Definition cx_mw0 : mworld := mkMW [] [(0, 2)] 1.                    (* one free Taxon "b" *)
Definition cx_ops : list mop :=
  [ MConstruct (SItems [ILabel 3; ITaxon 0; ILabel 0; ILabel 1; ITaxon 0]) None (Some true);  (* ns 0: c b A a *)
    MOn 0 (RemoveTaxon 2);               (* vacate index 1 *)
    MOn 0 (Sort false);                      (* order <> bit order *)
    MOn 0 (TaxonBitmask 1);                  (* memoise *)
    MOn 0 (SetMutable false);
    MCopy 0;                                 (* ns 1 *)
    MDeepCopy 0;                             (* ns 2 *)
    MOn 1 (SetMutable true);
    MOn 1 (NewTaxon 3);                      (* taxon 7 gets index 4 in ns 1 *)
    MOn 0 (SetMutable true);
    MOn 0 (NewTaxon 2);                      (* taxon 8 gets index 4 in ns 0 *)
    MOn 0 (AddTaxon 7);                      (* taxon 7 gets index 5 in ns 0: different bit than in ns 1 *)
    MOn 1 (RemoveTaxon 0);
    MOn 1 (Reverse) ].
Definition cx_mw : mworld := mrun_world cx_lower cx_mw0 cx_ops.

Example cx_state :
  map (observe_ns) (mw_nss cx_mw)
  = [ ([(3, 3); (0, 1); (1, 0); (8, 4); (7, 5)], (6, (true, true)));
      ([(7, 4); (1, 0); (3, 3)], (5, (true, true)));
      ([(4, 3); (5, 1); (6, 0)], (4, (false, true))) ].
Proof. vm_compute. reflexivity. Qed.

(* the same Taxon object carries different bits in two namespaces: bits are per namespace *)
Example cx_bits_per_namespace :
  exists a b, nth_error (mw_nss cx_mw) 0 = Some a /\ nth_error (mw_nss cx_mw) 1 = Some b
    /\ alookup 7 (acc a) = Some 5 /\ alookup 7 (acc b) = Some 4.
Proof. eexists. eexists. vm_compute. repeat split. Qed.

Example cx_minv : MInv cx_mw.
Proof. apply mrun_inv. constructor. Qed.

(* the hypotheses of construct_from_ns_exact / copy_exact hold at the copy point, and the keywords
   are overridden: TaxonNamespace(ns0, is_mutable=True, is_case_sensitive=False) of the immutable
   case-sensitive ns0 is immutable and case-sensitive *)
Example cx_kwargs_overridden :
  let mw := mrun_world cx_lower cx_mw0 (firstn 5 cx_ops) in
  exists n, nth_error (mw_nss mw) 0 = Some n /\ is_mut n = false /\ is_cs n = true /\ taxa n <> []
    /\ fst (mstep cx_lower mw (MConstruct (SNs 0) (Some true) (Some false)))
       = mkMW (mw_nss mw ++ [n]) (mw_lab mw) (mw_next mw)
    /\ mstep cx_lower mw (MConstruct (SNs 0) (Some false) None) = (mw, MBase (OErr TypeErr)).
Proof. eexists. vm_compute. repeat split. discriminate. Qed.
