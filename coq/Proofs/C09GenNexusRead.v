(* C09, bridge to the NEXUS matrix reader GENERATED from the source for property C20
   (py/dv/gen_nexuschars.py -> Gen/NexusChars.v, proved equal to C20's skeleton in Proofs/C20GenNexusMatrix*.v).

   C09's hand model of the NEXUS characters reader (Model/C09Nexus.v) works on TOKEN lists, keeps the states of every
   row and one namespace; the generated reader works on the CHARACTER-level reader state of Model/C20Nexus2.v
   (tokenizer inside the state) and abstracts a state to `unit` (C20 only needs row lengths).  The two meet in what
   both represent: the taxon namespace a MATRIX statement reads into.  This file proves the first piece of the bridge,
   the row-label step of the row loop:

     NexusReader._get_taxon (generated)  ~  C09Nexus.get_taxon (hand model)

   on related reader states (same namespace labels, same NTAX, labels compared case-insensitively): the same taxon
   index and the same namespace afterwards, or TooManyTaxaError (a DataParseError) on both sides. *)
From Coq Require Import ZArith List Bool Lia.
From DV Require Import Model.PyPrims Model.C09AlphaTypes Model.C09Model Model.C09Nexus.
From DV Require Model.Tokenizer Model.C20Model Model.C20Nexus2 Model.C20NexusPrims Model.C20NexusPrims2 Gen.NexusChars
  Proofs.C20NexusRows Proofs.C20GenNexusMatrix.
Import ListNotations.
Open Scope Z_scope.

(* the generated reader's state and C09's reader state describe the same namespace *)
Definition ns_rel (st : C20Nexus2.nstate) (ti : nat) (x : nx_state) : Prop :=
  C20Nexus2.tns_labels st ti = x_ns x /\ C20Nexus2.n_ntax st = x_ntax x /\ x_cs x = false
  /\ (ti < length (C20Nexus2.n_tns st))%nat.

Lemma list_eqb_sym (a b : list Z) : list_eqb Z.eqb a b = list_eqb Z.eqb b a.
Proof.
  revert b. induction a as [|x a IH]; intros [|y b]; try reflexivity. cbn [list_eqb]. rewrite Z.eqb_sym, IH. reflexivity.
Qed.

Lemma find_label_is_find_taxon (lower : text -> text) (label : text) : forall ns k,
  C20Nexus2.find_label lower label ns k = find_taxon lower false label ns k.
Proof.
  induction ns as [|l ns IH]; intro k; [reflexivity|].
  cbn [C20Nexus2.find_label find_taxon]. unfold C20Nexus2.label_eq, taxon_match, C20Nexus2.seqb, Tokenizer.str_eqb, text_eqb.
  rewrite (list_eqb_sym (lower l) (lower label)). destruct (list_eqb Z.eqb (lower label) (lower l)); [reflexivity | apply IH].
Qed.

Lemma ns_rel_add st ti x label : ns_rel st ti x ->
  ns_rel (C20Nexus2.tns_set_labels st ti (x_ns x ++ [label])) ti (set_ns x (x_ns x ++ [label])).
Proof.
  intros [R1 [R2 [R3 R4]]]. unfold ns_rel.
  rewrite (C20NexusRows.tns_labels_set _ _ _ R4), C20NexusRows.ntax_tns_set_labels, C20NexusRows.tns_length_set.
  repeat split; assumption.
Qed.

Lemma rest_tns_set_labels st i ls : C20Nexus2.n_rest (C20Nexus2.tns_set_labels st i ls) = C20Nexus2.n_rest st.
Proof. unfold C20Nexus2.tns_set_labels. destruct (nth_error (C20Nexus2.n_tns st) i) as [[t0 l0]|]; reflexivity. Qed.

Theorem gen_get_taxon_bridge (lower : text -> text) (label : text) (st : C20Nexus2.nstate) (ti : nat) (x : nx_state) :
  ns_rel st ti x ->
  match NexusChars.NexusReader_get_taxon lower ti (Some label) st, get_taxon lower x label with
  | C20Nexus2.ROk (i, st'), Ok (x', j) =>
      i = j /\ ns_rel st' ti x' /\ C20Nexus2.n_mats st' = C20Nexus2.n_mats st /\ C20Nexus2.n_rest st' = C20Nexus2.n_rest st
  | C20Nexus2.RErr e1, Err e2 => e1 = ParseErr /\ e2 = ParseErr
  | _, _ => False
  end.
Proof.
  intros R. pose proof (ns_rel_add st ti x label R) as RA. destruct R as [R1 [R2 [R3 R4]]].
  rewrite C20GenNexusMatrix.gen_get_taxon_eq. cbn [C20Nexus2.tok_text].
  unfold C20Nexus2.get_taxon, get_taxon. cbv zeta.
  rewrite find_label_is_find_taxon, R1, R2, R3.
  destruct (find_taxon lower false label (x_ns x) 0) as [i|].
  - split; [reflexivity|]. split; [|split; reflexivity]. unfold ns_rel. rewrite R3. repeat split; assumption.
  - unfold C20Model.zlen, len.
    assert (Added : length (x_ns x) = length (x_ns x) /\ ns_rel (C20Nexus2.tns_set_labels st ti (x_ns x ++ [label])) ti (set_ns x (x_ns x ++ [label]))
                    /\ C20Nexus2.n_mats (C20Nexus2.tns_set_labels st ti (x_ns x ++ [label])) = C20Nexus2.n_mats st
                    /\ C20Nexus2.n_rest (C20Nexus2.tns_set_labels st ti (x_ns x ++ [label])) = C20Nexus2.n_rest st).
    { split; [reflexivity|]. split; [exact RA|]. split; [apply C20NexusDims.mats_tns_set_labels | apply rest_tns_set_labels]. }
    unfold text, tok, Tokenizer.str in *.
    destruct (x_ntax x) as [n|]; [|exact Added].
    destruct (n =? 0); cbn [negb andb orb]; [exact Added|].
    match goal with |- context [negb (?c <? n)] => destruct (c <? n) end; cbn [negb]; [exact Added | split; reflexivity].
Qed.
