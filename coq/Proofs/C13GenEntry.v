(* C13 (wave 3, translator tie): the two entry points with offsets as compiled from the current source
   (Gen/Routes.v: g_tree_parse_and_create_from_stream, g_treelist_parse_and_create_from_stream), run on
   the reader whose NEXUS routine is the compiled _parse_nexus_stream, are the model's tree_get and
   treelist_get_off (all four variant flags at their current value, true). *)
From Coq Require Import ZArith List Bool Lia.
From Coq Require String. Import String.StringSyntax.
From DV Require Import Model.PyPrims Model.C13Model Model.C13GenPrims Gen.Routes Proofs.C13GenStmts
  Proofs.C13GenReader.
Import ListNotations.
Open Scope Z_scope.

Section S.
Variable T : Type.
Variables lower upper : str -> str.
Variable parse_tree : mapper -> tz -> res (option T * mapper * tz).
Variable set_label : T -> option str -> T.
Variable add_comments : T -> list str -> T.

(* What `dataio.get_reader(schema)` returns and what its read_tree_lists does (DataReader.read_tree_lists,
   <Reader>._read: hand-written glue): a fresh reader over the document with the route's namespace as
   namespace 0 and, for the pseudo-factory, the target list as list 0; NEXUS runs the COMPILED
   _parse_nexus_stream, NEWICK the model's reader; the product's tree lists are self._tree_lists. *)
Definition route_reader (sch : schema) : reader_obj T :=
  mkReader T false (fun attached tlf fuel d tl =>
    match sch with
    | Nexus =>
      do r <- g_parse_nexus_stream T lower upper parse_tree set_label add_comments
                (mkNsCfg attached (FacFixed true)) tlf false fuel
                (nexus_init T (mkCfg (mkNsCfg attached (FacFixed true)) tlf) [] d) tt ;;
      let s := snd r in
      Ok (rs_blocks T s, match tlf with TLFixed => tl ++ rs_list0 T s | TLNew => tl end)
    | Newick =>
      do r <- newick_read T lower parse_tree [] d ;;
      Ok ([fst r], match tlf with TLFixed => tl ++ fst r | TLNew => tl end)
    end).

Notation TG := (tree_get T lower upper parse_tree set_label add_comments true true true true).
Notation TLG := (treelist_get_off T lower upper parse_tree set_label add_comments true true true).

Theorem g_tree_entry_eq : forall sch (d : doc) c k,
  g_tree_parse_and_create_from_stream T set_label (doc_fuel d) tt (route_reader sch) d c k None
  = (do t <- TG sch c k d ;; Ok (t, tt)).
Proof.
  intros sch d c k.
  unfold g_tree_parse_and_create_from_stream, tree_get, read_blocks, ifc_read_tree_lists, rd_attach, route_reader.
  cbn [rd_run rd_attached].
  assert (E : forall (c' k' : Z),
    (do r4__ <- (do x <- (match sch with
                  | Nexus =>
                    do r <- g_parse_nexus_stream T lower upper parse_tree set_label add_comments
                              (mkNsCfg true (FacFixed true)) TLNew false (doc_fuel d)
                              (nexus_init T (mkCfg (mkNsCfg true (FacFixed true)) TLNew) [] d) tt ;;
                    let s := snd r in Ok (rs_blocks T s, @nil T)
                  | Newick => do r <- newick_read T lower parse_tree [] d ;; Ok ([fst r], @nil T)
                  end) ;; Ok (fst x, snd x, tt)) ;;
     let '(v_tree_lists, _, s) := r4__ in
     do r3__ <- (if negb (negb (is_nil v_tree_lists)) then Err ValueErr else Ok s) ;; let s0 := r3__ in
     match py_index v_tree_lists c' with
     | None => Err IndexErr
     | Some v_tree_list =>
       do r2__ <- (if negb (negb (is_nil v_tree_list)) then Err ValueErr else Ok s0) ;; let s1 := r2__ in
       match py_index v_tree_list k' with
       | None => Err IndexErr
       | Some v_tree =>
         do r1__ <- (if negb (o_is_none (@None str)) then
                       let v_tree0 := ifc_set_tree_label T set_label v_tree None in Ok (s1, v_tree0)
                     else Ok (s1, v_tree)) ;;
         let '(s2, v_tree0) := r1__ in Ok (v_tree0, s2)
       end
     end)
    = (do t <- (do r <- match sch with
                        | Newick => do r <- newick_read T lower parse_tree [] d ;; Ok ([fst r], snd r)
                        | Nexus => do s <- nexus_read T lower upper parse_tree set_label add_comments true true (cfg_blocks true) [] d ;;
                                   Ok (rs_blocks T s, rs_ns0 T s)
                        end ;;
                select_tree T set_label true (fst r) c' k') ;; Ok (t, tt))).
  { intros c' k'. destruct sch.
    - destruct (newick_read T lower parse_tree [] d) as [[ts ns]| |]; cbn [bind fst snd]; try reflexivity.
      unfold select_tree, got_label. cbn [is_nil negb bind o_is_none].
      destruct (py_index [ts] c') as [tl|]; [|reflexivity].
      rewrite negb_involutive. destruct (is_nil tl); cbn [bind]; [reflexivity|].
      destruct (py_index tl k'); reflexivity.
    - unfold nexus_read, cfg_blocks. cbn [c_ns c_tlfac]. rewrite g_parse_nexus_stream_eq.
      destruct (r_parse_nexus_stream T lower upper parse_tree set_label add_comments true
                  (mkNsCfg true (FacFixed true)) TLNew false true (doc_fuel d)
                  (nexus_init T (mkCfg (mkNsCfg true (FacFixed true)) TLNew) [] d)) as [s| |];
        cbn [bind fst snd]; try reflexivity.
      unfold select_tree, got_label. rewrite negb_involutive.
      destruct (is_nil (rs_blocks T s)); cbn [bind]; [reflexivity|].
      destruct (py_index (rs_blocks T s) c') as [tl|]; [|reflexivity].
      rewrite negb_involutive. destruct (is_nil tl); cbn [bind negb o_is_none]; [reflexivity|].
      destruct (py_index tl k'); reflexivity. }
  destruct c as [c'|], k as [k'|]; cbn [oz_is_none bind oz_get]; apply E.
Qed.

Theorem g_treelist_entry_eq : forall sch (d : doc) c k,
  g_treelist_parse_and_create_from_stream T (doc_fuel d) tt (route_reader sch) d c k []
  = (do l <- TLG sch c k d ;; Ok (l, tt)).
Proof.
  intros sch d c k.
  unfold g_treelist_parse_and_create_from_stream, treelist_get_off, ifc_read_tree_lists, rd_attach, route_reader, ifc_extend.
  cbn [rd_run rd_attached].
  assert (ALL : (do r1__ <- (do x <- (match sch with
                  | Nexus =>
                    do r <- g_parse_nexus_stream T lower upper parse_tree set_label add_comments
                              (mkNsCfg true (FacFixed true)) TLFixed false (doc_fuel d)
                              (nexus_init T (mkCfg (mkNsCfg true (FacFixed true)) TLFixed) [] d) tt ;;
                    let s := snd r in Ok (rs_blocks T s, [] ++ rs_list0 T s)
                  | Newick => do r <- newick_read T lower parse_tree [] d ;; Ok ([fst r], [] ++ fst r)
                  end) ;; Ok (fst x, snd x, tt)) ;;
                 let '(_, v_tree_list, s) := r1__ in Ok (s, v_tree_list))
               = (do r <- treelist_get T lower upper parse_tree set_label add_comments true true true sch d ;; Ok (tt, fst r))).
  { unfold treelist_get, treelist_read. destruct sch.
    - destruct (newick_read T lower parse_tree [] d) as [[ts ns]| |]; reflexivity.
    - unfold nexus_read, cfg_list. cbn [c_ns c_tlfac]. rewrite g_parse_nexus_stream_eq.
      destruct (r_parse_nexus_stream T lower upper parse_tree set_label add_comments true
                  (mkNsCfg true (FacFixed true)) TLFixed false true (doc_fuel d)
                  (nexus_init T (mkCfg (mkNsCfg true (FacFixed true)) TLFixed) [] d)) as [s| |]; reflexivity. }
  assert (OFF : forall (c' : Z) (k0 : option Z),
    (do r5__ <- (do x <- (match sch with
                  | Nexus =>
                    do r <- g_parse_nexus_stream T lower upper parse_tree set_label add_comments
                              (mkNsCfg true (FacFixed true)) TLNew false (doc_fuel d)
                              (nexus_init T (mkCfg (mkNsCfg true (FacFixed true)) TLNew) [] d) tt ;;
                    let s := snd r in Ok (rs_blocks T s, @nil T)
                  | Newick => do r <- newick_read T lower parse_tree [] d ;; Ok ([fst r], @nil T)
                  end) ;; Ok (fst x, snd x, tt)) ;;
     let '(v_tree_lists, v_tree_list, s) := r5__ in
     do r4__ <- (if (c' >=? len_z v_tree_lists) then Err IndexErr else Ok s) ;; let s0 := r4__ in
     match py_index v_tree_lists c' with
     | None => Err IndexErr
     | Some v_target_tree_list =>
       do r3__ <- (if negb (oz_is_none k0)
                   then do r2__ <- (if (oz_get k0 >=? len_z v_target_tree_list) then Err IndexErr else Ok s0) ;;
                        let s1 := r2__ in
                        let v_tree_list0 : list T := v_tree_list ++ py_slice_from v_target_tree_list (oz_get k0) in
                        Ok (s1, v_tree_list0)
                   else let v_tree_list0 : list T := v_tree_list ++ v_target_tree_list in Ok (s0, v_tree_list0)) ;;
       let '(s1, v_tree_list0) := r3__ in Ok (s1, v_tree_list0)
     end)
    = (do l <- (do r <- read_blocks T lower upper parse_tree set_label add_comments true true sch (cfg_blocks true) [] d ;;
                select_offsets T (fst r) c' k0) ;; Ok (tt, l))).
  { intros c' k0. unfold read_blocks, select_offsets, len_z.
    assert (SEL : forall bl : list (list T),
      (do r4__ <- (if (c' >=? Z.of_nat (length bl)) then Err IndexErr else Ok tt) ;; let s0 := r4__ in
       match py_index bl c' with
       | None => Err IndexErr
       | Some v_target_tree_list =>
         do r3__ <- (if negb (oz_is_none k0)
                     then do r2__ <- (if (oz_get k0 >=? Z.of_nat (length v_target_tree_list)) then Err IndexErr else Ok s0) ;;
                          let s1 := r2__ in
                          let v_tree_list0 : list T := [] ++ py_slice_from v_target_tree_list (oz_get k0) in
                          Ok (s1, v_tree_list0)
                     else let v_tree_list0 : list T := [] ++ v_target_tree_list in Ok (s0, v_tree_list0)) ;;
         let '(s1, v_tree_list0) := r3__ in Ok (s1, v_tree_list0)
       end)
      = (do l <- (if Z.of_nat (length bl) <=? c' then Err IndexErr
                  else match py_index bl c' with
                       | None => Err IndexErr
                       | Some tl => match k0 with
                                    | None => Ok tl
                                    | Some k => if Z.of_nat (length tl) <=? k then Err IndexErr else Ok (py_slice_from tl k)
                                    end
                       end) ;; Ok (tt, l))).
    { intros bl. rewrite Z.geb_leb. destruct (Z.of_nat (length bl) <=? c'); cbn [bind]; [reflexivity|].
      destruct (py_index bl c') as [tl|]; [|reflexivity].
      destruct k0 as [k'|]; cbn [oz_is_none negb oz_get bind app]; [|reflexivity].
      rewrite Z.geb_leb. destruct (Z.of_nat (length tl) <=? k'); reflexivity. }
    destruct sch.
    - destruct (newick_read T lower parse_tree [] d) as [[ts ns]| |]; cbn [bind fst snd]; try reflexivity. apply SEL.
    - unfold nexus_read, cfg_blocks. cbn [c_ns c_tlfac]. rewrite g_parse_nexus_stream_eq.
      destruct (r_parse_nexus_stream T lower upper parse_tree set_label add_comments true
                  (mkNsCfg true (FacFixed true)) TLNew false true (doc_fuel d)
                  (nexus_init T (mkCfg (mkNsCfg true (FacFixed true)) TLNew) [] d)) as [s| |];
        cbn [bind fst snd]; try reflexivity. apply SEL. }
  destruct c as [c'|], k as [k'|]; cbn [oz_is_none negb andb bind].
  - match goal with |- (do r6 <- ?B ;; _) = _ =>
      replace B with (do l <- (do r <- read_blocks T lower upper parse_tree set_label add_comments true true sch (cfg_blocks true) [] d ;;
                               select_offsets T (fst r) c' (Some k')) ;; Ok (tt, l)) by (symmetry; apply (OFF c' (Some k'))) end.
    destruct (read_blocks _ _ _ _ _ _ _ _ _ _ _ _) as [[bl ns]| |]; cbn [bind fst]; try reflexivity.
    destruct (select_offsets T bl c' (Some k')); reflexivity.
  - match goal with |- (do r6 <- ?B ;; _) = _ =>
      replace B with (do l <- (do r <- read_blocks T lower upper parse_tree set_label add_comments true true sch (cfg_blocks true) [] d ;;
                               select_offsets T (fst r) c' None) ;; Ok (tt, l)) by (symmetry; apply (OFF c' None)) end.
    destruct (read_blocks _ _ _ _ _ _ _ _ _ _ _ _) as [[bl ns]| |]; cbn [bind fst]; try reflexivity.
    destruct (select_offsets T bl c' None); reflexivity.
  - match goal with |- (do r6 <- ?B ;; _) = _ =>
      replace B with (do l <- (do r <- read_blocks T lower upper parse_tree set_label add_comments true true sch (cfg_blocks true) [] d ;;
                               select_offsets T (fst r) 0 (Some k')) ;; Ok (tt, l)) by (symmetry; apply (OFF 0 (Some k'))) end.
    destruct (read_blocks _ _ _ _ _ _ _ _ _ _ _ _) as [[bl ns]| |]; cbn [bind fst]; try reflexivity.
    destruct (select_offsets T bl 0 (Some k')); reflexivity.
  - match goal with |- (do r6 <- ?B ;; _) = _ =>
      replace B with (do r <- treelist_get T lower upper parse_tree set_label add_comments true true true sch d ;; Ok (tt, fst r))
        by (symmetry; apply ALL) end.
    destruct (treelist_get _ _ _ _ _ _ _ _ _ _ _) as [[l ns]| |]; reflexivity.
Qed.

End S.
