(* C13 (wave 3, translator tie): the two entry points with offsets as compiled from the current source
   (Gen/Routes.v: g_tree_parse_and_create_from_stream, g_treelist_parse_and_create_from_stream), run on
   the reader whose NEXUS routine is the compiled _parse_nexus_stream, are the model's tree_get and
   treelist_get_off (all four variant flags at their current value, true). *)
From Coq Require Import ZArith List Bool Lia.
From Coq Require String. Import String.StringSyntax.
From DV Require Import Model.PyPrims Model.C13Model Model.C13GenPrims Gen.Routes Proofs.C13GenStmts
  Proofs.C13GenReader Proofs.C13GenGlue.
Import ListNotations.
Open Scope Z_scope.

Section S.
Variable T : Type.
Variables lower upper : str -> str.
Variable parse_tree : mapper -> tz -> res (option T * mapper * tz).
Variable set_label : T -> option str -> T.
Variable add_comments : T -> list str -> T.

Notation route_reader := (route_reader T lower upper parse_tree set_label add_comments).
Notation NR := (nexus_read T lower upper parse_tree set_label add_comments true true).

Notation TG := (tree_get T lower upper parse_tree set_label add_comments true true true true).
Notation TLG := (treelist_get_off T lower upper parse_tree set_label add_comments true true true).

Theorem g_tree_entry_eq : forall sch (d : doc) c k,
  g_tree_parse_and_create_from_stream T set_label (doc_fuel d) tt (route_reader sch) d c k None
  = (do t <- TG sch c k d ;; Ok (t, tt)).
Proof.
  intros sch d c k.
  unfold g_tree_parse_and_create_from_stream, tree_get, read_blocks, ifc_read_tree_lists, rd_attach, C13GenGlue.route_reader, route_reader_ns.
  cbn [rd_run rd_attached]. rewrite route_run_ns_eq.
  assert (E : forall (c' k' : Z),
    (do r4__ <- (do x <- (match sch with
                  | Nexus =>
                    do s <- NR (mkCfg (mkNsCfg true (FacFixed true)) TLNew) [] d ;; Ok (rs_blocks T s, @nil T)
                  | Newick => do r <- newick_read T lower parse_tree [] d ;; Ok ([fst r], @nil T)
                  end) ;; Ok (fst x, snd x, tt)) ;;
     let '(v_tree_lists, _, s) := r4__ in
     do r3__ <- (if negb (negb (is_nil v_tree_lists)) then Err ValueErr else Ok s) ;; let s0 := r3__ in
     match py_index v_tree_lists c' with
     | None => Err IndexErr
     | Some v_tree_list =>
       do r2__ <- (if negb (negb (is_nil v_tree_list)) then Err ValueErr else Ok s0) ;; let s1 := r2__ in
       match py_index v_tree_list k' with
       | None => Err IndexErr
       | Some v_tree =>
         do r1__ <- (if negb (o_is_none (@None str)) then
                       let v_tree0 := ifc_set_tree_label T set_label v_tree None in Ok (s1, v_tree0)
                     else Ok (s1, v_tree)) ;;
         let '(s2, v_tree0) := r1__ in Ok (v_tree0, s2)
       end
     end)
    = (do t <- (do r <- match sch with
                        | Newick => do r <- newick_read T lower parse_tree [] d ;; Ok ([fst r], snd r)
                        | Nexus => do s <- nexus_read T lower upper parse_tree set_label add_comments true true (cfg_blocks true) [] d ;;
                                   Ok (rs_blocks T s, rs_ns0 T s)
                        end ;;
                select_tree T set_label true (fst r) c' k') ;; Ok (t, tt))).
  { intros c' k'. destruct sch.
    - destruct (newick_read T lower parse_tree [] d) as [[ts ns]| |]; cbn [bind fst snd]; try reflexivity.
      unfold select_tree, got_label. cbn [is_nil negb bind o_is_none].
      destruct (py_index [ts] c') as [tl|]; [|reflexivity].
      rewrite negb_involutive. destruct (is_nil tl); cbn [bind]; [reflexivity|].
      destruct (py_index tl k'); reflexivity.
    - unfold nexus_read, cfg_blocks. cbn [c_ns c_tlfac].
      destruct (r_parse_nexus_stream T lower upper parse_tree set_label add_comments true
                  (mkNsCfg true (FacFixed true)) TLNew false true (doc_fuel d)
                  (nexus_init T (mkCfg (mkNsCfg true (FacFixed true)) TLNew) [] d)) as [s| |];
        cbn [bind fst snd]; try reflexivity.
      unfold select_tree, got_label. rewrite negb_involutive.
      destruct (is_nil (rs_blocks T s)); cbn [bind]; [reflexivity|].
      destruct (py_index (rs_blocks T s) c') as [tl|]; [|reflexivity].
      rewrite negb_involutive. destruct (is_nil tl); cbn [bind negb o_is_none]; [reflexivity|].
      destruct (py_index tl k'); reflexivity. }
  destruct c as [c'|], k as [k'|]; cbn [oz_is_none bind oz_get]; apply E.
Qed.

Theorem g_treelist_entry_eq : forall sch (d : doc) c k,
  g_treelist_parse_and_create_from_stream T (doc_fuel d) tt (route_reader sch) d c k []
  = (do l <- TLG sch c k d ;; Ok (l, tt)).
Proof.
  intros sch d c k.
  unfold g_treelist_parse_and_create_from_stream, treelist_get_off, ifc_read_tree_lists, rd_attach, C13GenGlue.route_reader, route_reader_ns, ifc_extend.
  cbn [rd_run rd_attached]. rewrite !route_run_ns_eq.
  assert (ALL : (do r1__ <- (do x <- (match sch with
                  | Nexus =>
                    do s <- NR (mkCfg (mkNsCfg true (FacFixed true)) TLFixed) [] d ;; Ok (rs_blocks T s, [] ++ rs_list0 T s)
                  | Newick => do r <- newick_read T lower parse_tree [] d ;; Ok ([fst r], [] ++ fst r)
                  end) ;; Ok (fst x, snd x, tt)) ;;
                 let '(_, v_tree_list, s) := r1__ in Ok (s, v_tree_list))
               = (do r <- treelist_get T lower upper parse_tree set_label add_comments true true true sch d ;; Ok (tt, fst r))).
  { unfold treelist_get, treelist_read. destruct sch.
    - destruct (newick_read T lower parse_tree [] d) as [[ts ns]| |]; reflexivity.
    - unfold nexus_read, cfg_list. cbn [c_ns c_tlfac].
      destruct (r_parse_nexus_stream T lower upper parse_tree set_label add_comments true
                  (mkNsCfg true (FacFixed true)) TLFixed false true (doc_fuel d)
                  (nexus_init T (mkCfg (mkNsCfg true (FacFixed true)) TLFixed) [] d)) as [s| |]; reflexivity. }
  assert (OFF : forall (c' : Z) (k0 : option Z),
    (do r5__ <- (do x <- (match sch with
                  | Nexus =>
                    do s <- NR (mkCfg (mkNsCfg true (FacFixed true)) TLNew) [] d ;; Ok (rs_blocks T s, @nil T)
                  | Newick => do r <- newick_read T lower parse_tree [] d ;; Ok ([fst r], @nil T)
                  end) ;; Ok (fst x, snd x, tt)) ;;
     let '(v_tree_lists, v_tree_list, s) := r5__ in
     do r4__ <- (if (c' >=? len_z v_tree_lists) then Err IndexErr else Ok s) ;; let s0 := r4__ in
     match py_index v_tree_lists c' with
     | None => Err IndexErr
     | Some v_target_tree_list =>
       do r3__ <- (if negb (oz_is_none k0)
                   then do r2__ <- (if (oz_get k0 >=? len_z v_target_tree_list) then Err IndexErr else Ok s0) ;;
                        let s1 := r2__ in
                        let v_tree_list0 : list T := v_tree_list ++ py_slice_from v_target_tree_list (oz_get k0) in
                        Ok (s1, v_tree_list0)
                   else let v_tree_list0 : list T := v_tree_list ++ v_target_tree_list in Ok (s0, v_tree_list0)) ;;
       let '(s1, v_tree_list0) := r3__ in Ok (s1, v_tree_list0)
     end)
    = (do l <- (do r <- read_blocks T lower upper parse_tree set_label add_comments true true sch (cfg_blocks true) [] d ;;
                select_offsets T (fst r) c' k0) ;; Ok (tt, l))).
  { intros c' k0. unfold read_blocks, select_offsets, len_z.
    assert (SEL : forall bl : list (list T),
      (do r4__ <- (if (c' >=? Z.of_nat (length bl)) then Err IndexErr else Ok tt) ;; let s0 := r4__ in
       match py_index bl c' with
       | None => Err IndexErr
       | Some v_target_tree_list =>
         do r3__ <- (if negb (oz_is_none k0)
                     then do r2__ <- (if (oz_get k0 >=? Z.of_nat (length v_target_tree_list)) then Err IndexErr else Ok s0) ;;
                          let s1 := r2__ in
                          let v_tree_list0 : list T := [] ++ py_slice_from v_target_tree_list (oz_get k0) in
                          Ok (s1, v_tree_list0)
                     else let v_tree_list0 : list T := [] ++ v_target_tree_list in Ok (s0, v_tree_list0)) ;;
         let '(s1, v_tree_list0) := r3__ in Ok (s1, v_tree_list0)
       end)
      = (do l <- (if Z.of_nat (length bl) <=? c' then Err IndexErr
                  else match py_index bl c' with
                       | None => Err IndexErr
                       | Some tl => match k0 with
                                    | None => Ok tl
                                    | Some k => if Z.of_nat (length tl) <=? k then Err IndexErr else Ok (py_slice_from tl k)
                                    end
                       end) ;; Ok (tt, l))).
    { intros bl. rewrite Z.geb_leb. destruct (Z.of_nat (length bl) <=? c'); cbn [bind]; [reflexivity|].
      destruct (py_index bl c') as [tl|]; [|reflexivity].
      destruct k0 as [k'|]; cbn [oz_is_none negb oz_get bind app]; [|reflexivity].
      rewrite Z.geb_leb. destruct (Z.of_nat (length tl) <=? k'); reflexivity. }
    destruct sch.
    - destruct (newick_read T lower parse_tree [] d) as [[ts ns]| |]; cbn [bind fst snd]; try reflexivity. apply SEL.
    - unfold nexus_read, cfg_blocks. cbn [c_ns c_tlfac].
      destruct (r_parse_nexus_stream T lower upper parse_tree set_label add_comments true
                  (mkNsCfg true (FacFixed true)) TLNew false true (doc_fuel d)
                  (nexus_init T (mkCfg (mkNsCfg true (FacFixed true)) TLNew) [] d)) as [s| |];
        cbn [bind fst snd]; try reflexivity. apply SEL. }
  destruct c as [c'|], k as [k'|]; cbn [oz_is_none negb andb bind].
  - match goal with |- (do r6 <- ?B ;; _) = _ =>
      replace B with (do l <- (do r <- read_blocks T lower upper parse_tree set_label add_comments true true sch (cfg_blocks true) [] d ;;
                               select_offsets T (fst r) c' (Some k')) ;; Ok (tt, l)) by (symmetry; apply (OFF c' (Some k'))) end.
    destruct (read_blocks _ _ _ _ _ _ _ _ _ _ _ _) as [[bl ns]| |]; cbn [bind fst]; try reflexivity.
    destruct (select_offsets T bl c' (Some k')); reflexivity.
  - match goal with |- (do r6 <- ?B ;; _) = _ =>
      replace B with (do l <- (do r <- read_blocks T lower upper parse_tree set_label add_comments true true sch (cfg_blocks true) [] d ;;
                               select_offsets T (fst r) c' None) ;; Ok (tt, l)) by (symmetry; apply (OFF c' None)) end.
    destruct (read_blocks _ _ _ _ _ _ _ _ _ _ _ _) as [[bl ns]| |]; cbn [bind fst]; try reflexivity.
    destruct (select_offsets T bl c' None); reflexivity.
  - match goal with |- (do r6 <- ?B ;; _) = _ =>
      replace B with (do l <- (do r <- read_blocks T lower upper parse_tree set_label add_comments true true sch (cfg_blocks true) [] d ;;
                               select_offsets T (fst r) 0 (Some k')) ;; Ok (tt, l)) by (symmetry; apply (OFF 0 (Some k'))) end.
    destruct (read_blocks _ _ _ _ _ _ _ _ _ _ _ _) as [[bl ns]| |]; cbn [bind fst]; try reflexivity.
    destruct (select_offsets T bl 0 (Some k')); reflexivity.
  - match goal with |- (do r6 <- ?B ;; _) = _ =>
      replace B with (do r <- treelist_get T lower upper parse_tree set_label add_comments true true true sch d ;; Ok (tt, fst r))
        by (symmetry; apply ALL) end.
    destruct (treelist_get _ _ _ _ _ _ _ _ _ _ _) as [[l ns]| |]; reflexivity.
Qed.

(* TreeList.read(..) into an existing list (trees tl0) whose namespace holds ns0: the trees afterwards *)
Theorem g_treelist_read_eq : forall sch (ns0 : list str) (d : doc) (tl0 : list T),
  g_treelist_parse_and_create_from_stream T (doc_fuel d) tt
    (route_reader_ns T lower upper parse_tree set_label add_comments sch ns0) d None None tl0
  = (do r <- treelist_read T lower upper parse_tree set_label add_comments true true true sch ns0 d ;;
     Ok (tl0 ++ fst r, tt)).
Proof.
  intros sch ns0 d tl0.
  unfold g_treelist_parse_and_create_from_stream, ifc_read_tree_lists, rd_attach, route_reader_ns, treelist_read.
  cbn [oz_is_none negb andb bind rd_run rd_attached]. rewrite route_run_ns_eq.
  destruct sch.
  - destruct (newick_read T lower parse_tree ns0 d) as [[ts ns]| |]; reflexivity.
  - unfold cfg_list.
    destruct (nexus_read T lower upper parse_tree set_label add_comments true true
                (mkCfg (mkNsCfg true (FacFixed true)) TLFixed) ns0 d) as [s| |]; reflexivity.
Qed.

(* ---- DataSet._parse_and_create_from_stream ---- *)
(* DataSet.get(.., exclude_chars=True), with a taxon_namespace argument (a = true) or without *)
Theorem g_dataset_entry_eq : forall sch (d : doc) (a : bool),
  g_dataset_parse_and_create_from_stream T (doc_fuel d) tt (route_reader sch) d (attached_ns a) false true
  = (do bl <- dataset_get T lower upper parse_tree set_label add_comments true true sch a d ;;
     Ok ((attached_ns a, bl), tt)).
Proof.
  intros sch d a.
  unfold g_dataset_parse_and_create_from_stream, ifc_read_dataset, C13GenGlue.route_reader, route_reader_ns, ds_new, ds_attach.
  destruct a; cbn [attached_ns on_is_none negb bind fst snd rd_dataset rd_attached app].
  - pose proof (route_dataset_eq T lower upper parse_tree set_label add_comments sch true d) as R. cbn [attached_ns] in R. rewrite R.
    destruct (dataset_get _ _ _ _ _ _ _ _ _ _ _) as [bl| |]; reflexivity.
  - pose proof (route_dataset_eq T lower upper parse_tree set_label add_comments sch false d) as R. cbn [attached_ns] in R. rewrite R.
    destruct (dataset_get _ _ _ _ _ _ _ _ _ _ _) as [bl| |]; reflexivity.
Qed.

(* ---- TreeArray.read_from_files ---- *)
Lemma skipn_offset_step : forall (x : T) (l : list T) (k j : Z),
  (0 <= j)%Z ->
  (if (j >=? k)%Z then [x] else []) ++ skipn (Z.to_nat (k - (j + 1))) l = skipn (Z.to_nat (k - j)) (x :: l).
Proof.
  intros x l k j HJ. destruct (j >=? k)%Z eqn:E.
  - apply Z.geb_le in E. replace (Z.to_nat (k - (j + 1))) with O by lia. replace (Z.to_nat (k - j)) with O by lia. reflexivity.
  - rewrite Z.geb_leb in E. apply Z.leb_gt in E.
    replace (Z.to_nat (k - j)) with (S (Z.to_nat (k - (j + 1)))) by lia. reflexivity.
Qed.

Lemma treearray_loop : forall (Y : yielder_t T) (k : Z) (l : list T) (i0 j : Z) (added : list T),
  (0 <= j)%Z ->
  for_res (fun (acc__ : unit * option Z * option Z * list T) '(v_tree_idx, v_tree) =>
             let '(s, v_current_source_index, v_current_tree_offset, v_added) := acc__ in
             let v_current_yielder_index : Z := yl_file_index T Y in
             do r2__ <- (if negb (oz_eqb v_current_source_index v_current_yielder_index)
                         then Ok (s, Some v_current_yielder_index, Some 0%Z)
                         else Ok (s, v_current_source_index, v_current_tree_offset)) ;;
             let '(s, v_current_source_index, v_current_tree_offset) := r2__ in
             do r1__ <- (if (oz_get v_current_tree_offset >=? k)%Z then Ok (s, v_added ++ [v_tree]) else Ok (s, v_added)) ;;
             let '(s, v_added) := r1__ in
             Ok (s, v_current_source_index, oz_add v_current_tree_offset 1%Z, v_added))
          (enum_z_from i0 l) (tt, Some 0%Z, Some j, added)
  = Ok (tt, Some 0%Z, Some (j + Z.of_nat (length l))%Z, added ++ skipn (Z.to_nat (k - j)) l).
Proof.
  intros Y k; induction l as [|x l IH]; intros i0 j added HJ.
  - cbn [enum_z_from for_res length Z.of_nat]. rewrite Z.add_0_r.
    replace (skipn (Z.to_nat (k - j)) (@nil T)) with (@nil T) by (destruct (Z.to_nat (k - j)); reflexivity).
    rewrite app_nil_r. reflexivity.
  - cbn [enum_z_from for_res]. unfold yl_file_index. cbn [oz_eqb Z.eqb negb bind oz_get oz_add].
    destruct (j >=? k)%Z eqn:E; cbn [bind].
    + rewrite IH by lia.
      replace (j + 1 + Z.of_nat (length l))%Z with (j + Z.of_nat (length (x :: l)))%Z by (cbn [length]; lia).
      rewrite <- app_assoc, <- (skipn_offset_step x l k j HJ), E. reflexivity.
    + rewrite IH by lia.
      replace (j + 1 + Z.of_nat (length l))%Z with (j + Z.of_nat (length (x :: l)))%Z by (cbn [length]; lia).
      rewrite <- (skipn_offset_step x l k j HJ), E. reflexivity.
Qed.

(* TreeArray.read(.., tree_offset=k) = read_from_files([one file], ..): the trees passed to add_tree when the
   iterator is exhausted; the iterator's error otherwise *)
Theorem g_treearray_read_eq : forall (Y : yielder_t T) (k : Z) (added : list T) fuel,
  g_treearray_read_from_files T fuel tt Y k added
  = (do _ <- snd Y ;; Ok (tt, added ++ skipn (Z.to_nat k) (fst Y), tt)).
Proof.
  intros Y k added fuel. unfold g_treearray_read_from_files, yl_items, yl_end, enum_z.
  destruct (fst Y) as [|x l] eqn:EL.
  - cbn [enum_z_from for_res bind].
    replace (skipn (Z.to_nat k) (@nil T)) with (@nil T) by (destruct (Z.to_nat k); reflexivity).
    rewrite app_nil_r. destruct (snd Y) as [[]| |]; reflexivity.
  - (* the first tree: current_source_index None != 0 *)
    cbn [enum_z_from for_res]. unfold yl_file_index at 1. cbn [oz_eqb negb bind oz_get oz_add].
    pose proof (treearray_loop Y k l (0 + 1)%Z 1%Z) as L.
    destruct (0 >=? k)%Z eqn:E; cbn [bind Z.add].
    + match goal with |- context [for_res ?ff ?ll ?aa] =>
        replace (for_res ff ll aa)
          with (Ok (tt, Some 0%Z, Some (1 + Z.of_nat (length l))%Z, (added ++ [x]) ++ skipn (Z.to_nat (k - 1)) l))
          by (symmetry; exact (L (added ++ [x]) ltac:(lia))) end.
      cbn [bind].
      rewrite <- app_assoc. pose proof (skipn_offset_step x l k 0%Z (Z.le_refl _)) as SS. rewrite E in SS.
      cbn [Z.add] in SS. rewrite Z.sub_0_r in SS. rewrite SS.
      destruct (snd Y) as [[]| |]; reflexivity.
    + match goal with |- context [for_res ?ff ?ll ?aa] =>
        replace (for_res ff ll aa)
          with (Ok (tt, Some 0%Z, Some (1 + Z.of_nat (length l))%Z, added ++ skipn (Z.to_nat (k - 1)) l))
          by (symmetry; exact (L added ltac:(lia))) end.
      cbn [bind].
      pose proof (skipn_offset_step x l k 0%Z (Z.le_refl _)) as SS. rewrite E in SS.
      cbn [Z.add app] in SS. rewrite Z.sub_0_r in SS. rewrite SS.
      destruct (snd Y) as [[]| |]; reflexivity.
Qed.

End S.
