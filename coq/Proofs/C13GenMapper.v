(* C13 (wave 6): the compiled methods of NexusTaxonSymbolMapper (Gen/RoutesMapper.v) compute what the symbol
   mapper of Model/C13Model.v computes.

   mo_abs reads a mapper object as the model's record: the member labels of the namespace it refers to, the
   TRANSLATE table, the label table, the number table and the number-look-up switch.  A LIVE object
   (mo_live) is one after __init__ over a namespace that was mutable at that time: its
   taxon_namespace_original_mutability_state is True, so new_taxon may unlock the namespace.  *)
From Coq Require Import ZArith List Bool Lia.
From DV Require Import Model.PyPrims Model.C13Model Model.C13MapPrims Gen.RoutesMapper.
Import ListNotations.

Definition mo_abs (o : mobj) : mapper :=
  mkMapper (nso_taxa (mo_nso o)) (mo_token o) (mo_label o) (mo_number o) (mo_by_number o).
Definition mo_live (o : mobj) : Prop := mo_orig o = Some true /\ exists taxa, mo_ns o = Some (taxa, false).
(* the object a model mapper stands for (its write-only attribute number_taxon_label_map is `nl`) *)
Definition mo_of (nl : pdict str) (m : mapper) : mobj :=
  mkMobj (Some (m_ns m, false)) (Some true) (m_tokens m) (m_labels m) (m_numbers m) nl (m_by_number m).

Lemma mo_abs_of : forall nl m, mo_abs (mo_of nl m) = m.
Proof. intros nl [a b c d e]. reflexivity. Qed.
Lemma mo_of_live : forall nl m, mo_live (mo_of nl m).
Proof. intros nl m. split; [reflexivity | exists (m_ns m); reflexivity]. Qed.
Lemma mo_live_of : forall o, mo_live o -> o = mo_of (mo_number_label o) (mo_abs o).
Proof.
  intros [ns orig tk lb nb nl bn] [H1 [taxa H2]]. cbn in H1, H2. subst. reflexivity.
Qed.

Section GenMapper.
Variable lower : str -> str.

(* ---- the two loops of reset_supplemental_mappings / label_taxon_map as maps ---- *)
Lemma label_map_fold : forall (l : list (nat * str)) (d : pdict nat),
  fold_left (fun d p => cid_set lower d (snd p) (fst p)) l d
  = rev (map (fun p => (lower (snd p), fst p)) l) ++ d.
Proof.
  induction l as [|p l IH]; intros d; [reflexivity|].
  cbn [fold_left map rev]. rewrite IH. unfold cid_set. rewrite <- app_assoc. reflexivity.
Qed.

Lemma nso_label_taxon_map_eq : forall taxa b,
  nso_label_taxon_map lower (taxa, b) = rev (map (fun p => (lower (snd p), fst p)) (enum_from O taxa)).
Proof.
  intros. unfold nso_label_taxon_map, nso_taxa, d_empty. cbn [fst]. rewrite label_map_fold. apply app_nil_r.
Qed.

Definition number_step (o : mobj) (p : nat * str) : mobj :=
  let v_idx := fst p in let v_taxon := fst p in let v_taxon__label := snd p in
  let v_s := py_str_nat (v_idx + 1)%nat in
  let o := set_mo_number o (d_set (mo_number o) v_s v_taxon) in
  let o := set_mo_number_label o (d_set (mo_number_label o) v_s v_taxon__label) in
  o.

Lemma number_fold : forall (l : list (nat * str)) (o : mobj),
  fold_left number_step l o
  = mkMobj (mo_ns o) (mo_orig o) (mo_token o) (mo_label o)
           (rev (map (fun p => (dec_of_nat (S (fst p)), fst p)) l) ++ mo_number o)
           (rev (map (fun p => (dec_of_nat (S (fst p)), snd p)) l) ++ mo_number_label o)
           (mo_by_number o).
Proof.
  induction l as [|p l IH]; intros o; [destruct o; reflexivity|].
  cbn [fold_left map rev]. rewrite IH. unfold number_step, py_str_nat, d_set.
  cbn [set_mo_number set_mo_number_label mo_ns mo_orig mo_token mo_label mo_number mo_number_label mo_by_number].
  rewrite Nat.add_1_r, <- !app_assoc. reflexivity.
Qed.

(* ---- __init__ (with _set_taxon_namespace, reset_supplemental_mappings, restore_.. ) = new_mapper ---- *)
(* whatever the object held before, after NexusTaxonSymbolMapper(taxon_namespace=<taxa, is_mutable = mut>,
   enable_lookup_by_taxon_number=b) it holds: the namespace LOCKED, the mutability it had, an empty TRANSLATE
   table, the label and number tables of new_mapper, the switch b *)
Theorem G_mapper_init : forall (o0 : mobj) (taxa : list str) (mut b : bool),
  gm_init lower o0 (taxa, mut) b
  = Ok (tt, mkMobj (Some (taxa, false)) (Some mut)
                   (m_tokens (new_mapper lower taxa b)) (m_labels (new_mapper lower taxa b))
                   (m_numbers (new_mapper lower taxa b))
                   (rev (map (fun p => (dec_of_nat (S (fst p)), snd p)) (enum_from O taxa))) b).
Proof.
  intros. unfold gm_init, gm_set_taxon_namespace.
  cbn [set_mo_ns set_mo_orig set_mo_token set_mo_label set_mo_number set_mo_number_label set_mo_by_number
       mo_ns mo_orig mo_token mo_label mo_number mo_number_label mo_by_number ob_is_none negb].
  unfold gm_reset_supplemental_mappings.
  change (fun (o : mobj) (p__ : nat * str) => _) with number_step.
  cbn [bind]. unfold mo_set_mutable, mo_nso, nso_mutable, nso_taxa, cid_copy, d_clear, d_empty, nso_enumerate.
  cbn [set_mo_ns set_mo_orig set_mo_token set_mo_label set_mo_number set_mo_number_label set_mo_by_number
       mo_ns mo_orig mo_token mo_label mo_number mo_number_label mo_by_number fst snd].
  rewrite number_fold.
  cbn [mo_ns mo_orig mo_token mo_label mo_number mo_number_label mo_by_number].
  rewrite nso_label_taxon_map_eq, !app_nil_r. reflexivity.
Qed.

Corollary G_mapper_init_abs : forall o0 taxa mut b,
  exists o, gm_init lower o0 (taxa, mut) b = Ok (tt, o)
            /\ mo_abs o = new_mapper lower taxa b
            /\ mo_ns o = Some (taxa, false) /\ mo_orig o = Some mut.
Proof.
  intros. eexists. split; [apply G_mapper_init|]. repeat split.
Qed.

(* ---- add_translate_token ---- *)
Theorem G_mapper_add_translate_token : forall (o : mobj) (tok : str) (taxon : nat),
  gm_add_translate_token lower o tok taxon = Ok (tt, set_mo_token o ((lower tok, taxon) :: mo_token o))
  /\ mo_abs (set_mo_token o ((lower tok, taxon) :: mo_token o)) = add_translate_token lower (mo_abs o) tok taxon.
Proof. intros. split; reflexivity. Qed.

(* ---- new_taxon ---- *)
Theorem G_mapper_new_taxon : forall (nl : pdict str) (m : mapper) (label : str),
  gm_new_taxon lower (mo_of nl m) label
  = Ok (fst (mapper_new_taxon lower m label), mo_of nl (snd (mapper_new_taxon lower m label))).
Proof.
  intros nl [ns tk lb nb bn] label. unfold gm_new_taxon, mo_of, mapper_new_taxon.
  cbn [m_ns m_tokens m_labels m_numbers m_by_number fst snd].
  unfold mo_set_mutable, mo_nso, nso_new_taxon, nso_mutable, nso_taxa.
  cbn [set_mo_ns set_mo_orig set_mo_token set_mo_label set_mo_number set_mo_number_label set_mo_by_number
       mo_ns mo_orig mo_token mo_label mo_number mo_number_label mo_by_number fst snd bind].
  unfold cid_set, d_set, py_str_nat. rewrite app_length. cbn [length]. rewrite Nat.add_1_r. reflexivity.
Qed.

(* a namespace that was NOT mutable when the mapper was created cannot grow through it:
   ImmutableTaxonNamespaceError (a TypeError) *)
Theorem G_mapper_new_taxon_locked : forall (o : mobj) (label : str),
  mo_orig o = Some false \/ mo_orig o = None ->
  gm_new_taxon lower o label = Err TypeErr.
Proof.
  intros o label H. unfold gm_new_taxon, mo_set_mutable, nso_new_taxon, mo_nso, nso_mutable.
  destruct H as [H|H]; rewrite H; reflexivity.
Qed.

(* ---- lookup_taxon_symbol: token table, label table, number table (if switched on), new taxon (if asked) ---- *)
Theorem G_mapper_lookup_taxon_symbol : forall (nl : pdict str) (m : mapper) (sym : str) (create : bool),
  gm_lookup_taxon_symbol lower (mo_of nl m) sym create
  = Ok (fst (lookup_taxon_symbol lower m sym create), mo_of nl (snd (lookup_taxon_symbol lower m sym create))).
Proof.
  intros nl m sym create. unfold gm_lookup_taxon_symbol, lookup_taxon_symbol, cid_get, d_get.
  change (mo_token (mo_of nl m)) with (m_tokens m).
  change (mo_label (mo_of nl m)) with (m_labels m).
  change (mo_number (mo_of nl m)) with (m_numbers m).
  change (mo_by_number (mo_of nl m)) with (m_by_number m).
  destruct (assoc (lower sym) (m_tokens m)); [reflexivity|].
  destruct (assoc (lower sym) (m_labels m)); [reflexivity|].
  destruct (m_by_number m).
  - destruct (assoc sym (m_numbers m)); [reflexivity|].
    destruct create; [|reflexivity]. rewrite G_mapper_new_taxon. reflexivity.
  - destruct create; [|reflexivity]. rewrite G_mapper_new_taxon. reflexivity.
Qed.

Lemma require_is_lookup : forall m sym,
  lookup_taxon_symbol lower m sym true
  = (Some (fst (require_taxon_for_symbol lower m sym)), snd (require_taxon_for_symbol lower m sym)).
Proof.
  intros. unfold lookup_taxon_symbol, require_taxon_for_symbol.
  destruct (assoc (lower sym) (m_tokens m)); [reflexivity|].
  destruct (assoc (lower sym) (m_labels m)); [reflexivity|].
  destruct (if m_by_number m then assoc sym (m_numbers m) else None); reflexivity.
Qed.

(* ---- require_taxon_for_symbol: what the statement parser receives as taxon_symbol_map_fn ---- *)
Theorem G_mapper_require_taxon_for_symbol : forall (nl : pdict str) (m : mapper) (sym : str),
  gm_require_taxon_for_symbol lower (mo_of nl m) sym
  = Ok (Some (fst (require_taxon_for_symbol lower m sym)), mo_of nl (snd (require_taxon_for_symbol lower m sym))).
Proof.
  intros. unfold gm_require_taxon_for_symbol. rewrite G_mapper_lookup_taxon_symbol, require_is_lookup. reflexivity.
Qed.

(* the same on any live object *)
Corollary G_mapper_require_live : forall (o : mobj) (sym : str),
  mo_live o ->
  exists o', gm_require_taxon_for_symbol lower o sym = Ok (Some (fst (require_taxon_for_symbol lower (mo_abs o) sym)), o')
             /\ mo_abs o' = snd (require_taxon_for_symbol lower (mo_abs o) sym) /\ mo_live o'.
Proof.
  intros o sym H. pose proof (G_mapper_require_taxon_for_symbol (mo_number_label o) (mo_abs o) sym) as G.
  rewrite <- (mo_live_of o H) in G. rewrite G.
  eexists. split; [reflexivity|]. split; [apply mo_abs_of | apply mo_of_live].
Qed.

End GenMapper.
