(* C12: the invariant of the deep-copy interpreter and its preservation by the state primitives.

   Fixed throughout: the source heap h0 (its objects are numbered below n0 = hlen h0) and the memo
   seeds.  "Fresh" = numbered from n0 upwards (allocated by the copy).  "Shared" = a seed or an atomic
   object of the source heap: the only source objects a copy may refer to. *)
From Coq Require Import ZArith List Bool Lia.
From DV Require Import Model.PyPrims Model.C12Model Proofs.C12Heap.
Import ListNotations.
Open Scope Z_scope.

Section Inv.
Variable h0 : heap.
Variable seeds : list Z.
Notation n0 := (hlen h0).

Definition Shared (b : Z) : Prop := 0 <= b < n0 /\ (In b seeds \/ is_atomic h0 b = true).

Definition vok (hl : Z) (v : val) : Prop :=
  match v with P _ => True | R b => (n0 <= b < hl) \/ Shared b end.

Definition vsrc (v : val) : Prop := match v with P _ => True | R x => 0 <= x < n0 end.

Definition ref_ok (h : heap) (v : val) (kd : kind) : Prop :=
  forall o, v = R o -> n0 <= o /\ kind_at h o = Some kd.

Record Inv (s : st) : Prop := mkInv {
  i_len : n0 <= hlen (sh s);
  i_old : forall o, o < n0 -> hget (sh s) o = hget h0 o;
  i_memo : forall x y, alookup x (sm s) = Some y ->
           0 <= x < n0 /\ vok (hlen (sh s)) (R y) /\ (y < n0 -> y = x);
  i_fresh : forall y ob k v, n0 <= y -> hget (sh s) y = Some ob -> In (k, v) (obody ob) ->
            vok (hlen (sh s)) k /\ vok (hlen (sh s)) v;
  i_ann : forall y ob, n0 <= y -> hget (sh s) y = Some ob ->
          (is_annk (okind ob) = true -> forall v, bget (obody ob) NM_ANN = Some v -> ref_ok (sh s) v KAnnSet)
          /\ (okind ob = KAnnSet ->
              (forall v, bget (obody ob) NM_ILIST = Some v -> ref_ok (sh s) v KList)
              /\ (forall v, bget (obody ob) NM_ISET = Some v -> ref_ok (sh s) v KSet))
}.

Definition Ext (s s' : st) : Prop :=
  hlen (sh s) <= hlen (sh s')
  /\ (forall k, alookup k (sm s) <> None -> alookup k (sm s') <> None)
  /\ (forall o kd, kind_at (sh s) o = Some kd -> kind_at (sh s') o = Some kd).

Lemma ext_refl : forall s, Ext s s.
Proof. intro s. repeat split; auto. lia. Qed.

Lemma ext_trans : forall a b c, Ext a b -> Ext b c -> Ext a c.
Proof. intros a b c [A1 [A2 A3]] [B1 [B2 B3]]. repeat split; auto. lia. Qed.

Lemma vok_mono : forall hl hl' v, hl <= hl' -> vok hl v -> vok hl' v.
Proof. intros hl hl' [p|b] H V; simpl in *; auto. destruct V as [V|V]; [left; lia | right; assumption]. Qed.

Lemma vok_prim : forall hl p, vok hl (P p).
Proof. intros. exact I. Qed.

Lemma kind_at_app : forall h l o kd, kind_at h o = Some kd -> kind_at (h ++ l) o = Some kd.
Proof.
  unfold kind_at. intros h l o kd H. destruct (hget h o) eqn:E; [|discriminate].
  rewrite hget_app_old; [rewrite E; assumption|]. apply hget_Some_range in E. lia.
Qed.

Lemma ref_ok_prim : forall h p kd, ref_ok h (P p) kd.
Proof. intros h p kd o H. discriminate. Qed.

Lemma ref_ok_ext : forall s s' v kd, Ext s s' -> ref_ok (sh s) v kd -> ref_ok (sh s') v kd.
Proof. intros s s' v kd [_ [_ K]] H o E. destruct (H o E) as [A B]. split; auto. Qed.

(* ---- measure: source objects not yet memoised ------------------------------------------------ *)

Definition unmemo (m : list (Z * Z)) (i : nat) : bool :=
  match alookup (Z.of_nat i) m with None => true | Some _ => false end.

Definition U (s : st) : nat := length (filter (unmemo (sm s)) (seq 0 (length h0))).

Lemma filter_le : forall (l : list nat) p q, (forall x, In x l -> q x = true -> p x = true) ->
  (length (filter q l) <= length (filter p l))%nat.
Proof.
  induction l as [|a r IH]; simpl; intros p q H; [lia|].
  assert (IHr := IH p q (fun x Hx => H x (or_intror Hx))).
  destruct (q a) eqn:Q.
  - rewrite (H a (or_introl eq_refl) Q). simpl. lia.
  - destruct (p a); simpl; lia.
Qed.

Lemma filter_lt : forall (l : list nat) p q a, (forall x, In x l -> q x = true -> p x = true) ->
  In a l -> p a = true -> q a = false ->
  (length (filter q l) < length (filter p l))%nat.
Proof.
  induction l as [|b r IH]; simpl; intros p q a H I Pa Qa; [contradiction|].
  assert (Hr : forall x, In x r -> q x = true -> p x = true) by (intros; apply H; auto).
  destruct I as [I|I].
  - subst b. rewrite Pa, Qa. simpl. assert (L := filter_le r p q Hr). lia.
  - assert (L := IH p q a Hr I Pa Qa). destruct (q b) eqn:Q.
    + rewrite (H b (or_introl eq_refl) Q). simpl. lia.
    + destruct (p b); simpl; lia.
Qed.

Lemma U_mono : forall s s', Ext s s' -> (U s' <= U s)%nat.
Proof.
  intros s s' [_ [K _]]. unfold U. apply filter_le. intros x _ Q. unfold unmemo in *.
  destruct (alookup (Z.of_nat x) (sm s)) eqn:E; [|reflexivity].
  exfalso. assert (A : alookup (Z.of_nat x) (sm s') <> None) by (apply K; congruence).
  destruct (alookup (Z.of_nat x) (sm s')); [discriminate | congruence].
Qed.

Lemma U_strict : forall s s' x, Ext s s' -> 0 <= x < n0 ->
  alookup x (sm s) = None -> alookup x (sm s') <> None -> (U s' < U s)%nat.
Proof.
  intros s s' x [_ [K _]] R N N'. unfold U.
  apply filter_lt with (a := Z.to_nat x).
  - intros y _ Q. unfold unmemo in *. destruct (alookup (Z.of_nat y) (sm s)) eqn:E; [|reflexivity].
    exfalso. assert (A : alookup (Z.of_nat y) (sm s') <> None) by (apply K; congruence).
    destruct (alookup (Z.of_nat y) (sm s')); [discriminate | congruence].
  - apply in_seq. unfold hlen in R. lia.
  - unfold unmemo. rewrite Z2Nat.id by lia. rewrite N. reflexivity.
  - unfold unmemo. rewrite Z2Nat.id by lia. destruct (alookup x (sm s')); [reflexivity | congruence].
Qed.

(* ---- primitives preserve the invariant --------------------------------------------------------- *)

Lemma ext_alloc : forall s x, Ext s (fst (alloc s x)).
Proof.
  intros s x. unfold Ext. simpl. rewrite hlen_app1. repeat split; auto; [lia|].
  intros o kd H. apply kind_at_app. assumption.
Qed.

Lemma kind_alloc_new : forall s x, kind_at (sh (fst (alloc s x))) (hlen (sh s)) = Some (okind x).
Proof. intros. simpl. unfold kind_at. rewrite hget_app_new. reflexivity. Qed.

Lemma inv_alloc : forall s x, Inv s ->
  (forall k v, In (k, v) (obody x) -> vok (hlen (sh s) + 1) k /\ vok (hlen (sh s) + 1) v) ->
  (is_annk (okind x) = true -> forall v, bget (obody x) NM_ANN = Some v -> ref_ok (sh s ++ [x]) v KAnnSet) ->
  (okind x = KAnnSet ->
     (forall v, bget (obody x) NM_ILIST = Some v -> ref_ok (sh s ++ [x]) v KList)
     /\ (forall v, bget (obody x) NM_ISET = Some v -> ref_ok (sh s ++ [x]) v KSet)) ->
  Inv (fst (alloc s x)).
Proof.
  intros s x [L O M F A] HB HA HS. constructor; simpl.
  - rewrite hlen_app1. lia.
  - intros o Ho. rewrite hget_app_old by lia. apply O. assumption.
  - intros a b E. destruct (M a b E) as [M1 [M2 M3]]. split; [lia|]. split; [|assumption].
    apply (vok_mono (hlen (sh s)) (hlen (sh s ++ [x])) (R b)); [|exact M2]. rewrite hlen_app1. lia.
  - intros y ob k v Hy G I. rewrite hlen_app1.
    destruct (Z.eq_dec y (hlen (sh s))) as [E|E].
    + subst y. rewrite hget_app_new in G. inversion G; subst ob. apply HB. assumption.
    + assert (R0 := hget_Some_range _ _ _ G). rewrite hlen_app1 in R0.
      rewrite hget_app_old in G by lia. destruct (F y ob k v Hy G I) as [F1 F2].
      split; eapply vok_mono; try eassumption; lia.
  - intros y ob Hy G.
    assert (RE : forall v kd, ref_ok (sh s) v kd -> ref_ok (sh s ++ [x]) v kd).
    { intros v kd H o E. destruct (H o E). split; auto. apply kind_at_app. assumption. }
    destruct (Z.eq_dec y (hlen (sh s))) as [E|E].
    + subst y. rewrite hget_app_new in G. inversion G; subst ob. split; auto.
    + assert (R0 := hget_Some_range _ _ _ G). rewrite hlen_app1 in R0.
      rewrite hget_app_old in G by lia. destruct (A y ob Hy G) as [A1 A2]. split.
      * intros K v B. apply RE. eapply A1; eassumption.
      * intros K. destruct (A2 K) as [A3 A4]. split; intros v B; apply RE; eauto.
Qed.

Lemma inv_alloc_empty : forall s c kd, Inv s -> Inv (fst (alloc s (mkObj c kd []))).
Proof.
  intros. apply inv_alloc; auto; simpl; try contradiction; intros; try discriminate.
  split; intros; discriminate.
Qed.

Lemma ext_put : forall s y k v, Ext s (put s y k v).
Proof.
  intros. unfold Ext. rewrite put_hlen, put_sm. repeat split; auto; [lia|].
  intros o kd H. rewrite put_kind. assumption.
Qed.

Definition put_side (s : st) (y : Z) (k v : val) : Prop :=
  forall ob, hget (sh s) y = Some ob ->
    (is_annk (okind ob) = true -> k = NM_ANN -> ref_ok (sh s) v KAnnSet)
    /\ (okind ob = KAnnSet -> (k = NM_ILIST -> ref_ok (sh s) v KList) /\ (k = NM_ISET -> ref_ok (sh s) v KSet)).

Lemma ref_ok_put : forall s y k v w kd, ref_ok (sh s) w kd -> ref_ok (sh (put s y k v)) w kd.
Proof. intros s y k v w kd H o E. destruct (H o E). split; auto. rewrite put_kind. assumption. Qed.

Lemma inv_put : forall s y k v, Inv s -> n0 <= y ->
  vok (hlen (sh s)) k -> vok (hlen (sh s)) v -> put_side s y k v -> Inv (put s y k v).
Proof.
  intros s y k v [L O M F A] Hy Vk Vv PS. constructor.
  - rewrite put_hlen. assumption.
  - intros o Ho. rewrite put_get_other by lia. apply O. assumption.
  - rewrite put_sm, put_hlen. assumption.
  - rewrite put_hlen. intros o ob k' v' Ho G I.
    apply put_get_inv in G. destruct G as [[_ G]|[E [x [G Eo]]]].
    + eapply F; eassumption.
    + subst o ob. simpl in I. apply In_bset in I. destruct I as [I|I].
      * inversion I; subst. auto.
      * eapply F; eassumption.
  - intros o ob Ho G. apply put_get_inv in G. destruct G as [[_ G]|[E [x [G Eo]]]].
    + destruct (A o ob Ho G) as [A1 A2]. split.
      * intros K w B. apply ref_ok_put. eapply A1; eassumption.
      * intros K. destruct (A2 K). split; intros w B; apply ref_ok_put; eauto.
    + subst o ob. simpl. destruct (A y x Ho G) as [A1 A2]. destruct (PS x G) as [P1 P2]. split.
      * intros K w B. apply ref_ok_put. destruct (val_eqb NM_ANN k) eqn:E.
        -- apply val_eqb_eq in E. subst k. rewrite bget_bset_same in B. inversion B; subst. auto.
        -- apply val_eqb_neq in E. rewrite bget_bset_other in B by assumption. eapply A1; eassumption.
      * intros K. destruct (A2 K) as [A3 A4]. destruct (P2 K) as [P3 P4]. split; intros w B; apply ref_ok_put.
        -- destruct (val_eqb NM_ILIST k) eqn:E.
           ++ apply val_eqb_eq in E. subst k. rewrite bget_bset_same in B. inversion B; subst. auto.
           ++ apply val_eqb_neq in E. rewrite bget_bset_other in B by assumption. eauto.
        -- destruct (val_eqb NM_ISET k) eqn:E.
           ++ apply val_eqb_eq in E. subst k. rewrite bget_bset_same in B. inversion B; subst. auto.
           ++ apply val_eqb_neq in E. rewrite bget_bset_other in B by assumption. eauto.
Qed.

(* the side condition is void when the key is none of the three names, or by the kind of y *)
Lemma put_side_key : forall s y k v, k <> NM_ANN -> k <> NM_ILIST -> k <> NM_ISET -> put_side s y k v.
Proof. intros s y k v H1 H2 H3 ob _. split; [|split]; intros; contradiction. Qed.

Lemma put_side_kind : forall s y k v kd, kind_at (sh s) y = Some kd ->
  (is_annk kd = true -> k <> NM_ANN) -> kd <> KAnnSet -> put_side s y k v.
Proof.
  intros s y k v kd K H1 H2 ob G. unfold kind_at in K. rewrite G in K. inversion K; subst kd.
  split; [|intro; contradiction]. intros A E. exfalso. apply H1; assumption.
Qed.

Lemma ext_memo_set : forall s a b, Ext s (memo_set s a b).
Proof.
  intros. unfold Ext. simpl. repeat split; auto; [lia|].
  intros k H. destruct (Z.eqb k a); [discriminate | assumption].
Qed.

Lemma inv_memo_set : forall s a b, Inv s -> 0 <= a < n0 -> vok (hlen (sh s)) (R b) -> (b < n0 -> b = a) ->
  Inv (memo_set s a b).
Proof.
  intros s a b [L O M F A] Ha Vb E. constructor; simpl; auto.
  intros x y H. destruct (Z.eqb x a) eqn:X.
  - apply Z.eqb_eq in X. inversion H; subst. auto.
  - apply M. assumption.
Qed.

Lemma ext_note : forall s a b, Ext s (note s a b).
Proof. intros. unfold Ext. simpl. repeat split; auto. lia. Qed.

Lemma inv_note : forall s a b, Inv s -> Inv (note s a b).
Proof. intros s a b [L O M F A]. constructor; simpl; auto. Qed.

Lemma ext_set_none : forall s, Ext s (set_none s).
Proof. intros. unfold Ext. simpl. repeat split; auto. lia. Qed.

Lemma inv_set_none : forall s, Inv s -> Inv (set_none s).
Proof. intros s [L O M F A]. constructor; simpl; auto. Qed.

(* result of copying a source value v: a prim is returned as is; a reference becomes a fresh object or
   stays the same shared object *)
Definition res_ok (hl : Z) (v v' : val) : Prop :=
  match v' with
  | P p => v = P p
  | R y => (n0 <= y < hl) \/ (Shared y /\ v = R y)
  end.

Lemma res_ok_vok : forall hl v v', res_ok hl v v' -> vok hl v'.
Proof. intros hl v [p|y] H; simpl in *; auto. destruct H as [H|[H _]]; auto. Qed.

Lemma ext_memo_val : forall s v v', Ext s (memo_val s v v').
Proof.
  intros s [p|a] [q|b]; simpl; try apply ext_refl; try apply ext_memo_set;
    destruct p; try apply ext_refl; apply ext_set_none.
Qed.

Lemma inv_memo_val : forall s v v', Inv s -> vsrc v -> res_ok (hlen (sh s)) v v' -> Inv (memo_val s v v').
Proof.
  intros s [p|a] [q|b] I V Rk; simpl in *; auto; try (destruct p; auto using inv_set_none).
  apply inv_memo_set; auto.
  - destruct Rk as [Rk|[Rk _]]; [left; assumption | right; assumption].
  - intro Hb. destruct Rk as [Rk|[_ Rk]]; [lia | congruence].
Qed.

End Inv.
