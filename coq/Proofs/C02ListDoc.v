(* C02 (tree lists): a whole Newick document written by _write_tree_list, read back by tree_iter. *)
From Coq Require Import ZArith List Bool Lia Arith.
From DV Require Import Model.PyPrims Gen.CharClasses Model.Tokenizer Model.Newick Model.C02Spec Model.C02ListSpec
     Proofs.C02Tok Proofs.C02Escape Proofs.C02Lex Proofs.C02Parse Proofs.C02Resolve
     Proofs.C02ListParse Proofs.C02ListMap.
Import ListNotations.
Open Scope Z_scope.

Section ListDoc.
Variable L : Type.
Variable render_len : L -> str.
Variable parse_len : str -> option L.
Variable lower : str -> str.
Hypothesis len_roundtrip : forall x, parse_len (render_len x) = Some x.
Hypothesis len_plain : forall x, render_len x <> [] /\ forallb numeral_char (render_len x) = true.
Variable o : rt_opts.

Notation ro := (rt_ropts o).
Notation wo := (rt_wopts o).
Notation cfg := (nexus_cfg (rt_pu o)).
Notation ntree := (ntree L).
Notation ptree := (ptree L).
Notation wtoks := (wtoks L render_len o).
Notation wf := (wf_tree L o).

Definition stmt_toks (r : option bool) (t : ntree) : list token :=
  add_comments (rooting_comments o r) (wtoks true t ++ [T [SEMI] false]).

Definition doc_toks (ts : list (option bool * ntree)) : list token :=
  flat_map (fun rt => stmt_toks (fst rt) (snd rt)) ts.

(* ---- A. tokens of the document ---- *)
Lemma tokenize_skip c r : zmem c tok_uncaptured_delimiters = true -> tokenize cfg (c :: r) = tokenize cfg r.
Proof.
  intro Hc. rewrite (tokenize_unfold cfg (c :: r)), (tokenize_unfold cfg r).
  rewrite (next_token_skip o c r Hc).
  destruct (next_token cfg r) as [cs|e| |t q cs rest] eqn:E; try reflexivity.
Qed.

Lemma tokenize_statement r t R Rtoks : wf t = true ->
  tokenize cfg R = (Rtoks, EndEof []) ->
  tokenize cfg ((write_tree L render_len wo r t ++ [NEWLINE]) ++ R) = (stmt_toks r t ++ Rtoks, EndEof []).
Proof.
  intros Hwf HR. unfold write_tree, stmt_toks.
  set (body := write_node L render_len wo true t ++ SEMI :: NEWLINE :: R).
  replace (((rooting_token wo r ++ write_node L render_len wo true t ++ [SEMI]) ++ [NEWLINE]) ++ R)
    with (rooting_token wo r ++ body) by (unfold body; rewrite <- !app_assoc; reflexivity).
  assert (TAIL : tokenize cfg (SEMI :: NEWLINE :: R) = (T [SEMI] false :: Rtoks, EndEof [])).
  { rewrite tokenize_unfold. rewrite (next_captured (rt_pu o) SEMI _ semi_cap).
    rewrite (tokenize_skip NEWLINE R newline_unc). rewrite HR. reflexivity. }
  assert (BODY : tokenize cfg body = (wtoks true t ++ T [SEMI] false :: Rtoks, EndEof [])).
  { unfold body. rewrite (lex_node L render_len len_plain o t Hwf true (SEMI :: NEWLINE :: R));
      [| simpl; apply semi_cap | discriminate].
    rewrite TAIL. reflexivity. }
  destruct (wtoks_nonempty_head L render_len o t true Hwf) as [tk [rest Ew]].
  assert (PREF : forall tkn rc, (forall s, next_token cfg (tkn ++ s) = wrap_comments [rc] (next_token cfg s)) ->
            tokenize cfg (tkn ++ body) = (add_comments [rc] (wtoks true t ++ [T [SEMI] false]) ++ Rtoks, EndEof [])).
  { intros tkn rc Hp. rewrite tokenize_unfold. rewrite Hp.
    rewrite tokenize_unfold in BODY. rewrite Ew in *. simpl app in *.
    destruct (next_token cfg body) as [cs|e| |tx q cs rst]; try discriminate.
    cbn [wrap_comments]. destruct (tokenize cfg rst) as [l e].
    injection BODY as A1 A2 A3 A4 El Ee.
    rewrite A1, A2, A3, A4, El, Ee.
    unfold add_comments, T. cbn [t_text t_quoted t_comments t_eof]. simpl app. rewrite <- app_assoc. reflexivity. }
  unfold rooting_token, rooting_comments. change (wo_suppress_rooting wo) with (rt_sr o).
  destruct (rt_sr o).
  - simpl app. rewrite BODY. rewrite Ew. simpl. rewrite <- app_assoc. reflexivity.
  - destruct r as [[|]|].
    + apply PREF. apply rooted_prefix.
    + apply PREF. apply unrooted_prefix.
    + simpl app. rewrite BODY. rewrite Ew. simpl. rewrite <- app_assoc. reflexivity.
Qed.

Theorem tokenize_doc : forall ts, forallb (fun rt => wf (snd rt)) ts = true ->
  tokenize cfg (write_tree_list L render_len wo ts) = (doc_toks ts, EndEof []).
Proof.
  induction ts as [|[r t] ts IH]; intro Hwf.
  - destruct (rt_pu o); vm_compute; reflexivity.
  - simpl in Hwf. apply andb_true_iff in Hwf. destruct Hwf as [Ht Hts].
    unfold write_tree_list, doc_toks. cbn [flat_map fst snd].
    apply tokenize_statement; [exact Ht | apply IH; exact Hts].
Qed.

(* ---- B. one statement ---- *)
Notation parse_tree_statement := (parse_tree_statement L parse_len lower ro).
Notation tree_iter := (tree_iter L parse_len lower ro).
Notation expectM := (expectM L lower o).
Notation noclashM := (noclashM L lower o).
Notation expectL := (expectL L lower o).
Notation HKt := (HKt L parse_len lower o).

(* the reader state between two statements: positioned on the first token of the next one (its
   rooting comment pending), or at the end of the stream *)
Definition Bst (toks : list token) (seen : list nat) (m : mapper) : pstate :=
  match toks with
  | tk :: rest => mkPS (Some (t_text tk)) (t_eof tk) (t_comments tk) rest (EndEof []) 0 true seen m
  | [] => K_final seen m
  end.

Lemma HK_semi_gen toks : HKt [SEMI] toks (EndEof []) 0 (Bst toks).
Proof.
  intros isint lp nd f2 seen2 m2 Hf. destruct f2 as [|f2]; [lia|].
  destruct nd as [a b c d]. destruct toks as [|tk rest]; cbn; rewrite app_nil_r; reflexivity.
Qed.

(* the next token is not a ';' *)
Definition starts_ok (toks : list token) : Prop :=
  match toks with
  | tk :: _ => match t_text tk with [x] => x =? SEMI | _ => false end = false
  | [] => True
  end.

Lemma skip_trailing_Bst F toks seen m : starts_ok toks -> (1 <= F)%nat ->
  skip_trailing F (Bst toks seen m) = Ok (Bst toks seen m).
Proof.
  intros Hs HF. destruct F as [|F]; [lia|]. destruct toks as [|tk rest]; [reflexivity|].
  cbn [skip_trailing Bst cur_is ps_cur]. simpl in Hs. rewrite Hs. reflexivity.
Qed.

(* after the leading-semicolon loop the statement proper *)
Lemma pts_core F st r t s q rest R n0 b0 s0 m :
  wtoks true t = T s q :: rest ->
  skip_semicolons F (snd (pull_comments st)) (fst (pull_comments st))
    = Ok (rooting_comments o r, St s (rest ++ T [SEMI] false :: R) (EndEof []) n0 b0 s0 m) ->
  wf t = true -> (need L t <= F)%nat -> (1 <= F)%nat ->
  noclashM t ([], m) = true -> starts_ok R ->
  parse_tree_statement F st
  = Ok (Some (mkPR (expected_rooting o r) [] (fst (expectM t ([], m)))),
        Bst R (fst (snd (expectM t ([], m)))) (snd (snd (expectM t ([], m))))).
Proof.
  intros Ew Hskip Hwf HF H1 Hnc HR.
  destruct (wtoks_head L render_len lower o t Hwf) as [s' [q' [rest' [Ew' Hcur]]]].
  rewrite Ew in Ew'. injection Ew' as E1 E2 E3. subst s' q' rest'.
  pose proof (PnodeM_all L render_len parse_len lower len_roundtrip o t F [SEMI] false R (EndEof []) 0 false [] m None
               (Bst R) Hwf HF Hnc (or_introl eq_refl) (HK_semi_gen R)) as HP.
  rewrite Ew in HP. simpl app in HP. cbn [ST t_text T] in HP.
  destruct (Hcur (EndEof []) n0 b0 s0 m (rest ++ T [SEMI] false :: R)) as [C1 [C2 [C3 C4]]].
  unfold Newick.parse_tree_statement.
  destruct (pull_comments st) as [tc st']. cbn [fst snd] in Hskip. rewrite Hskip. cbn [bind].
  change (ps_eof (St s (rest ++ T [SEMI] false :: R) (EndEof []) n0 b0 s0 m)) with false. cbv iota.
  rewrite C4. rewrite process_rooting.
  change (set_seen_map (set_complete (set_nesting (St s (rest ++ T [SEMI] false :: R) (EndEof []) n0 b0 s0 m)
                                                  (if negb (is_leafb L t) then 1 else 0)) false) []
                       (ps_map (set_nesting (St s (rest ++ T [SEMI] false :: R) (EndEof []) n0 b0 s0 m)
                                            (if negb (is_leafb L t) then 1 else 0))))
    with (St s (rest ++ T [SEMI] false :: R) (EndEof []) (if negb (is_leafb L t) then 1 else 0) false [] m).
  rewrite (paren_leafb L). rewrite HP. cbn [bind].
  assert (Ec : ps_complete (Bst R (fst (snd (expectM t ([], m)))) (snd (snd (expectM t ([], m))))) = true)
    by (destruct R; reflexivity).
  rewrite Ec. cbn [negb]. rewrite (skip_trailing_Bst F R _ _ HR H1). reflexivity.
Qed.

(* a statement in the middle of the document *)
Lemma statement_mid F r t R s0 m : wf t = true -> (need L t <= F)%nat -> (1 <= F)%nat ->
  noclashM t ([], m) = true -> starts_ok R ->
  parse_tree_statement F (Bst (stmt_toks r t ++ R) s0 m)
  = Ok (Some (mkPR (expected_rooting o r) [] (fst (expectM t ([], m)))),
        Bst R (fst (snd (expectM t ([], m)))) (snd (snd (expectM t ([], m))))).
Proof.
  intros Hwf HF H1 Hnc HR.
  destruct (wtoks_head L render_len lower o t Hwf) as [s [q [rest [Ew Hcur]]]].
  apply (pts_core F _ r t s q rest R 0 true s0 m Ew); try assumption.
  unfold stmt_toks. rewrite Ew. simpl app. unfold add_comments. cbn [t_text t_quoted t_comments t_eof T Bst].
  rewrite app_nil_r. cbn [pull_comments fst snd ps_comments set_tok ps_cur ps_eof ps_toks ps_end].
  destruct F as [|F]; [lia|]. cbn [skip_semicolons].
  destruct (Hcur (EndEof []) 0 true s0 m (rest ++ [T [SEMI] false] ++ R)) as [C1 [C2 [C3 C4]]].
  unfold St in C3. unfold set_tok. cbn [cur_is ps_cur ps_eof ps_nesting ps_complete ps_seen ps_map orb andb negb] in C3 |- *.
  rewrite C3. cbn [orb andb]. rewrite <- app_assoc. reflexivity.
Qed.

(* the first statement, from the initial reader state *)
Lemma statement_first F r t R m : wf t = true -> (need L t <= F)%nat -> (2 <= F)%nat ->
  noclashM t ([], m) = true -> starts_ok R ->
  parse_tree_statement F (init_pstate (stmt_toks r t ++ R, EndEof []) m)
  = Ok (Some (mkPR (expected_rooting o r) [] (fst (expectM t ([], m)))),
        Bst R (fst (snd (expectM t ([], m)))) (snd (snd (expectM t ([], m))))).
Proof.
  intros Hwf HF H2 Hnc HR.
  destruct (wtoks_head L render_len lower o t Hwf) as [s [q [rest [Ew Hcur]]]].
  apply (pts_core F _ r t s q rest R 0 false [] m Ew); try assumption; [|lia].
  unfold stmt_toks. rewrite Ew. simpl app. unfold add_comments. cbn [t_text t_quoted t_comments t_eof T].
  rewrite app_nil_r.
  unfold pull_comments, init_pstate, set_tok. cbn [fst snd ps_cur ps_eof ps_comments ps_toks ps_end ps_nesting ps_complete ps_seen ps_map].
  cbn [fst snd]. destruct F as [|[|F]]; try lia.
  destruct (Hcur (EndEof []) 0 false [] m []) as [C1 [C2 [C3 C4]]].
  rewrite skip_first by exact C3. rewrite <- app_assoc. reflexivity.
Qed.

(* ---- C. the statements in sequence ---- *)
Notation expect_trees := (expect_trees L lower o).
Notation taxa_order := (taxa_order L o).
Notation Mrep := (Mrep lower).

Lemma starts_ok_doc ts : forallb (fun rt => wf (snd rt)) ts = true -> starts_ok (doc_toks ts).
Proof.
  destruct ts as [|[r t] ts]; intro H; [exact I|]. simpl in H. apply andb_true_iff in H. destruct H as [Ht _].
  destruct (wtoks_head L render_len lower o t Ht) as [s [q [rest [Ew Hcur]]]].
  unfold doc_toks. cbn [flat_map fst snd]. unfold stmt_toks. rewrite Ew. simpl.
  destruct (Hcur (EndEof []) 0 false [] (new_mapper lower [] false false) []) as [_ [_ [C3 _]]]. exact C3.
Qed.

Lemma statement_via_spec t m ns : Mrep m ns -> NoDup (map lower (taxa_order t)) ->
  noclashM t ([], m) = true /\ fst (expectM t ([], m)) = fst (expectL t ns) /\
  Mrep (snd (snd (expectM t ([], m)))) (snd (expectL t ns)).
Proof.
  intros Hm Hnd.
  destruct (map_node_all L lower o t [] m ns [] [] Hm) as [A [B [C _]]].
  - intros j [].
  - simpl. rewrite app_nil_r. exact Hnd.
  - auto.
Qed.

Lemma expected_rooting_ok r : rooting_consistent o r = true -> expected_rooting o r = r.
Proof.
  destruct o as [uu ps pu it sr dir bc]. unfold rooting_consistent, expected_rooting. cbn [rt_sr rt_dir].
  destruct sr, r as [[|]|], dir; intro H; try discriminate; reflexivity.
Qed.

Definition stmt_ok (F : nat) (rt : option bool * ntree) : Prop :=
  (need L (snd rt) <= F)%nat /\ NoDup (map lower (taxa_order (snd rt))) /\ rooting_consistent o (fst rt) = true.

Lemma iter_rest : forall ts n F acc s0 m ns,
  forallb (fun rt => wf (snd rt)) ts = true -> Forall (stmt_ok F) ts -> (1 <= F)%nat -> (length ts < n)%nat ->
  Mrep m ns ->
  exists stf, tree_iter F n (Bst (doc_toks ts) s0 m) acc = Ok (acc ++ fst (expect_trees ts ns), stf)
              /\ Mrep (ps_map stf) (snd (expect_trees ts ns)).
Proof.
  induction ts as [|[r t] ts IH]; intros n F acc s0 m ns Hwf Hok HF Hn Hm.
  - destruct n as [|n]; [simpl in Hn; lia|]. destruct F as [|F]; [lia|].
    exists (K_final s0 m). split; [|exact Hm]. simpl. rewrite app_nil_r. reflexivity.
  - destruct n as [|n]; [simpl in Hn; lia|].
    pose proof Hwf as Hwf0. simpl in Hwf. apply andb_true_iff in Hwf. destruct Hwf as [Ht Hts].
    pose proof (Forall_inv Hok) as [Hneed [Hnd Hroot]]. pose proof (Forall_inv_tail Hok) as Hok'. cbn [fst snd] in *.
    destruct (statement_via_spec t m ns Hm Hnd) as [Hnc [Etree Hm']].
    unfold doc_toks. cbn [flat_map fst snd]. fold (doc_toks ts).
    cbn [Newick.tree_iter].
    rewrite (statement_mid F r t (doc_toks ts) s0 m Ht Hneed HF Hnc (starts_ok_doc ts Hts)).
    cbn [bind].
    destruct (IH n F (acc ++ [mkPR (expected_rooting o r) [] (fst (expectM t ([], m)))])
                 (fst (snd (expectM t ([], m)))) (snd (snd (expectM t ([], m)))) (snd (expectL t ns))
                 Hts Hok' HF ltac:(simpl in Hn; lia) Hm') as [stf [E1 E2]].
    exists stf. cbn [C02ListSpec.expect_trees].
    rewrite E1. rewrite Etree, (expected_rooting_ok r Hroot).
    destruct (expectL t ns) as [p n1]. cbn [fst snd] in *.
    destruct (expect_trees ts n1) as [ps n2]. cbn [fst snd] in *.
    rewrite <- app_assoc. split; [reflexivity | exact E2].
Qed.

Lemma iter_first r t ts n F m ns :
  forallb (fun rt => wf (snd rt)) ((r, t) :: ts) = true -> Forall (stmt_ok F) ((r, t) :: ts) -> (2 <= F)%nat ->
  (length ((r, t) :: ts) < n)%nat -> Mrep m ns ->
  exists stf, tree_iter F n (init_pstate (doc_toks ((r, t) :: ts), EndEof []) m) []
              = Ok (fst (expect_trees ((r, t) :: ts) ns), stf)
              /\ Mrep (ps_map stf) (snd (expect_trees ((r, t) :: ts) ns)).
Proof.
  intros Hwf Hok HF Hn Hm.
  destruct n as [|n]; [simpl in Hn; lia|].
  simpl in Hwf. apply andb_true_iff in Hwf. destruct Hwf as [Ht Hts].
  pose proof (Forall_inv Hok) as [Hneed [Hnd Hroot]]. pose proof (Forall_inv_tail Hok) as Hok'. cbn [fst snd] in *.
  destruct (statement_via_spec t m ns Hm Hnd) as [Hnc [Etree Hm']].
  unfold doc_toks. cbn [flat_map fst snd]. fold (doc_toks ts).
  cbn [Newick.tree_iter].
  rewrite (statement_first F r t (doc_toks ts) m Ht Hneed HF Hnc (starts_ok_doc ts Hts)).
  cbn [bind app].
  destruct (iter_rest ts n F [mkPR (expected_rooting o r) [] (fst (expectM t ([], m)))]
               (fst (snd (expectM t ([], m)))) (snd (snd (expectM t ([], m)))) (snd (expectL t ns))
               Hts Hok' ltac:(lia) ltac:(simpl in Hn; lia) Hm') as [stf [E1 E2]].
  exists stf. cbn [C02ListSpec.expect_trees].
  rewrite E1. rewrite Etree, (expected_rooting_ok r Hroot).
  destruct (expectL t ns) as [p n1]. cbn [fst snd] in *.
  destruct (expect_trees ts n1) as [ps n2]. cbn [fst snd] in *. split; [reflexivity | exact E2].
Qed.

(* ---- D. the document ---- *)
Lemma add_comments_length cs l : length (add_comments cs l) = length l.
Proof. destruct l; reflexivity. Qed.

Lemma doc_toks_bounds ts : forallb (fun rt => wf (snd rt)) ts = true ->
  (length ts <= length (doc_toks ts))%nat /\
  Forall (fun rt => (need L (snd rt) <= 2 * length (doc_toks ts))%nat) ts.
Proof.
  induction ts as [|[r t] ts IH]; intro Hwf; [split; [simpl; lia | constructor]|].
  simpl in Hwf. apply andb_true_iff in Hwf. destruct Hwf as [Ht Hts]. destruct (IH Hts) as [I1 I2].
  unfold doc_toks. cbn [flat_map fst snd]. fold (doc_toks ts). rewrite app_length.
  unfold stmt_toks at 1 2. rewrite add_comments_length, app_length. simpl length.
  pose proof (wtoks_len L render_len lower o t Ht) as Hl.
  split; [lia|]. constructor.
  - cbn [snd]. unfold C02Parse.need. lia.
  - eapply Forall_impl; [|exact I2]. intros a Ha. simpl in Ha. lia.
Qed.

Notation read_newick := (read_newick L parse_len lower).

Theorem treelist_read : forall r t ts,
  let doc := (r, t) :: ts in
  forallb (fun rt => wf (snd rt)) doc = true ->
  Forall (fun rt => NoDup (map lower (taxa_order (snd rt)))) doc ->
  Forall (fun rt => rooting_consistent o (fst rt) = true) doc ->
  read_newick ro [] (write_tree_list L render_len wo doc)
  = Ok (fst (expect_trees doc []), snd (expect_trees doc [])).
Proof.
  intros r t ts doc Hwf Hnd Hroot. unfold Newick.read_newick.
  change (ro_preserve_underscores ro) with (rt_pu o).
  change (ro_case_sensitive_taxon_labels ro) with false.
  rewrite (tokenize_doc doc Hwf). cbn [fst snd].
  destruct (doc_toks_bounds doc Hwf) as [B1 B2].
  set (F := reader_fuel (doc_toks doc)).
  assert (Hok : Forall (stmt_ok F) doc).
  { apply Forall_forall. intros rt Hi. unfold stmt_ok.
    rewrite Forall_forall in B2, Hnd, Hroot. repeat split; [| apply Hnd; exact Hi | apply Hroot; exact Hi].
    specialize (B2 rt Hi). unfold F, reader_fuel. lia. }
  destruct (iter_first r t ts F F (new_mapper lower [] false false) [] Hwf Hok) as [stf [E1 E2]].
  - unfold F, reader_fuel. lia.
  - unfold F, reader_fuel. fold doc. lia.
  - apply Mrep_new.
  - fold doc in E1, E2. rewrite E1. cbn [bind fst snd]. destruct E2 as [E2 _]. rewrite E2. reflexivity.
Qed.

(*LD4*)
End ListDoc.
