(* C02 (NEXUS): the token sequence of the document written by NexusWriter for one tree list. *)
From Coq Require Import ZArith List Bool Lia Arith.
From DV Require Import Model.PyPrims Gen.CharClasses Model.Tokenizer Model.Newick Model.C02Spec Model.C02ListSpec
     Model.C02Nexus Model.C02NexusSpec
     Proofs.C02Tok Proofs.C02Escape Proofs.C02Lex Proofs.C02Parse Proofs.C02ListParse Proofs.C02ListMap Proofs.C02ListDoc
     Proofs.C02NexusMap Proofs.C02NexusLex.
Import ListNotations.
Open Scope Z_scope.

Definition wd_Translate : str := [84; 114; 97; 110; 115; 108; 97; 116; 101].

Section NexusDoc.
Variable L : Type.
Variable render_len : L -> str.
Variable parse_len : str -> option L.
Variable lower : str -> str.
Hypothesis len_roundtrip : forall x, parse_len (render_len x) = Some x.
Hypothesis len_plain : forall x, render_len x <> [] /\ forallb numeral_char (render_len x) = true.
Variable o : rt_opts.

Notation pu := (rt_pu o).
Notation cfg := (nexus_cfg (rt_pu o)).
Notation wo := (rt_wopts o).
Notation ntree := (ntree L).
Notation Lexes2 := (Lexes2 (rt_pu o)).
Notation stmt_toks := (stmt_toks L render_len o).

(* ---- the tree statements are those of the relabelled trees ---- *)
Lemma render_tag_relabel f t :
  render_node_tag L (with_token_map wo f) t = render_node_tag L wo (relabel L f t).
Proof.
  destruct t as [tx lb ln ks]. unfold render_node_tag, with_token_map. cbn [relabel].
  cbn [wo_suppress_leaf_taxon_labels wo_suppress_leaf_node_labels wo_suppress_internal_taxon_labels
       wo_suppress_internal_node_labels wo_taxon_token wo_preserve_spaces wo_unquoted_underscores rt_wopts].
  assert (E : is_nil (map (relabel L f) ks) = is_nil ks) by (destruct ks; reflexivity). rewrite E.
  destruct tx; reflexivity.
Qed.

Lemma write_node_relabel f : forall t first,
  write_node L render_len (with_token_map wo f) first t = write_node L render_len wo first (relabel L f t).
Proof.
  induction t as [tx lb ln ks IH] using ntree_ind'. intro first.
  assert (B : write_node_body L render_len (with_token_map wo f) (Nd tx lb ln ks)
              = write_node_body L render_len wo (relabel L f (Nd tx lb ln ks))).
  { unfold write_node_body. rewrite render_tag_relabel. reflexivity. }
  destruct ks as [|k ks].
  - cbn [write_node relabel map]. cbn [relabel map] in B. rewrite B. reflexivity.
  - cbn [relabel map] in B |- *. cbn [write_node]. rewrite B.
    pose proof (Forall_inv IH) as Ik. pose proof (Forall_inv_tail IH) as Ir. cbv beta in Ik.
    rewrite Ik. f_equal. f_equal. f_equal.
    clear - Ir. induction ks as [|k2 ks IHl]; [reflexivity|].
    cbn [flat_map map]. rewrite (Forall_inv Ir). rewrite IHl; [reflexivity | exact (Forall_inv_tail Ir)].
Qed.

Lemma write_tree_relabel f r t :
  write_tree L render_len (with_token_map wo f) r t = write_tree L render_len wo r (relabel L f t).
Proof. unfold write_tree. rewrite write_node_relabel. reflexivity. Qed.

(* ---- literal pieces ---- *)
Notation unc c := (zmem c tok_uncaptured_delimiters) (only parsing).
Notation cap c := (zmem c tok_captured_delimiters) (only parsing).

Section Pieces.
Variable ok : str -> bool.
Hypothesis ok_ne : forall r, ok r = true -> r <> [].

Lemma lx_ws c s toks : unc c = true -> Lexes2 ok s toks -> Lexes2 ok (c :: s) toks.
Proof. apply L2_ws. Qed.

Lemma lx_cap c s toks : cap c = true -> Lexes2 ok s toks -> Lexes2 ok (c :: s) (T [c] false :: toks).
Proof. apply L2_cap. exact ok_ne. Qed.

Lemma lx_kw w c s toks : kw_ok w = true -> (cap c || unc c)%bool = true ->
  Lexes2 ok (c :: s) toks -> Lexes2 ok (w ++ c :: s) (W w :: toks).
Proof.
  intros Hk Hc Hs. apply (L2_word (rt_pu o) ok ok_ne w w false c s toks); [| exact Hc | exact Hs].
  intros r Hr. apply kw_word; assumption.
Qed.

Lemma sp_unc : unc SPACE = true. Proof. reflexivity. Qed.
Lemma nl_unc : unc NEWLINE = true. Proof. reflexivity. Qed.
Lemma semi_c : cap SEMI = true. Proof. reflexivity. Qed.
Lemma eq_c : cap EQUALS = true. Proof. reflexivity. Qed.
Lemma comma_c : cap COMMA = true. Proof. reflexivity. Qed.

(* "#NEXUS\n\n" *)
Lemma lx_header s toks : Lexes2 ok s toks -> Lexes2 ok (txt_header ++ s) (W kw_HASHNEXUS :: toks).
Proof.
  intro H. change (txt_header ++ s) with (kw_HASHNEXUS ++ NEWLINE :: NEWLINE :: s).
  apply lx_kw; [reflexivity | reflexivity |]. apply lx_ws; [reflexivity|]. apply lx_ws; [reflexivity | exact H].
Qed.

(* "BEGIN TAXA;\n    DIMENSIONS NTAX=" n ";\n    TAXLABELS\n" *)
Lemma lx_taxa_open n s toks : Lexes2 ok s toks ->
  Lexes2 ok (txt_begin_taxa ++ txt_dimensions ++ dec_of_nat n ++ txt_semi_nl ++ txt_taxlabels ++ s)
         ([W kw_BEGIN; W kw_TAXA; T [SEMI] false; W kw_DIMENSIONS; W kw_NTAX; T [EQUALS] false;
           W (dec_of_nat n); T [SEMI] false; W kw_TAXLABELS] ++ toks).
Proof.
  intro H.
  change (txt_begin_taxa ++ txt_dimensions ++ dec_of_nat n ++ txt_semi_nl ++ txt_taxlabels ++ s)
    with (kw_BEGIN ++ SPACE :: kw_TAXA ++ SEMI :: NEWLINE :: SPACE :: SPACE :: SPACE :: SPACE ::
          kw_DIMENSIONS ++ SPACE :: kw_NTAX ++ EQUALS :: dec_of_nat n ++ SEMI :: NEWLINE ::
          SPACE :: SPACE :: SPACE :: SPACE :: kw_TAXLABELS ++ NEWLINE :: s).
  apply lx_kw; [reflexivity | reflexivity |]. apply lx_ws; [reflexivity|].
  apply lx_kw; [reflexivity | reflexivity |]. apply lx_cap; [reflexivity|].
  do 5 (apply lx_ws; [reflexivity|]).
  apply lx_kw; [reflexivity | reflexivity |]. apply lx_ws; [reflexivity|].
  apply lx_kw; [reflexivity | reflexivity |]. apply lx_cap; [reflexivity|].
  apply lx_kw; [apply dec_kw | reflexivity |]. apply lx_cap; [reflexivity|].
  do 5 (apply lx_ws; [reflexivity|]).
  apply lx_kw; [reflexivity | reflexivity |]. apply lx_ws; [reflexivity | exact H].
Qed.

(* "  ;\nEND;\n\n" *)
Lemma lx_taxa_close s toks : Lexes2 ok s toks ->
  Lexes2 ok (txt_taxa_close ++ txt_end ++ s) ([T [SEMI] false; W kw_END; T [SEMI] false] ++ toks).
Proof.
  intro H.
  change (txt_taxa_close ++ txt_end ++ s) with (SPACE :: SPACE :: SEMI :: NEWLINE :: kw_END ++ SEMI :: NEWLINE :: NEWLINE :: s).
  do 2 (apply lx_ws; [reflexivity|]). apply lx_cap; [reflexivity|]. apply lx_ws; [reflexivity|].
  apply lx_kw; [reflexivity | reflexivity |]. apply lx_cap; [reflexivity|].
  do 2 (apply lx_ws; [reflexivity|]). exact H.
Qed.

(* "BEGIN TREES;\n" *)
Lemma lx_trees_open s toks : Lexes2 ok s toks ->
  Lexes2 ok (txt_begin_trees ++ s) ([W kw_BEGIN; W kw_TREES; T [SEMI] false] ++ toks).
Proof.
  intro H. change (txt_begin_trees ++ s) with (kw_BEGIN ++ SPACE :: kw_TREES ++ SEMI :: NEWLINE :: s).
  apply lx_kw; [reflexivity | reflexivity |]. apply lx_ws; [reflexivity|].
  apply lx_kw; [reflexivity | reflexivity |]. apply lx_cap; [reflexivity|].
  apply lx_ws; [reflexivity | exact H].
Qed.

(* "    TREE " name " = " *)
Lemma lx_tree_prefix n s toks : Lexes2 ok s toks ->
  Lexes2 ok (txt_tree ++ dec_of_nat n ++ txt_eq ++ s) ([W kw_TREE; W (dec_of_nat n); T [EQUALS] false] ++ toks).
Proof.
  intro H.
  change (txt_tree ++ dec_of_nat n ++ txt_eq ++ s)
    with (SPACE :: SPACE :: SPACE :: SPACE :: kw_TREE ++ SPACE :: dec_of_nat n ++ SPACE :: EQUALS :: SPACE :: s).
  do 4 (apply lx_ws; [reflexivity|]).
  apply lx_kw; [reflexivity | reflexivity |]. apply lx_ws; [reflexivity|].
  apply lx_kw; [apply dec_kw | reflexivity |]. apply lx_ws; [reflexivity|].
  apply lx_cap; [reflexivity|]. apply lx_ws; [reflexivity | exact H].
Qed.

(* ---- labels written with the default protect class ---- *)
Definition dq (l : str) : bool := escape_quotes escape_default_protect (rt_ps o) (negb (rt_uu o)) l.
Definition ltok (l : str) : token := T l (dq l).

Definition nlabel_ok (l : str) : bool := good_label l && consistent_opts (rt_uu o) (rt_pu o) (rt_ps o) l.

Lemma lx_label l c s toks : nlabel_ok l = true -> (cap c || unc c)%bool = true ->
  Lexes2 ok (c :: s) toks ->
  Lexes2 ok (escape_default wo l ++ c :: s) (ltok l :: toks).
Proof.
  intros Hl Hc Hs. unfold nlabel_ok, good_label in Hl. rewrite !andb_true_iff in Hl. destruct Hl as [[[H1 H2] H3] H4].
  apply (L2_word (rt_pu o) ok ok_ne _ l (dq l) c s toks); [| exact Hc | exact Hs].
  intros r Hr. unfold escape_default. change (wo_preserve_spaces wo) with (rt_ps o).
  change (wo_unquoted_underscores wo) with (rt_uu o).
  apply (escape_tokenize_sep (rt_pu o) escape_default_protect delims_protected_default_b default_class_b); assumption.
Qed.

(* the TAXLABELS lines *)
Lemma lx_taxlabels : forall ns s toks, forallb nlabel_ok ns = true -> Lexes2 ok s toks ->
  Lexes2 ok (flat_map (fun l => txt_label_indent ++ escape_default wo l ++ [NEWLINE]) ns ++ s) (map ltok ns ++ toks).
Proof.
  induction ns as [|l ns IH]; intros s toks Hl Hs; [exact Hs|].
  simpl in Hl. apply andb_true_iff in Hl. destruct Hl as [Hl Hls].
  cbn [flat_map map]. rewrite <- !app_assoc.
  change (txt_label_indent ++ escape_default wo l ++ [NEWLINE] ++
          flat_map (fun l0 => txt_label_indent ++ escape_default wo l0 ++ [NEWLINE]) ns ++ s)
    with (SPACE :: SPACE :: SPACE :: SPACE :: SPACE :: SPACE :: SPACE :: SPACE :: escape_default wo l ++ NEWLINE ::
          flat_map (fun l0 => txt_label_indent ++ escape_default wo l0 ++ [NEWLINE]) ns ++ s).
  do 8 (apply lx_ws; [reflexivity|]).
  apply lx_label; [exact Hl | reflexivity |]. apply lx_ws; [reflexivity|]. apply IH; assumption.
Qed.

End Pieces.

(* ---- the TRANSLATE statement ---- *)
(* the member at position i is given the token str(tokn i + 1) (tokn i = its accession index) *)
Variable tokn : nat -> nat.

Fixpoint tr_entries (ils : list (nat * str)) : list token :=
  match ils with
  | [] => []
  | il :: r => W (dec_of_nat (S (tokn (fst il)))) :: ltok (snd il) ::
               match r with [] => [] | _ => T [COMMA] false :: tr_entries r end
  end.

Definition tr_entry (il : nat * str) : str :=
  txt_translate_indent ++ dec_of_nat (S (tokn (fst il))) ++ [SPACE] ++ escape_default wo (snd il).

Lemma lx_entries ok (ok_ne : forall r, ok r = true -> r <> []) :
  forall ils c s toks, ils <> [] -> forallb (fun il => nlabel_ok (snd il)) ils = true ->
  (cap c || unc c)%bool = true -> Lexes2 ok (c :: s) toks ->
  Lexes2 ok (join_with txt_translate_sep (map tr_entry ils) ++ c :: s) (tr_entries ils ++ toks).
Proof.
  induction ils as [|il ils IH]; intros c s toks Hne Hl Hc Hs; [congruence|].
  simpl in Hl. apply andb_true_iff in Hl. destruct Hl as [Hl Hls].
  destruct ils as [|il2 ils].
  - cbn [map join_with tr_entries]. unfold tr_entry. rewrite <- !app_assoc.
    change (txt_translate_indent ++ dec_of_nat (S (tokn (fst il))) ++ [SPACE] ++ escape_default wo (snd il) ++ c :: s)
      with (SPACE :: SPACE :: SPACE :: SPACE :: SPACE :: SPACE :: SPACE :: SPACE :: SPACE :: SPACE :: SPACE :: SPACE :: SPACE ::
            dec_of_nat (S (tokn (fst il))) ++ SPACE :: escape_default wo (snd il) ++ c :: s).
    do 13 (apply (lx_ws ok); [reflexivity|]).
    apply (lx_kw ok ok_ne); [apply dec_kw | reflexivity |]. apply (lx_ws ok); [reflexivity|].
    apply (lx_label ok ok_ne); assumption.
  - change (join_with txt_translate_sep (map tr_entry (il :: il2 :: ils)))
      with (tr_entry il ++ txt_translate_sep ++ join_with txt_translate_sep (map tr_entry (il2 :: ils))).
    change (tr_entries (il :: il2 :: ils))
      with (W (dec_of_nat (S (tokn (fst il)))) :: ltok (snd il) :: T [COMMA] false :: tr_entries (il2 :: ils)).
    unfold tr_entry at 1. rewrite <- !app_assoc.
    change (txt_translate_indent ++ dec_of_nat (S (tokn (fst il))) ++ [SPACE] ++ escape_default wo (snd il) ++
            txt_translate_sep ++ join_with txt_translate_sep (map tr_entry (il2 :: ils)) ++ c :: s)
      with (SPACE :: SPACE :: SPACE :: SPACE :: SPACE :: SPACE :: SPACE :: SPACE :: SPACE :: SPACE :: SPACE :: SPACE :: SPACE ::
            dec_of_nat (S (tokn (fst il))) ++ SPACE :: escape_default wo (snd il) ++ COMMA :: NEWLINE ::
            join_with txt_translate_sep (map tr_entry (il2 :: ils)) ++ c :: s).
    do 13 (apply (lx_ws ok); [reflexivity|]).
    apply (lx_kw ok ok_ne); [apply dec_kw | reflexivity |]. apply (lx_ws ok); [reflexivity|].
    apply (lx_label ok ok_ne); [exact Hl | reflexivity |].
    apply (lx_cap ok ok_ne); [reflexivity|]. apply (lx_ws ok); [reflexivity|].
    apply IH; [discriminate | exact Hls | exact Hc | exact Hs].
Qed.

Definition write_translate_tok (ns : list str) : str :=
  txt_translate ++ join_with txt_translate_sep (map tr_entry (enum_from O ns)) ++ txt_translate_close.

Lemma lx_translate ok (ok_ne : forall r, ok r = true -> r <> []) ns s toks :
  ns <> [] -> forallb nlabel_ok ns = true -> Lexes2 ok s toks ->
  Lexes2 ok (write_translate_tok ns ++ s) (W wd_Translate :: tr_entries (enum_from O ns) ++ T [SEMI] false :: toks).
Proof.
  intros Hne Hl Hs. unfold write_translate_tok. rewrite <- !app_assoc.
  change (txt_translate ++ join_with txt_translate_sep (map tr_entry (enum_from O ns)) ++ txt_translate_close ++ s)
    with (SPACE :: SPACE :: SPACE :: SPACE :: SPACE :: SPACE :: SPACE :: SPACE :: wd_Translate ++ NEWLINE ::
          join_with txt_translate_sep (map tr_entry (enum_from O ns)) ++
          NEWLINE :: SPACE :: SPACE :: SPACE :: SPACE :: SPACE :: SPACE :: SPACE :: SPACE :: SPACE :: SPACE :: SPACE :: SPACE :: SPACE ::
          SEMI :: NEWLINE :: s).
  do 8 (apply (lx_ws ok); [reflexivity|]).
  apply (lx_kw ok ok_ne); [reflexivity | reflexivity |]. apply (lx_ws ok); [reflexivity|].
  apply (lx_entries ok ok_ne).
  - destruct ns; [congruence | discriminate].
  - clear - Hl. assert (G : forall off, forallb (fun il : nat * str => nlabel_ok (snd il)) (enum_from off ns) = true).
    { induction ns as [|l ns IH]; intro off; [reflexivity|]. simpl in *. apply andb_true_iff in Hl. destruct Hl as [A B].
      rewrite A. apply IH. exact B. }
    apply G.
  - reflexivity.
  - do 14 (apply (lx_ws ok); [reflexivity|]). apply (lx_cap ok ok_ne); [reflexivity|].
    apply (lx_ws ok); [reflexivity | exact Hs].
Qed.

(* ---- numerals are written as they are ---- *)
Lemma escape_plain protect ps qu l :
  forallb (fun c => negb (zmem c protect) && negb (c =? SPACE) && negb (c =? TAB) && negb (c =? UNDERSCORE)) l = true ->
  escape_token protect ps qu l = l.
Proof.
  intro H. unfold escape_token.
  assert (A : existsb (fun c => zmem c protect) l = false /\ zmem UNDERSCORE l = false /\ zmem SPACE l = false
              /\ map (fun c => if (c =? SPACE) || (c =? TAB) then UNDERSCORE else c) l = l).
  { induction l as [|c l IH]; [repeat split; reflexivity|]. simpl in H. apply andb_true_iff in H. destruct H as [Hc Hl].
    rewrite !andb_true_iff, !negb_true_iff in Hc. destruct Hc as [[[H1 H2] H3] H4].
    destruct (IH Hl) as [I1 [I2 [I3 I4]]].
    assert (ZC : forall x, zmem x (c :: l) = (x =? c) || zmem x l) by reflexivity.
    assert (U : zmem UNDERSCORE (c :: l) = false).
    { rewrite ZC, I2. rewrite (Z.eqb_sym UNDERSCORE c), H4. reflexivity. }
    assert (S1 : zmem SPACE (c :: l) = false).
    { rewrite ZC, I3. rewrite (Z.eqb_sym SPACE c), H2. reflexivity. }
    repeat split; [simpl; rewrite H1, I1; reflexivity | exact U | exact S1 |].
    simpl. rewrite H2, H3, I4. reflexivity. }
  destruct A as [A1 [A2 [A3 A4]]]. rewrite A1, A2, A3. simpl.
  destruct ps; simpl; [rewrite andb_false_r; reflexivity | exact A4].
Qed.

Lemma escape_default_dec n : escape_default wo (dec_of_nat n) = dec_of_nat n.
Proof.
  unfold escape_default. apply escape_plain. unfold dec_of_nat.
  induction (N.to_uint (N.of_nat n)); simpl; try reflexivity; rewrite IHu; vm_compute; reflexivity.
Qed.

(* ---- the tree statements and the whole document ---- *)
Definition tree_stmt_text (it : nat * (option bool * ntree)) : str :=
  txt_tree ++ dec_of_nat (S (fst it)) ++ txt_eq
  ++ write_tree L render_len wo (fst (snd it)) (snd (snd it)) ++ [NEWLINE].

Definition tree_stmt_toks (it : nat * (option bool * ntree)) : list token :=
  [W kw_TREE; W (dec_of_nat (S (fst it))); T [EQUALS] false] ++ stmt_toks (fst (snd it)) (snd (snd it)).

Definition end_toks : list token := [W kw_END; T [SEMI] false].

Lemma tok_end : tokenize cfg txt_end = (end_toks, EndEof []).
Proof. destruct (rt_pu o); vm_compute; reflexivity. Qed.

Lemma tok_tree_stmts : forall its,
  forallb (fun it => wf_tree L o (snd (snd it))) its = true ->
  tokenize cfg (flat_map tree_stmt_text its ++ txt_end) = (flat_map tree_stmt_toks its ++ end_toks, EndEof []).
Proof.
  induction its as [|[i [r t]] its IH]; intro Hwf; [exact tok_end|].
  simpl in Hwf. apply andb_true_iff in Hwf. destruct Hwf as [Ht Hts].
  cbn [flat_map]. unfold tree_stmt_text at 1, tree_stmt_toks at 1. cbn [fst snd].
  set (REST := flat_map tree_stmt_text its ++ txt_end).
  pose proof (tokenize_statement L render_len len_plain o r t REST _ Ht (IH Hts)) as HS.
  pose proof (lx_tree_prefix nonempty nonempty_ne (S i) (@nil Z) (@nil token) (L2_nil (rt_pu o) nonempty)) as HP.
  specialize (HP ((write_tree L render_len wo r t ++ [NEWLINE]) ++ REST)).
  rewrite !app_nil_r in HP. rewrite HS in HP. cbn [fst snd] in HP.
  rewrite <- !app_assoc in *. cbn [app] in *.
  fold REST. rewrite HP; [reflexivity|].
  destruct (write_tree L render_len wo r t); reflexivity.
Qed.

Definition taxa_toks (ns : list str) : list token :=
  [W kw_BEGIN; W kw_TAXA; T [SEMI] false; W kw_DIMENSIONS; W kw_NTAX; T [EQUALS] false;
   W (dec_of_nat (length ns)); T [SEMI] false; W kw_TAXLABELS]
  ++ map ltok ns ++ [T [SEMI] false; W kw_END; T [SEMI] false].

Definition translate_toks (tr : bool) (ns : list str) : list token :=
  if tr then W wd_Translate :: tr_entries (enum_from O ns) ++ [T [SEMI] false] else [].

(* the trees as the statements show them: taxon labels replaced by TRANSLATE tokens *)
Definition tok_of (ns : list str) (l : str) : str :=
  match index_of l ns O with Some i => dec_of_nat (S (tokn i)) | None => l end.

Definition shown (tr : bool) (ns : list str) (ts : list (option bool * ntree)) : list (option bool * ntree) :=
  if tr then map (fun rt => (fst rt, relabel L (tok_of ns) (snd rt))) ts else ts.

(* the document with the token numbering tokn (= C02Nexus.write_nexus_acc for tokn = accession index,
   = C02Nexus.write_nexus for tokn = identity, see Proofs/C02NexusMain.v) *)
Definition write_nexus_tok (tr : bool) (ns : list str) (ts : list (option bool * ntree)) : str :=
  txt_header ++ write_taxa_block wo ns
  ++ (txt_begin_trees
      ++ (if tr then write_translate_tok ns else [])
      ++ flat_map (fun it : nat * (option bool * ntree) =>
                     txt_tree ++ escape_default wo (dec_of_nat (S (fst it))) ++ txt_eq
                     ++ write_tree L render_len (if tr then with_token_map wo (tok_of ns) else with_token_map wo (fun l : str => l))
                                   (fst (snd it)) (snd (snd it)) ++ [NEWLINE])
                  (enum_from O ts)
      ++ txt_end).

Definition nexus_toks (tr : bool) (ns : list str) (ts : list (option bool * ntree)) : list token :=
  W kw_HASHNEXUS :: taxa_toks ns ++ [W kw_BEGIN; W kw_TREES; T [SEMI] false] ++ translate_toks tr ns
  ++ flat_map tree_stmt_toks (enum_from O (shown tr ns ts)) ++ end_toks.

Lemma enum_from_map {A B} (g : A -> B) : forall (l : list A) off,
  enum_from off (map g l) = map (fun it => (fst it, g (snd it))) (enum_from off l).
Proof. induction l as [|x l IH]; intro off; simpl; [reflexivity|]. rewrite IH. reflexivity. Qed.

Lemma relabel_id : forall t : ntree, relabel L (fun l : str => l) t = t.
Proof.
  induction t as [tx lb ln ks IH] using ntree_ind'. cbn [relabel].
  assert (E : map (relabel L (fun l : str => l)) ks = ks).
  { induction IH as [|k r Hk Hr IHr]; [reflexivity|]. simpl. rewrite Hk, IHr. reflexivity. }
  rewrite E. destruct tx; reflexivity.
Qed.

Lemma trees_text_f (f : str -> str) ts :
  flat_map (fun it : nat * (option bool * ntree) =>
              txt_tree ++ escape_default wo (dec_of_nat (S (fst it))) ++ txt_eq
              ++ write_tree L render_len (with_token_map wo f) (fst (snd it)) (snd (snd it)) ++ [NEWLINE])
           (enum_from O ts)
  = flat_map tree_stmt_text (enum_from O (map (fun rt => (fst rt, relabel L f (snd rt))) ts)).
Proof.
  rewrite enum_from_map. rewrite (flat_map_concat_map tree_stmt_text), map_map, <- flat_map_concat_map.
  apply flat_map_ext. intros [i [r t]]. unfold tree_stmt_text. cbn [fst snd].
  rewrite escape_default_dec, write_tree_relabel. reflexivity.
Qed.

Lemma shown_false (ts : list (option bool * ntree)) : map (fun rt : option bool * ntree => (fst rt, relabel L (fun l : str => l) (snd rt))) ts = ts.
Proof. induction ts as [|[r t] ts IH]; [reflexivity|]. simpl. rewrite relabel_id, IH. reflexivity. Qed.

Theorem tokenize_nexus : forall (tr : bool) (ns : list str) (ts : list (option bool * ntree)),
  forallb nlabel_ok ns = true -> (tr = true -> ns <> []) ->
  forallb (fun rt => wf_tree L o (snd rt)) (shown tr ns ts) = true ->
  tokenize cfg (write_nexus_tok tr ns ts) = (nexus_toks tr ns ts, EndEof []).
Proof.
  intros tr ns ts Hl Hne Hwf. unfold write_nexus_tok, write_taxa_block.
  assert (TT : forall X, (if tr then with_token_map wo (tok_of ns) else with_token_map wo (fun l : str => l)) = X ->
     flat_map (fun it : nat * (option bool * ntree) =>
              txt_tree ++ escape_default wo (dec_of_nat (S (fst it))) ++ txt_eq
              ++ write_tree L render_len X (fst (snd it)) (snd (snd it)) ++ [NEWLINE]) (enum_from O ts)
     = flat_map tree_stmt_text (enum_from O (shown tr ns ts))).
  { intros X EX. subst X. unfold shown. destruct tr.
    - apply trees_text_f.
    - rewrite trees_text_f. rewrite shown_false. reflexivity. }
  rewrite (TT _ eq_refl).
  assert (TS : tokenize cfg (flat_map tree_stmt_text (enum_from O (shown tr ns ts)) ++ txt_end)
               = (flat_map tree_stmt_toks (enum_from O (shown tr ns ts)) ++ end_toks, EndEof [])).
  { apply tok_tree_stmts. clear - Hwf. generalize O. induction (shown tr ns ts) as [|rt l IH]; intro off; [reflexivity|].
    simpl in *. apply andb_true_iff in Hwf. destruct Hwf as [A B]. rewrite A. apply IH. exact B. }
  set (TREES := flat_map tree_stmt_text (enum_from O (shown tr ns ts)) ++ txt_end) in *.
  assert (NE : nonempty TREES = true).
  { unfold TREES. destruct (flat_map tree_stmt_text (enum_from O (shown tr ns ts))); reflexivity. }
  (* everything before the tree statements *)
  assert (PRE : Lexes2 nonempty
     (txt_header ++ (txt_begin_taxa ++ txt_dimensions ++ dec_of_nat (length ns) ++ txt_semi_nl ++ txt_taxlabels
                     ++ flat_map (fun l => txt_label_indent ++ escape_default wo l ++ [NEWLINE]) ns
                     ++ txt_taxa_close ++ txt_end)
                 ++ txt_begin_trees ++ (if tr then write_translate_tok ns else []))
     (W kw_HASHNEXUS :: taxa_toks ns ++ [W kw_BEGIN; W kw_TREES; T [SEMI] false] ++ translate_toks tr ns)).
  { rewrite <- !app_assoc. apply (lx_header nonempty nonempty_ne).
    unfold taxa_toks. rewrite <- !app_assoc.
    apply (lx_taxa_open nonempty nonempty_ne). apply (lx_taxlabels nonempty nonempty_ne); [exact Hl|].
    apply (lx_taxa_close nonempty nonempty_ne). apply (lx_trees_open nonempty nonempty_ne).
    unfold translate_toks. destruct tr.
    - pose proof (lx_translate nonempty nonempty_ne ns (@nil Z) (@nil token) (Hne eq_refl) Hl (L2_nil (rt_pu o) nonempty)) as HT.
      rewrite app_nil_r in HT. exact HT.
    - apply L2_nil. }
  specialize (PRE TREES NE). rewrite TS in PRE. cbn [fst snd] in PRE.
  unfold nexus_toks. rewrite <- !app_assoc in *. cbn [app] in *. fold TREES.
  rewrite PRE. rewrite <- !app_assoc. reflexivity.
Qed.

(*ND5*)
End NexusDoc.
