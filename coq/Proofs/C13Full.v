(* C13 (second wave): the NEXUS theorems for the fully repaired form of the code (v_attach = true,
   v_sets_consume = true, as in the working tree): no hypothesis on the document is left. *)
From Coq Require Import ZArith List Bool.
From DV Require Import Model.PyPrims Model.C13Model Proofs.C13Statements Proofs.C13Repaired.
Import ListNotations.
Open Scope Z_scope.

Section Full.
Variable T : Type.
Variables lower upper : str -> str.
Variable parse_tree : mapper -> tz -> res (option T * mapper * tz).
Variable set_label : T -> option str -> T.
Variable add_comments : T -> list str -> T.
Variable vl : bool.

Hypothesis H_consumes : forall m z ot m' z',
  parse_tree m z = Ok (ot, m', z') -> exists pre, z_toks z = pre ++ z_toks z'.
Hypothesis H_upper : forall s, upper (upper s) = upper s.

Lemma F_nexus_loops_agree : forall (nc : nscfg) (tlf : tl_factory) (ns0 : list str) (d : doc),
  let Y := y_items_from_stream T lower upper parse_tree set_label add_comments vl nc false
                               (doc_fuel d) (core_init nc ns0 d) (regs_init nc) in
  let R := nexus_read T lower upper parse_tree set_label add_comments vl true (mkCfg nc tlf) ns0 d in
  match snd Y with
  | Ok (k', g') =>
    exists s, R = Ok s /\ r_k s = k' /\ r_g s = g'
              /\ match tlf with
                 | TLFixed => rs_list0 T s = fst Y
                 | TLNew => concat (rs_blocks T s) = fst Y
                 end
  | Err e => R = Err e
  | OutOfFuel => R = OutOfFuel
  end.
Proof.
  intros nc tlf ns0 d.
  exact (S_nexus_loops_agree T lower upper parse_tree set_label add_comments vl true H_consumes H_upper nc tlf ns0 d (or_introl eq_refl)).
Qed.

Lemma F_routes_agree_nexus : forall (ns0 : list str) (d : doc),
  let Y := yield_from_files T lower upper parse_tree set_label add_comments vl Nexus ns0 d in
  treelist_read T lower upper parse_tree set_label add_comments true vl true Nexus ns0 d
  = match snd Y with Ok ns => Ok (fst Y, ns) | Err e => Err e | OutOfFuel => OutOfFuel end.
Proof.
  intros ns0 d.
  exact (routes_agree_nexus_repaired_l T lower upper parse_tree set_label add_comments vl true H_consumes H_upper ns0 d (or_introl eq_refl)).
Qed.

Lemma F_dataset_blocks_concat : forall (d : doc),
  match read_blocks T lower upper parse_tree set_label add_comments vl true Nexus cfg_yield [] d with
  | Ok (blocks, ns) => treelist_get T lower upper parse_tree set_label add_comments true vl true Nexus d = Ok (concat blocks, ns)
  | Err e => treelist_get T lower upper parse_tree set_label add_comments true vl true Nexus d = Err e
  | OutOfFuel => treelist_get T lower upper parse_tree set_label add_comments true vl true Nexus d = OutOfFuel
  end.
Proof.
  intros d.
  exact (proj1 (dataset_blocks_concat_repaired_l T lower upper parse_tree set_label add_comments vl true H_consumes H_upper d (or_introl eq_refl))).
Qed.

End Full.
