(* C17: resolve_node_ages on ultrametric trees; concrete instances showing that the hypotheses of
   the exported theorems are satisfiable on non-trivial trees (no vacuous implications). *)
From Coq Require Import ZArith QArith List Bool Lia ZifyBool Permutation.
From DV Require Import Model.PyPrims Model.Tree Model.C17Model Proofs.C17Ages Proofs.C17AgesThm Proofs.C17Depth
     Proofs.C17Stats Proofs.C17Perm Proofs.C17Gamma Proofs.C17Fix.
Import ListNotations.
Open Scope Z_scope.

(* ------------------------------------------------------------------------------------------ *)
(* resolve_node_ages = calc_node_ages on exactly ultrametric trees with non-negative lengths   *)

Lemma fp_nonneg t : (forall v, In v (nonroot t) -> 0 <= elen v) -> 0 <= fp t.
Proof.
  induction t as [i x l e ks IH] using tree_ind'. intro H. destruct ks as [|k0 r]; [cbn; lia|].
  rewrite fp_cons. inversion IH as [|? ? Hk _]; subst.
  assert (0 <= elen k0). { apply H. unfold nonroot. cbn [t_kids flat_map]. apply in_or_app. left. apply in_preorder_self. }
  assert (0 <= fp k0).
  { apply Hk. intros v Hv. apply H. unfold nonroot in *. cbn [t_kids flat_map]. apply in_or_app. left.
    eapply in_preorder_trans; [apply in_preorder_self|]. rewrite preorder_unfold. right. exact Hv. }
  lia.
Qed.

Lemma exists_leaf_path t : exists vp, In vp (paths t) /\ t_kids (fst vp) = [].
Proof.
  assert (G : forall k, exists vp, In vp (epaths k) /\ t_kids (fst vp) = []).
  { induction k as [i x l e ks IH] using tree_ind'. rewrite epaths_unfold. destruct ks as [|k0 r].
    - exists (T i x l e [], [elen (T i x l e [])]). split; [left; reflexivity | reflexivity].
    - inversion IH as [|? ? Hk _]; subst. destruct Hk as [vp [Hvp Hl]].
      exists (fst vp, elen (T i x l e (k0 :: r)) :: snd vp). split; [|exact Hl]. right.
      cbn [t_kids flat_map]. apply in_or_app. left. apply in_map_iff. exists vp. split; [reflexivity | exact Hvp]. }
  destruct t as [i x l e ks]. destruct ks as [|k0 r].
  - exists (T i x l e [], []). split; [left; reflexivity | reflexivity].
  - destruct (G k0) as [vp [Hvp Hl]]. exists vp. split; [|exact Hl]. right. cbn [t_kids flat_map]. apply in_or_app. left. exact Hvp.
Qed.

Lemma paths_node_sub t vp : In vp (paths t) -> In (fst vp) (preorder t).
Proof. intro H. rewrite <- paths_fst. apply in_map. exact H. Qed.

Lemma nonroot_sub t v w : In v (preorder t) -> In w (nonroot v) -> In w (nonroot t).
Proof.
  intros Hv Hw. unfold nonroot in *. apply in_flat_map in Hw. destruct Hw as [c [Hc Hw]].
  assert (In w (preorder t)).
  { eapply in_preorder_trans; [exact Hv|]. eapply in_preorder_kid; eassumption. }
  apply in_preorder_inv in H. destruct H as [-> | [k [Hk H]]].
  - exfalso. (* w = t would make t a proper descendant of itself: sizes *)
    assert (Hs : forall a b, In b (preorder a) -> (size b <= size a)%nat).
    { induction a as [i x l e ks IH] using tree_ind'. intros b Hb. apply in_preorder_inv in Hb.
      destruct Hb as [-> | [k [Hk Hb]]]; [lia|]. rewrite Forall_forall in IH. specialize (IH k Hk b Hb).
      cbn [t_kids] in Hk. rewrite size_eq. clear - Hk IH. induction ks as [|c r IHr]; [destruct Hk|].
      rewrite sizes_cons. destruct Hk as [-> | Hk]; [lia|]. specialize (IHr Hk). lia. }
    assert (Hlt : forall a c, In c (t_kids a) -> (size c < size a)%nat).
    { intros [i x l e ks] c' Hc'. cbn [t_kids] in Hc'. rewrite size_eq. induction ks as [|c0 r IHr]; [destruct Hc'|].
      rewrite sizes_cons. destruct Hc' as [-> | Hc']; [lia|]. specialize (IHr Hc'). lia. }
    pose proof (Hs _ _ Hv). pose proof (Hlt _ _ Hc). pose proof (Hs _ _ Hw). lia.
  - apply in_flat_map. exists k. split; assumption.
Qed.

Lemma resolve_ages_exact_l : forall t,
  (forall v, In v (nonroot t) -> exists l, t_len v = Some l /\ 0 <= l) ->
  (forall v, In v (preorder t) -> forall d1 d2, In d1 (tipdists v) -> In d2 (tipdists v) -> d1 = d2) ->
  resolve_node_ages t = Ok (map (fun vp => (t_id (fst vp), fp (fst vp))) (paths t)).
Proof.
  intros t Hl Hex.
  assert (Hok : local_okb 0 t = true).
  { apply exact_local_ok; [lia|]. intros v Hv d1 d2 H1 H2. rewrite (Hex v Hv d1 d2 H1 H2). lia. }
  assert (Hdef : forall v, In v (nonroot t) -> t_len v <> None).
  { intros v Hv. destruct (Hl v Hv) as [l [E _]]. rewrite E. discriminate. }
  assert (Hnn : forall v, In v (nonroot t) -> 0 <= elen v).
  { intros v Hv. destruct (Hl v Hv) as [l [E H]]. unfold elen. rewrite E. exact H. }
  destruct (depth_exact_l t Hdef) as [_ [E _]]. unfold resolve_node_ages. rewrite E.
  unfold paths at 1. cbn [map]. fold (paths t).
  set (rest := map dentry_of (flat_map epaths (t_kids t))).
  change (d_depth (dentry_of (t, []))) with 0.
  assert (Hm : maxl 0 (map d_depth rest) = fp t).
  { destruct (maxl_spec 0 (map d_depth rest)) as [Hin Hle].
    assert (Hall : forall vp, In vp (paths t) -> sumZ (snd vp) <= fp t).
    { intros vp Hvp. pose proof (depth_plus_age_l t vp Hok Hvp) as Hd.
      assert (0 <= fp (fst vp)).
      { apply fp_nonneg. intros w Hw. apply Hnn. eapply nonroot_sub; [apply paths_node_sub; exact Hvp | exact Hw]. }
      lia. }
    assert (Hlist : 0 :: map d_depth rest = map (fun vp => sumZ (snd vp)) (paths t)).
    { unfold rest, paths. cbn [map snd]. apply f_equal2; [reflexivity|]. rewrite List.map_map. apply map_ext. intro vp. reflexivity. }
    assert (maxl 0 (map d_depth rest) <= fp t).
    { rewrite Hlist in Hin. apply in_map_iff in Hin. destruct Hin as [vp [<- Hvp]]. apply Hall. exact Hvp. }
    destruct (exists_leaf_path t) as [vp [Hvp Hleaf]].
    pose proof (depth_plus_age_l t vp Hok Hvp) as Hd.
    assert (fp (fst vp) = 0) by (destruct (fst vp) as [i x l e ks]; cbn [t_kids] in Hleaf; subst ks; reflexivity).
    assert (sumZ (snd vp) <= maxl 0 (map d_depth rest)).
    { apply Hle. rewrite Hlist. apply in_map_iff. exists vp. split; [reflexivity | exact Hvp]. }
    lia. }
  rewrite Hm. apply f_equal.
  change ((d_id (dentry_of (t, [])), fp t - 0) :: map (fun d => (d_id d, fp t - d_depth d)) rest)
    with (map (fun d => (d_id d, fp t - d_depth d)) (map dentry_of (paths t))).
  rewrite map_map.
  apply map_ext_in. intros vp Hvp. cbn [d_id d_depth dentry_of]. f_equal.
  pose proof (depth_plus_age_l t vp Hok Hvp). lia.
Qed.

(* ------------------------------------------------------------------------------------------ *)
(* satisfiable hypotheses                                                                      *)

Definition ultrab (eps : Z) (t : tree) : bool :=
  forallb (fun v => forallb (fun d1 => forallb (fun d2 => Z.abs (d1 - d2) <=? eps) (tipdists v)) (tipdists v)) (preorder t).

Lemma ultrab_ok eps t : ultrab eps t = true ->
  forall v, In v (preorder t) -> forall d1 d2, In d1 (tipdists v) -> In d2 (tipdists v) -> Z.abs (d1 - d2) <= eps.
Proof.
  intros H v Hv d1 d2 H1 H2. unfold ultrab in H. rewrite forallb_forall in H. specialize (H v Hv).
  rewrite forallb_forall in H. specialize (H d1 H1). rewrite forallb_forall in H. specialize (H d2 H2). lia.
Qed.

Definition lf (i l : Z) : tree := T i None None (Some l) [].
(* ((A:10,B:10):10,(C:5,D:5):15,E:20) with a root edge; exactly ultrametric, 8 nodes, a polytomy *)
Definition ex_ultra : tree :=
  T 0 None None (Some 7) [T 1 None None (Some 10) [lf 2 10; lf 3 10]; T 4 None None (Some 15) [lf 5 5; lf 6 5]; lf 7 20].
(* one tip 3 units too long: ultrametric within 3, not exactly *)
Definition ex_near : tree :=
  T 0 None None None [T 1 None None (Some 10) [lf 2 10; lf 3 13]; lf 4 20].
(* strictly bifurcating *)
Definition ex_bin : tree :=
  T 0 None None None [T 1 None None (Some 10) [lf 2 10; T 3 None None (Some 4) [lf 4 6; lf 5 6]]; lf 6 20].

Example ex_ages_exact_hyp :
  (forall v, In v (preorder ex_ultra) -> forall d1 d2, In d1 (tipdists v) -> In d2 (tipdists v) -> d1 = d2)
  /\ (forall v, In v (preorder ex_ultra) -> forall k, In k (t_kids v) -> t_len k <> None).
Proof.
  split.
  - intros v Hv d1 d2 H1 H2. pose proof (ultrab_ok 0 ex_ultra eq_refl v Hv d1 d2 H1 H2). lia.
  - intros v Hv k Hk. cbn in Hv. repeat (destruct Hv as [<- | Hv]; [cbn in Hk; repeat (destruct Hk as [<- | Hk]; [discriminate|]); destruct Hk|]). destruct Hv.
Qed.

Example ex_ages_within_hyp :
  (forall v, In v (preorder ex_near) -> forall d1 d2, In d1 (tipdists v) -> In d2 (tipdists v) -> Z.abs (d1 - d2) <= 3)
  /\ ~ (forall v, In v (preorder ex_near) -> forall d1 d2, In d1 (tipdists v) -> In d2 (tipdists v) -> d1 = d2)
  /\ exists a, calc_node_ages (mkCfg (PNum 3) false false) ex_near = COk a
  /\ exists n, calc_node_ages (mkCfg (PNum 2) false false) ex_near = CErr Ultra n.
Proof.
  split; [apply (ultrab_ok 3 ex_near eq_refl)|]. split.
  - intro H. specialize (H ex_near (or_introl eq_refl) 20 23). cbn in H. assert (20 = 23) by (apply H; auto). discriminate.
  - eexists. split; [vm_compute; reflexivity|]. eexists. vm_compute. reflexivity.
Qed.

Example ex_reject_sound_hyp : exists n, calc_node_ages (mkCfg (PNum 2) false false) ex_near = CErr Ultra n.
Proof. eexists. vm_compute. reflexivity. Qed.

Example ex_forced_hyp :
  (forall v, In v (preorder ex_near) -> forall k, In k (t_kids v) -> t_len k <> None)
  /\ exists a b, calc_node_ages (mkCfg (PNum 0) true false) ex_near = COk a
              /\ calc_node_ages (mkCfg (PNum 0) false true) ex_near = COk b /\ a_age a = 23 /\ a_age b = 20.
Proof.
  split.
  - intros v Hv k Hk. cbn in Hv. repeat (destruct Hv as [<- | Hv]; [cbn in Hk; repeat (destruct Hk as [<- | Hk]; [discriminate|]); destruct Hk|]). destruct Hv.
  - eexists. eexists. split; [vm_compute; reflexivity|]. split; [vm_compute; reflexivity|]. split; reflexivity.
Qed.

Example ex_roundtrip_hyp : exists a,
  calc_node_ages (mkCfg (PNum 0) false false) ex_ultra = COk a
  /\ (forall v, In v (preorder ex_ultra) -> forall k, In k (t_kids v) ->
        (forall m, Some 0 = Some m -> m <= elen k) /\ (true = true -> 0 <= elen k)).
Proof.
  eexists. split; [vm_compute; reflexivity|].
  intros v Hv k Hk. cbn in Hv.
  repeat (destruct Hv as [<- | Hv]; [cbn in Hk; repeat (destruct Hk as [<- | Hk]; [split; [intros m E; inversion E; subst; cbn; lia | intros _; cbn; lia]|]); destruct Hk|]).
  destruct Hv.
Qed.

Example ex_lineages_hyp :
  (forall v, In v (nonroot ex_ultra) -> exists l, t_len v = Some l /\ 0 < l)
  /\ num_lineages_at 12 ex_ultra = Ok 4 /\ num_lineages_at 10 ex_ultra = Ok 3 /\ num_lineages_at 20 ex_ultra = Ok 5.
Proof.
  split; [|repeat split; vm_compute; reflexivity].
  intros v Hv. cbn in Hv. repeat (destruct Hv as [<- | Hv]; [eexists; split; [reflexivity | lia]|]). destruct Hv.
Qed.

Example ex_binary_hyp :
  (forall v, In v (preorder ex_bin) -> t_kids v = [] \/ exists a b, t_kids v = [a; b])
  /\ colless_tree_imbalance (mkTr 0 0 0 1 0) NNone ex_bin = Ok (inject_Z 3)
  /\ exists p, pybus_harvey_gamma (PNum 0) ex_bin = GOk p /\ gp_n p = 4 /\ gp_T p = 56.
Proof.
  split.
  - intros v Hv. cbn in Hv. repeat (destruct Hv as [<- | Hv]; [cbn; first [left; reflexivity | right; eexists; eexists; reflexivity]|]). destruct Hv.
  - split; [vm_compute; reflexivity|]. eexists. split; [vm_compute; reflexivity|]. split; reflexivity.
Qed.

Example ex_treeness_hyp :
  (forall v, In v (nonroot ex_bin) -> t_len v <> None) /\ treeness ex_bin = Ok (14 # 56).
Proof.
  split; [|vm_compute; reflexivity].
  intros v Hv. cbn in Hv. repeat (destruct Hv as [<- | Hv]; [discriminate|]). destruct Hv.
Qed.

Example ex_gamma_exact_hyp :
  (forall v, In v (preorder ex_bin) -> forall d1 d2, In d1 (tipdists v) -> In d2 (tipdists v) -> d1 = d2).
Proof. intros v Hv d1 d2 H1 H2. pose proof (ultrab_ok 0 ex_bin eq_refl v Hv d1 d2 H1 H2). lia. Qed.

Example ex_fixed_rejects_f16 :
  exists n, calc_node_ages_fix (mkCfg (PNum 10) false false) f16_witness = CErr Ultra n.
Proof. eexists. vm_compute. reflexivity. Qed.
