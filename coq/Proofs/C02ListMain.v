(* C02 (tree lists): assembly of treelist_roundtrip. *)
From Coq Require Import ZArith List Bool Lia.
From DV Require Import Model.PyPrims Gen.CharClasses Model.Tokenizer Model.Newick Model.C02Spec Model.C02ListSpec
     Proofs.C02Main Proofs.C02ListMap Proofs.C02ListDoc.
Import ListNotations.
Open Scope Z_scope.

Lemma treelist_roundtrip_l :
  forall (L : Type) (render_len : L -> str) (parse_len : str -> option L) (lower : str -> str),
    (forall x, parse_len (render_len x) = Some x) ->
    (forall x, render_len x <> [] /\ forallb numeral_char (render_len x) = true) ->
  forall (o : rt_opts) (r : option bool) (t : ntree L) (ts : list (option bool * ntree L)),
    let doc := (r, t) :: ts in
    forallb (fun rt => wf_tree L o (snd rt)) doc = true ->
    Forall (fun rt => NoDup (map lower (taxa_order L o (snd rt)))) doc ->
    Forall (fun rt => rooting_consistent o (fst rt) = true) doc ->
    case_consistent lower (doc_taxa L o doc) ->
    let ns := first_occurrences lower (doc_taxa L o doc) in
    read_newick L parse_len lower (rt_ropts o) [] (write_tree_list L render_len (rt_wopts o) doc)
      = Ok (fst (expect_trees L lower o doc []), ns)
    /\ Forall2 (fun rt pr => pr_is_rooted pr = fst rt /\ pr_comments pr = [] /\
                             resolve L ns (pr_tree pr) = Some (norm L (snd rt)))
               doc (fst (expect_trees L lower o doc [])).
Proof.
  intros L render_len parse_len lower Hrt Hpl o r t ts doc Hwf Hnd Hroot Hcc ns. subst doc ns.
  assert (Ens : snd (expect_trees L lower o ((r, t) :: ts) []) = first_occurrences lower (doc_taxa L o ((r, t) :: ts)))
    by apply expect_trees_ns.
  split.
  - pose proof (treelist_read L render_len parse_len lower Hrt Hpl o r t ts Hwf Hnd Hroot) as H. cbv zeta in H.
    rewrite H, Ens. reflexivity.
  - pose proof (expect_trees_resolve L lower o ((r, t) :: ts) [] (doc_taxa L o ((r, t) :: ts)) [] Hwf Hcc) as H.
    rewrite app_nil_r, Ens in H. apply H; [intros x [] | apply incl_refl].
Qed.

(* non-vacuity: three trees sharing taxa, one re-used with the same spelling, different rooting states *)
Definition ex_doc : list (option bool * ntree str) :=
  [(Some true, ex_tree);
   (None, Nd None None None [Nd (Some [40; 41]) None None []; Nd (Some [122]) None (Some [50]) []]);
   (Some false, Nd (Some [97; 32; 98]) None (Some [49]) [])].

Example ex_doc_ok :
  forallb (fun rt => wf_tree str rt_default (snd rt)) ex_doc = true /\
  read_newick str parse_num (fun s => s) (rt_ropts rt_default) []
              (write_tree_list str (fun x => x) (rt_wopts rt_default) ex_doc)
  = Ok (fst (expect_trees str (fun s => s) rt_default ex_doc []),
        first_occurrences (fun s => s) (doc_taxa str rt_default ex_doc)).
Proof. vm_compute. split; reflexivity. Qed.

(* an EMPTY tree list is written as the empty document, which the reader rejects *)
Lemma empty_treelist :
  write_tree_list str (fun x => x) (rt_wopts rt_default) [] = [] /\
  read_newick str parse_num (fun s => s) (rt_ropts rt_default) [] [] = Err ParseErr.
Proof. vm_compute. split; reflexivity. Qed.
