(* C20: witnesses on the NEXUS control skeleton (Model/C20Nexus2.v): the recorded defect sites of the
   current reader on the faithful form, the same documents on the repaired form, and every prefix of
   concrete valid documents (sequential, interleaved, with TREES / TRANSLATE / SETS). *)
From Coq Require Import String Ascii ZArith NArith List Bool Lia.
From DV Require Import Model.PyPrims Gen.CharClasses Gen.ReaderLoops Model.Tokenizer Model.Newick
                       Model.C20Model Model.C20Nexus2.
Import ListNotations.
Close Scope string_scope.
Open Scope list_scope.
Open Scope Z_scope.

(* DNA / RNA / NUCLEOTIDE tables (upper and lower case A C G T U, gap, missing, N); PROTEIN is not used *)
Definition w_sym_ok (code c : Z) : bool :=
  zmem c [65; 67; 71; 84; 85; 78; 45; 63; 97; 99; 103; 116; 117; 110].
Definition w_is_float (s : str) : bool := all_digits ascii_dval s.

Definition run (fx : nfix) (text : string) : nr nstate :=
  nexus_read fx ascii_upper ascii_lower ascii_dval w_sym_ok w_is_float (s_of text).

Definition cls {A} (r : nr A) : option err :=
  match r with ROk _ => None | RErr e => Some e | RFuel => Some Hang end.

Local Open Scope string_scope.
Definition taxa2 := "#NEXUS BEGIN TAXA; DIMENSIONS NTAX=2; TAXLABELS A B; END; ".
Definition w_cblock := taxa2 ++ "BEGIN CHARACTERS; DIMENSIONS NCHAR=3; FORMAT DATATYPE=CONTINUOUS; MATRIX A 1 2 3 B 1 2 ; END;".
Definition w_alpha_dup := taxa2 ++ "BEGIN CHARACTERS; DIMENSIONS NCHAR=2; FORMAT SYMBOLS=""AB BA""; MATRIX A AB B BA ; END;".
Definition w_alpha_empty := taxa2 ++ "BEGIN CHARACTERS; DIMENSIONS NCHAR=2; FORMAT SYMBOLS=""""; MATRIX A 01 B 10 ; END;".
Definition w_ildims := taxa2 ++ "BEGIN CHARACTERS; DIMENSIONS NCHAR=4; FORMAT DATATYPE=DNA INTERLEAVE; MATRIX
A AC
B AC

A GT
B G
; END;".
Definition w_rows_fewer := "#NEXUS BEGIN DATA; DIMENSIONS NTAX=3 NCHAR=2; FORMAT DATATYPE=DNA; MATRIX A AC B AC ; END;".
Definition w_valid := taxa2 ++ "BEGIN CHARACTERS; DIMENSIONS NCHAR=4; FORMAT DATATYPE=DNA GAP=- MISSING=?; MATRIX A AC{GT}T B A(CG)-? ; END; BEGIN TREES; TRANSLATE 1 A, 2 B; TREE t = (1,2); END; BEGIN SETS; CHARSET x = 1-2 4; END;".
Definition w_valid_interleaved := taxa2 ++ "BEGIN CHARACTERS; DIMENSIONS NCHAR=4; FORMAT DATATYPE=DNA INTERLEAVE; MATRIX
A AC
B AC

A GT
B GT
; END;
BEGIN TREES; TREE t = (A,B); END;
".
Definition w_valid_standard := taxa2 ++ "BEGIN CHARACTERS; DIMENSIONS NCHAR=3; FORMAT SYMBOLS=""0 1 2"" MISSING=? GAP=-; MATRIX A 01- B 2?0 ; END;".
Local Close Scope string_scope.

(* the current form: a leaked internal exception, ValueError, TypeError *)
Lemma nexus2_internal_error_witnesses_l :
  cls (run nfix_none w_cblock) = Some OtherErr
  /\ cls (run nfix_none w_alpha_dup) = Some ValueErr
  /\ cls (run nfix_none w_alpha_empty) = Some TypeErr.
Proof. repeat split; vm_compute; reflexivity. Qed.

(* the current form returns an interleaved matrix with a row shorter than NCHAR, and a matrix with fewer
   rows than NTAX *)
Lemma nexus2_dims_witnesses_l :
  match run nfix_none w_ildims with
  | ROk st => rows_short st 4 = true
  | _ => False
  end
  /\ match run nfix_all w_rows_fewer with
     | ROk st => match n_ntax st, n_mats st with
                 | Some ntax, [m] => (Z.of_nat (length (m_rows m)) <? ntax) = true
                 | _, _ => False
                 end
     | _ => False
     end.
Proof. split; vm_compute; reflexivity. Qed.

(* the repaired form: parse errors; the valid documents read on both forms *)
Lemma nexus2_repaired_witnesses_l :
  forallb (fun w => match cls (run nfix_all w) with Some ParseErr => true | _ => false end)
          [w_cblock; w_alpha_dup; w_alpha_empty; w_ildims] = true
  /\ forallb (fun w => match cls (run nfix_all w), cls (run nfix_none w) with None, None => true | _, _ => false end)
             [w_valid; w_valid_interleaved; w_valid_standard] = true.
Proof. split; vm_compute; reflexivity. Qed.

(* every prefix of the valid documents: Ok or ParseErr (crash-point quantifier, concrete documents) *)
Definition prefixes_ok (fx : nfix) (w : string) : bool :=
  forallb (fun k => match cls (nexus_read fx ascii_upper ascii_lower ascii_dval w_sym_ok w_is_float
                                           (firstn k (s_of w))) with
                    | None | Some ParseErr => true
                    | _ => false
                    end) (seq 0 (S (String.length w))).

Lemma nexus2_prefix_closed_examples_l :
  prefixes_ok nfix_all w_valid = true /\ prefixes_ok nfix_all w_valid_interleaved = true
  /\ prefixes_ok nfix_all w_valid_standard = true.
Proof. repeat split; vm_compute; reflexivity. Qed.
