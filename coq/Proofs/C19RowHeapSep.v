(* C19, object level: the separation invariant.  No row object is held by two (matrix, taxon) slots in any
   state reachable by the operations that copy (everything except m[k] = o[t] and copy.copy). *)
From Coq Require Import ZArith List Bool Lia.
From DV Require Import Model.PyPrims Model.C19Model Model.C19RowHeap Proofs.C19Alist.
Import ListNotations.
Open Scope Z_scope.

(* ---- ids of association lists ---- *)
Lemma ids_aput_in (t : tid) (x : rid) (sr : orows) r : In r (ids (aput t x sr)) -> r = x \/ In r (ids sr).
Proof.
  induction sr as [|[k v] sr IH]; simpl.
  - intros [H|[]]; left; symmetry; exact H.
  - destruct (Z.eqb t k); simpl; intros [H|H]; auto. destruct (IH H); auto.
Qed.

Lemma ids_aput_nodup (t : tid) (x : rid) (sr : orows) : NoDup (ids sr) -> ~ In x (ids sr) -> NoDup (ids (aput t x sr)).
Proof.
  induction sr as [|[k v] sr IH]; simpl; intros N Hx.
  - constructor; [intros []|constructor].
  - inversion N as [|? ? Hv N']; subst. destruct (Z.eqb t k); simpl.
    + constructor; [tauto | exact N'].
    + constructor; [|apply IH; tauto]. intros H. apply ids_aput_in in H. destruct H; [subst; tauto | tauto].
Qed.

Lemma ids_adel_in (t : tid) (sr : orows) r : In r (ids (adel t sr)) -> In r (ids sr).
Proof.
  induction sr as [|[k v] sr IH]; simpl; [tauto|]. destruct (Z.eqb t k); simpl; [tauto|]. intros [H|H]; auto.
Qed.

Lemma ids_adel_nodup (t : tid) (sr : orows) : NoDup (ids sr) -> NoDup (ids (adel t sr)).
Proof.
  induction sr as [|[k v] sr IH]; simpl; intros N; [constructor|].
  inversion N as [|? ? Hv N']; subst. destruct (Z.eqb t k); simpl; [exact N'|].
  constructor; [|apply IH; exact N']. intros H. apply ids_adel_in in H. tauto.
Qed.

Lemma ids_filter_in (P : tid * rid -> bool) (sr : orows) r : In r (ids (filter P sr)) -> In r (ids sr).
Proof.
  unfold ids. rewrite !in_map_iff. intros [p [E H]]. apply filter_In in H. exists p. tauto.
Qed.

Lemma ids_filter_nodup (P : tid * rid -> bool) (sr : orows) : NoDup (ids sr) -> NoDup (ids (filter P sr)).
Proof.
  induction sr as [|p sr IH]; simpl; intros N; [constructor|].
  inversion N as [|? ? Hv N']; subst. destruct (P p); simpl; [|apply IH; exact N'].
  constructor; [|apply IH; exact N']. intros H. apply ids_filter_in in H. tauto.
Qed.

Lemma aget_ids (t : tid) (sr : orows) r : aget t sr = Some r -> In r (ids sr).
Proof. intros H. apply aget_Some_In in H. unfold ids. apply in_map_iff. exists (t, r). auto. Qed.

(* ---- the rows of one matrix during an operation ----
   n0 = next free id when the operation started, old = the ids the matrix held then *)
Definition good (n0 : rid) (old : list rid) (st : store * orows) : Prop :=
  n0 <= s_next (fst st) /\ NoDup (ids (snd st)) /\
  (forall r, In r (ids (snd st)) -> r < s_next (fst st)) /\
  (forall r, In r (ids (snd st)) -> In r old \/ n0 <= r).

Lemma good_start (s : store) (sr : orows) :
  NoDup (ids sr) -> (forall r, In r (ids sr) -> r < s_next s) -> good (s_next s) (ids sr) (s, sr).
Proof. intros N B. repeat split; simpl; auto; lia. Qed.

Lemma good_store n0 old s s' sr : s_next s' = s_next s -> good n0 old (s, sr) -> good n0 old (s', sr).
Proof. unfold good; simpl. intros E. rewrite E. tauto. Qed.

Lemma good_put n0 old s sr t c : good n0 old (s, sr) -> good n0 old (fst (alloc s c), aput t (snd (alloc s c)) sr).
Proof.
  unfold good; simpl. intros [L [N [B O]]]. repeat split.
  - lia.
  - apply ids_aput_nodup; [exact N|]. intros H. apply B in H. lia.
  - intros r H. apply ids_aput_in in H. destruct H as [->|H]; [lia | apply B in H; lia].
  - intros r H. apply ids_aput_in in H. destruct H as [->|H]; [right; lia | auto].
Qed.

Lemma good_alloc n0 old s sr c : good n0 old (s, sr) -> good n0 old (fst (alloc s c), sr).
Proof.
  unfold good; simpl. intros [L [N [B O]]]. repeat split; auto; [lia|]. intros r H. apply B in H. lia.
Qed.

Lemma good_sub n0 old s sr sr' :
  NoDup (ids sr') -> (forall r, In r (ids sr') -> In r (ids sr)) -> good n0 old (s, sr) -> good n0 old (s, sr').
Proof. unfold good; simpl. intros N' I [L [N [B O]]]. repeat split; auto. Qed.

Lemma fold_good {A} n0 old (f : store * orows -> A -> store * orows) (l : list A) :
  (forall st x, good n0 old st -> good n0 old (f st x)) ->
  forall st, good n0 old st -> good n0 old (fold_left f l st).
Proof. intros H. induction l as [|x l IH]; simpl; intros st G; [exact G | apply IH, H, G]. Qed.

Lemma good_copy_in n0 old st t ro : good n0 old st -> good n0 old (o_copy_in st t ro).
Proof. destruct st as [s sr]. intros G. unfold o_copy_in. simpl fst; simpl snd. apply (good_put _ _ _ _ t (hget s ro) G). Qed.

Lemma good_extend_in n0 old st rs ro : good n0 old st -> good n0 old (o_extend_in st rs ro).
Proof. destruct st as [s sr]. intros G. unfold o_extend_in. eapply good_store; [|exact G]. reflexivity. Qed.

Lemma good_add n0 old st o : good n0 old st -> good n0 old (o_add_rows st o).
Proof. apply fold_good. intros s p G. destruct (ahas _ _); [exact G | apply good_copy_in, G]. Qed.

Lemma good_replace n0 old st o : good n0 old st -> good n0 old (o_replace_rows st o).
Proof. apply fold_good. intros s p G. destruct (ahas _ _); [apply good_copy_in, G | exact G]. Qed.

Lemma good_update n0 old st o : good n0 old st -> good n0 old (o_update_rows st o).
Proof. apply fold_good. intros s p G. apply good_copy_in, G. Qed.

Lemma good_extend b n0 old st o : good n0 old st -> good n0 old (o_extend_rows b st o).
Proof.
  apply fold_good. intros s p G. destruct (aget _ _); [apply good_extend_in, G|].
  destruct b; [apply good_copy_in, G | exact G].
Qed.

Lemma good_extend_matrix n0 old st o : good n0 old st -> good n0 old (o_extend_matrix_rows st o).
Proof. apply fold_good. intros s p G. destruct (aget _ _); [apply good_extend_in, G | apply good_copy_in, G]. Qed.

Lemma good_fill_taxa g T n0 old st : good n0 old st -> good n0 old (o_fill_taxa_rows g T st).
Proof.
  apply fold_good. intros [s sr] t G. simpl. destruct (ahas t sr); [exact G|].
  destruct g.
  - apply (good_put _ _ _ _ t [] G).
  - pose proof (good_alloc _ _ _ _ [] G) as G1.
    apply (good_put _ _ _ _ t (hget (fst (alloc s [])) (snd (alloc s []))) G1).
Qed.

Lemma fill_store_next T v size app sr : forall s, s_next (o_fill_store T v size app s sr) = s_next s.
Proof.
  unfold o_fill_store. induction (oitems T sr) as [|p l IH]; simpl; intros s; [reflexivity|]. rewrite IH. reflexivity.
Qed.

Lemma select_store_next T idx cr : forall s, s_next (o_select_store T idx s cr) = s_next s.
Proof.
  unfold o_select_store. induction (oitems T cr) as [|p l IH]; simpl; intros s; [reflexivity|]. rewrite IH. reflexivity.
Qed.

Lemma good_remove n0 old s : forall ts sr, good n0 old (s, sr) -> good n0 old (s, fst (o_remove_rows sr ts)).
Proof.
  induction ts as [|t ts IH]; simpl; intros sr G; [exact G|].
  destruct (ahas t sr); [|exact G]. apply IH. eapply good_sub; [| |exact G].
  - apply ids_adel_nodup. apply G.
  - intros r. apply ids_adel_in.
Qed.

Lemma good_discard n0 old s : forall ts sr, good n0 old (s, sr) -> good n0 old (s, o_discard_rows sr ts).
Proof.
  unfold o_discard_rows. induction ts as [|t ts IH]; simpl; intros sr G; [exact G|].
  apply IH. destruct (ahas t sr); [|exact G]. eapply good_sub; [| |exact G].
  - apply ids_adel_nodup. apply G.
  - intros r. apply ids_adel_in.
Qed.

Lemma good_keep n0 old s ts sr : good n0 old (s, sr) -> good n0 old (s, o_keep_rows sr ts).
Proof.
  intros G. eapply good_sub; [| |exact G].
  - apply ids_filter_nodup. apply G.
  - intros r. apply ids_filter_in.
Qed.

(* fresh rows: deep copy / install *)
Definition fresh_rows (s s' : store) (out : orows) : Prop :=
  s_next s <= s_next s' /\ NoDup (ids out) /\ forall r, In r (ids out) -> s_next s <= r < s_next s'.

Lemma deepcopy_fresh : forall sr s (memo : list (rid * rid)),
  NoDup (ids sr) -> (forall r, In r (ids sr) -> aget r memo = None) ->
  fresh_rows s (fst (o_deepcopy_rows s memo sr)) (snd (o_deepcopy_rows s memo sr)).
Proof.
  induction sr as [|[t r] sr IH]; intros s memo N M.
  - simpl. split; [lia|]. split; [constructor | intros r []].
  - simpl. rewrite (M r) by (simpl; auto). inversion N as [|? ? Hr N']; subst.
    specialize (IH (fst (alloc s (hget s r))) ((r, snd (alloc s (hget s r))) :: memo) N').
    simpl in IH.
    assert (M' : forall r0, In r0 (ids sr) -> (if Z.eqb r0 r then Some (s_next s) else aget r0 memo) = None).
    { intros r0 H0. destruct (Z.eqb_spec r0 r); [subst; tauto | apply M; simpl; auto]. }
    specialize (IH M').
    destruct (o_deepcopy_rows _ _ sr) as [s' out] eqn:E. simpl in IH. simpl.
    destruct IH as [L [N2 B]]. cbn [s_next] in L, B. unfold fresh_rows. cbn [ids map snd]. split; [lia|]. split.
    + constructor; [|exact N2]. intros H. apply B in H. lia.
    + intros x [<-|H]; [lia | apply B in H; lia].
Qed.

Lemma install_fresh : forall rs s,
  fresh_rows s (fst (o_install_rows s rs)) (snd (o_install_rows s rs)).
Proof.
  induction rs as [|[t c] rs IH]; intros s.
  - simpl. split; [lia|]. split; [constructor | intros r []].
  - simpl. specialize (IH (fst (alloc s c))). simpl in IH.
    destruct (o_install_rows _ rs) as [s' out] eqn:E. simpl in IH. simpl.
    destruct IH as [L [N2 B]]. cbn [s_next] in L, B. unfold fresh_rows. cbn [ids map snd]. split; [lia|]. split.
    + constructor; [|exact N2]. intros H. apply B in H. lia.
    + intros x [<-|H]; [lia | apply B in H; lia].
Qed.

Lemma good_fresh n0 s s' out : n0 <= s_next s -> fresh_rows s s' out -> good n0 [] (s', out).
Proof.
  intros L [L' [N B]]. repeat split; simpl; auto; [lia| |]; intros r H; apply B in H; [lia | right; lia].
Qed.

(* ---- the world ---- *)
Definition NoSharing (w : oworld) : Prop := NoDup (all_ids w).
Definition sep (w : oworld) : Prop := NoSharing w /\ forall r, In r (all_ids w) -> r < s_next (ow_store w).

Definition mids (ms : list (mid * omatrix)) : list rid := flat_map (fun p => ids (om_rows (snd p))) ms.

Lemma mids_aget j ms mm r : aget j ms = Some mm -> In r (ids (om_rows mm)) -> In r (mids ms).
Proof.
  intros H I. apply aget_Some_In in H. unfold mids. apply in_flat_map. exists (j, mm). auto.
Qed.

Lemma NoDup_app_inv {A} (l1 l2 : list A) : NoDup (l1 ++ l2) -> NoDup l1 /\ NoDup l2 /\ forall x, In x l1 -> ~ In x l2.
Proof.
  induction l1 as [|a l1 IH]; simpl; intros N.
  - repeat split; [constructor | exact N | intros x []].
  - inversion N as [|? ? Ha N']; subst. destruct (IH N') as [N1 [N2 D]]. repeat split.
    + constructor; [|exact N1]. intros H. apply Ha. apply in_or_app. auto.
    + exact N2.
    + intros x [->|H]; [intros H2; apply Ha, in_or_app; auto | apply D, H].
Qed.

(* replacing the rows of matrix j by rows that are its old ones or fresh *)
Lemma mids_aput n j mm' : forall ms mm,
  aget j ms = Some mm -> NoDup (mids ms) -> (forall r, In r (mids ms) -> r < n) ->
  NoDup (ids (om_rows mm')) ->
  (forall r, In r (ids (om_rows mm')) -> In r (ids (om_rows mm)) \/ n <= r) ->
  NoDup (mids (aput j mm' ms)) /\
  (forall r, In r (mids (aput j mm' ms)) -> In r (mids ms) \/ In r (ids (om_rows mm'))).
Proof.
  induction ms as [|[k x] ms IH]; simpl; intros mm H N B N' O; [discriminate|].
  destruct (Z.eqb j k).
  - inversion H; subst x. simpl. destruct (NoDup_app_inv _ _ N) as [N1 [N2 D]]. split.
    + apply NoDup_app_intro; [exact N' | exact N2|]. intros r Hr Hr2.
      destruct (O r Hr) as [Ho|Ho]; [apply (D r Ho Hr2)|].
      assert (r < n) by (apply B, in_or_app; auto). lia.
    + intros r Hr. apply in_app_or in Hr. destruct Hr; [right; assumption | left; apply in_or_app; auto].
  - simpl. destruct (NoDup_app_inv _ _ N) as [N1 [N2 D]].
    destruct (IH mm H N2 (fun r Hr => B r (in_or_app _ _ _ (or_intror Hr))) N' O) as [NI SI]. split.
    + apply NoDup_app_intro; [exact N1 | exact NI|]. intros r Hr Hr2.
      destruct (SI r Hr2) as [S|S]; [apply (D r Hr S)|].
      destruct (O r S) as [Ho|Ho].
      * apply (D r Hr). apply (mids_aget j ms mm r H Ho).
      * assert (r < n) by (apply B, in_or_app; auto). lia.
    + intros r Hr. apply in_app_or in Hr. destruct Hr as [Hr|Hr]; [left; apply in_or_app; auto|].
      destruct (SI r Hr); [left; apply in_or_app; auto | right; assumption].
Qed.

Lemma mids_app ms j mm : mids (ms ++ [(j, mm)]) = mids ms ++ ids (om_rows mm).
Proof. unfold mids. rewrite flat_map_app. simpl. rewrite app_nil_r. reflexivity. Qed.

Section L.
Variable lower : lbl -> lbl.
Variable suffix : lbl -> Z -> lbl.
Variable locus : Z -> lbl.

(* an operation on matrix m that leaves `good` rows and a store that only grew *)
Lemma sep_oupd w m mm mm' s' :
  sep w -> aget m (ow_ms w) = Some mm ->
  good (s_next (ow_store w)) (ids (om_rows mm)) (s', om_rows mm') ->
  sep (oupd w s' m mm').
Proof.
  intros [N B] H [L [N' [B' O]]]. simpl in *.
  destruct (mids_aput (s_next (ow_store w)) m mm' (ow_ms w) mm H N B N' O) as [NI SI].
  split; [exact NI|]. unfold all_ids. simpl. intros r Hr. destruct (SI r Hr) as [S|S].
  - apply B in S. lia.
  - apply B'. exact S.
Qed.

Lemma sep_good_start w m mm :
  sep w -> aget m (ow_ms w) = Some mm ->
  good (s_next (ow_store w)) (ids (om_rows mm)) (ow_store w, om_rows mm).
Proof.
  intros [N B] H. apply good_start.
  - unfold NoSharing, all_ids in N. apply aget_Some_In in H. clear B.
    induction (ow_ms w) as [|p l IH]; simpl in *; [tauto|].
    destruct (NoDup_app_inv _ _ N) as [N1 [N2 _]]. destruct H as [->|H]; [exact N1 | apply IH; assumption].
  - intros r Hr. apply B. apply (mids_aget m (ow_ms w) mm r H Hr).
Qed.

Lemma sep_oadd_new w s' mm :
  sep w -> good (s_next (ow_store w)) [] (s', om_rows mm) -> sep (oadd_new w s' mm).
Proof.
  intros [N B] [L [N' [B' O]]]. simpl in *. split.
  - unfold NoSharing, all_ids. simpl. fold (mids (ow_ms w ++ [(ow_next w, mm)])). rewrite mids_app.
    apply NoDup_app_intro; [exact N | exact N'|]. intros r Hr Hr2. apply B in Hr.
    destruct (O r Hr2) as [[]|Ho]. lia.
  - unfold all_ids. simpl. fold (mids (ow_ms w ++ [(ow_next w, mm)])). rewrite mids_app.
    intros r Hr. apply in_app_or in Hr. destruct Hr as [Hr|Hr]; [apply B in Hr; lia | apply B', Hr].
Qed.

Lemma sep_store w s' : sep w -> s_next (ow_store w) <= s_next s' ->
  sep (mkOW (ow_nss w) s' (ow_ms w) (ow_next w) (ow_generic w)).
Proof. intros [N B] L. split; [exact N|]. unfold all_ids. simpl. intros r Hr. apply B in Hr. lia. Qed.

Lemma good_binary f w m mm mo s' mm' :
  (forall n0 old st o, good n0 old st -> good n0 old (f st o)) ->
  sep w -> aget m (ow_ms w) = Some mm ->
  o_binary f (ow_store w) mm mo = Ok (s', mm') ->
  good (s_next (ow_store w)) (ids (om_rows mm)) (s', om_rows mm').
Proof.
  intros Hf S H E. unfold o_binary in E. destruct (negb _); [discriminate|].
  pose proof (Hf _ _ _ (om_rows mo) (sep_good_start w m mm S H)) as G.
  destruct (f _ _) as [s2 sr2]. inversion E; subst. exact G.
Qed.

Lemma good_concat_loop T ns0 nseqs n0 : forall cms cidx s acc pos s' r,
  good n0 [] (s, om_rows acc) ->
  o_concat_loop lower suffix locus T ns0 nseqs cms cidx s acc pos = Ok (s', r) ->
  good n0 [] (s', om_rows r).
Proof.
  induction cms as [|cm rest IH]; intros cidx s acc pos s' r G E.
  - simpl in E. inversion E; subst. exact G.
  - cbn [o_concat_loop] in E.
    destruct (negb (Z.eqb (om_ns cm) ns0)); [discriminate|].
    destruct (negb (Z.eqb (zlen (om_rows cm)) (zlen T))); [discriminate|].
    destruct (negb (Z.eqb (zlen (om_rows cm)) nseqs)); [discriminate|].
    destruct T as [|t0 T']; [discriminate|].
    destruct (aget t0 (om_rows cm)) as [r0|]; [|discriminate].
    destruct (negb (forallb _ _)); [discriminate|].
    unfold o_binary in E. destruct (negb (Z.eqb (om_ns cm) (om_ns acc))); [discriminate|].
    pose proof (good_extend_matrix n0 [] (s, om_rows acc) (om_rows cm) G) as G1.
    destruct (o_extend_matrix_rows (s, om_rows acc) (om_rows cm)) as [s1 sr1].
    cbv beta iota zeta in E.
    destruct (free_name _ _ _ _ _ _ _) as [cs| |]; try discriminate E.
    unfold o_new_character_subset in E.
    destruct (has_key _ _ _); [discriminate E|].
    eapply IH; [|exact E]. simpl. exact G1.
Qed.

Lemma getitem_good T w m mm k s' mm' r :
  sep w -> aget m (ow_ms w) = Some mm ->
  o_getitem T (ow_store w) mm k = Ok (s', mm', r) ->
  good (s_next (ow_store w)) (ids (om_rows mm)) (s', om_rows mm').
Proof.
  intros S H E. pose proof (sep_good_start w m mm S H) as G. unfold o_getitem in E.
  destruct (resolve_key T k) as [t| |]; try discriminate.
  destruct (aget t (om_rows mm)) as [r1|].
  - inversion E; subst. exact G.
  - unfold o_new_sequence in E. destruct (ahas t (om_rows mm)); [discriminate|].
    destruct (negb (memb t T)); [discriminate|]. inversion E; subst. simpl.
    apply (good_put _ _ _ _ t [] G).
Qed.

Lemma rowop_sep w m k f : sep w -> sep (fst (o_rowop w m k f)).
Proof.
  intros S. unfold o_rowop, owith1. destruct (aget m (ow_ms w)) as [mm|] eqn:H; [|exact S].
  destruct (o_getitem _ _ mm k) as [[[s' mm'] r]| |] eqn:E; simpl; try exact S.
  pose proof (getitem_good _ w m mm k s' mm' r S H E) as G.
  destruct (apply_rowop f (hget s' r)); simpl; (eapply sep_oupd; [exact S | exact H|]); [eapply good_store; [|exact G]; reflexivity | exact G].
Qed.

Theorem o_step_sep w o : copying o = true -> sep w -> sep (fst (o_step lower suffix locus w o)).
Proof.
  intros C S. destruct o as [b|m k v|m k vs|m k i v|m k i|m k o t|m]; try discriminate C.
  - (* base operations *)
    destruct b as [l|l|m idx|m l|m v size append|m|m v size append|m o|m o|m o|m o addnew|m o|m ts|m ts|m ts|m t vals|m k vals|m k|m l idx]; simpl; unfold owith1, owith2, obad_id, olift, olift_new.
    + (* Concat *)
      destruct (oget_all (ow_ms w) l) as [cms|]; [|exact S].
      destruct (o_concatenate _ _ _ _ _ cms) as [[s' r]| |] eqn:E; simpl; try exact S.
      apply sep_oadd_new; [exact S|]. unfold o_concatenate in E. destruct cms as [|c0 rest]; [discriminate|].
      eapply good_concat_loop; [|exact E]. simpl. split; [simpl; lia|]. split; [constructor|]. split; intros r0 [].
    + (* ConcatRead *)
      destruct (oget_all (ow_ms w) l) as [cms|]; [|exact S].
      destruct (concatenate _ _ _ _ _) as [vm| |]; simpl; try exact S.
      unfold o_install. pose proof (install_fresh (m_rows vm) (ow_store w)) as F.
      destruct (o_install_rows (ow_store w) (m_rows vm)) as [s' sr]. simpl.
      apply sep_oadd_new; [exact S|]. simpl. eapply good_fresh; [|exact F]. lia.
    + (* ExportIdx *)
      destruct (aget m (ow_ms w)) as [mm|] eqn:H; [|exact S]. simpl.
      unfold o_export. pose proof (sep_good_start w m mm S H) as G0.
      pose proof (deepcopy_fresh (om_rows mm) (ow_store w) [] (proj1 (proj2 G0)) (fun _ _ => eq_refl)) as F.
      revert F. destruct (o_deepcopy_rows (ow_store w) [] (om_rows mm)) as [s1 cr]. intros F. simpl in F |- *.
      apply sep_oadd_new; [exact S|]. simpl.
      eapply good_store; [apply select_store_next|]. eapply good_fresh; [|exact F]. lia.
    + (* ExportSub *)
      destruct (aget m (ow_ms w)) as [mm|] eqn:H; [|exact S].
      destruct (find_sub lower l (om_subs mm)) as [idx|]; [|exact S]. simpl.
      unfold o_export. pose proof (sep_good_start w m mm S H) as G0.
      pose proof (deepcopy_fresh (om_rows mm) (ow_store w) [] (proj1 (proj2 G0)) (fun _ _ => eq_refl)) as F.
      revert F. destruct (o_deepcopy_rows (ow_store w) [] (om_rows mm)) as [s1 cr]. intros F. simpl in F |- *.
      apply sep_oadd_new; [exact S|]. simpl.
      eapply good_store; [apply select_store_next|]. eapply good_fresh; [|exact F]. lia.
    + (* Fill *)
      destruct (aget m (ow_ms w)) as [mm|] eqn:H; [|exact S]. unfold o_fill. simpl.
      eapply sep_oupd; [exact S | exact H|].
      eapply good_store; [apply fill_store_next|]. apply (sep_good_start w m mm S H).
    + (* FillTaxa *)
      destruct (aget m (ow_ms w)) as [mm|] eqn:H; [|exact S].
      pose proof (good_fill_taxa (ow_generic w) (otaxa_of w (om_ns mm)) _ _ _ (sep_good_start w m mm S H)) as G.
      destruct (o_fill_taxa_rows _ _ _) as [s' sr]. simpl. eapply sep_oupd; [exact S | exact H | exact G].
    + (* Pack *)
      destruct (aget m (ow_ms w)) as [mm|] eqn:H; [|exact S]. unfold o_pack.
      pose proof (good_fill_taxa (ow_generic w) (otaxa_of w (om_ns mm)) _ _ _ (sep_good_start w m mm S H)) as G.
      destruct (o_fill_taxa_rows _ _ _) as [s1 sr]. unfold o_fill. simpl.
      eapply sep_oupd; [exact S | exact H|]. simpl. eapply good_store; [apply fill_store_next | exact G].
    + (* AddSeqs *)
      destruct (aget m (ow_ms w)) as [mm|] eqn:H; [|exact S]. destruct (aget o (ow_ms w)) as [mo|]; [|exact S].
      destruct (o_binary _ _ mm mo) as [[s' mm']| |] eqn:E; simpl; try exact S.
      eapply sep_oupd; [exact S | exact H|]. eapply (good_binary o_add_rows); eauto. intros; apply good_add; assumption.
    + destruct (aget m (ow_ms w)) as [mm|] eqn:H; [|exact S]. destruct (aget o (ow_ms w)) as [mo|]; [|exact S].
      destruct (o_binary _ _ mm mo) as [[s' mm']| |] eqn:E; simpl; try exact S.
      eapply sep_oupd; [exact S | exact H|]. eapply (good_binary o_replace_rows); eauto. intros; apply good_replace; assumption.
    + destruct (aget m (ow_ms w)) as [mm|] eqn:H; [|exact S]. destruct (aget o (ow_ms w)) as [mo|]; [|exact S].
      destruct (o_binary _ _ mm mo) as [[s' mm']| |] eqn:E; simpl; try exact S.
      eapply sep_oupd; [exact S | exact H|]. eapply (good_binary o_update_rows); eauto. intros; apply good_update; assumption.
    + destruct (aget m (ow_ms w)) as [mm|] eqn:H; [|exact S]. destruct (aget o (ow_ms w)) as [mo|]; [|exact S].
      destruct (o_binary _ _ mm mo) as [[s' mm']| |] eqn:E; simpl; try exact S.
      eapply sep_oupd; [exact S | exact H|]. eapply (good_binary (o_extend_rows addnew)); eauto. intros; apply good_extend; assumption.
    + destruct (aget m (ow_ms w)) as [mm|] eqn:H; [|exact S]. destruct (aget o (ow_ms w)) as [mo|]; [|exact S].
      destruct (o_binary _ _ mm mo) as [[s' mm']| |] eqn:E; simpl; try exact S.
      eapply sep_oupd; [exact S | exact H|]. eapply (good_binary o_extend_matrix_rows); eauto. intros; apply good_extend_matrix; assumption.
    + (* RemoveSeqs *)
      destruct (aget m (ow_ms w)) as [mm|] eqn:H; [|exact S].
      pose proof (good_remove _ _ _ ts _ (sep_good_start w m mm S H)) as G.
      destruct (o_remove_rows (om_rows mm) ts) as [rs e]. simpl. eapply sep_oupd; [exact S | exact H | exact G].
    + destruct (aget m (ow_ms w)) as [mm|] eqn:H; [|exact S]. simpl.
      eapply sep_oupd; [exact S | exact H|]. apply good_discard. apply (sep_good_start w m mm S H).
    + destruct (aget m (ow_ms w)) as [mm|] eqn:H; [|exact S]. simpl.
      eapply sep_oupd; [exact S | exact H|]. apply good_keep. apply (sep_good_start w m mm S H).
    + (* NewSeq *)
      destruct (aget m (ow_ms w)) as [mm|] eqn:H; [|exact S]. unfold o_new_sequence.
      destruct (ahas t (om_rows mm)); [exact S|]. destruct (negb (memb t _)); [exact S|]. simpl.
      eapply sep_oupd; [exact S | exact H|]. simpl. apply (good_put _ _ _ _ t vals (sep_good_start w m mm S H)).
    + (* SetItem *)
      destruct (aget m (ow_ms w)) as [mm|] eqn:H; [|exact S]. unfold o_setitem_vals.
      destruct (resolve_key _ k) as [t| |]; try exact S. destruct (negb (memb t _)); [exact S|]. simpl.
      eapply sep_oupd; [exact S | exact H|]. simpl. apply (good_put _ _ _ _ t vals (sep_good_start w m mm S H)).
    + (* GetItem *)
      destruct (aget m (ow_ms w)) as [mm|] eqn:H; [|exact S].
      destruct (o_getitem _ _ mm k) as [[[s' mm'] r]| |] eqn:E; simpl; try exact S.
      eapply sep_oupd; [exact S | exact H|]. eapply getitem_good; eauto.
    + (* NewSubset *)
      destruct (aget m (ow_ms w)) as [mm|] eqn:H; [|exact S]. unfold o_new_character_subset.
      destruct (has_key lower l (om_subs mm)); [exact S|]. simpl.
      eapply sep_oupd; [exact S | exact H|]. simpl. apply (sep_good_start w m mm S H).
  - apply rowop_sep, S.
  - apply rowop_sep, S.
  - apply rowop_sep, S.
  - apply rowop_sep, S.
Qed.

End L.

(* every history of copying operations *)
Theorem o_run_sep lower suffix locus ops : forall w,
  forallb copying ops = true -> sep w -> sep (o_run lower suffix locus w ops).
Proof.
  induction ops as [|o ops IH]; simpl; intros w C S; [exact S|].
  apply andb_prop in C. destruct C as [C1 C2]. apply IH; [exact C2|]. apply o_step_sep; assumption.
Qed.

(* matrices built by the constructor and new_sequence calls *)
Lemma o_init_ms_sep : forall ms s,
  let r := o_init_ms s ms in
  s_next s <= s_next (fst r) /\ NoDup (mids (snd r)) /\ forall x, In x (mids (snd r)) -> s_next s <= x < s_next (fst r).
Proof.
  induction ms as [|[j m] ms IH]; intros s; simpl.
  - split; [lia|]. split; [constructor | intros x []].
  - unfold o_install. pose proof (install_fresh (m_rows m) s) as F.
    destruct (o_install_rows s (m_rows m)) as [s1 sr]. simpl in F.
    specialize (IH s1). simpl in IH. destruct (o_init_ms s1 ms) as [s2 out]. simpl in IH |- *.
    destruct F as [L1 [N1 B1]]. destruct IH as [L2 [N2 B2]]. split; [lia|]. split.
    + apply NoDup_app_intro; [exact N1 | exact N2|]. intros x H1 H2. apply B1 in H1. apply B2 in H2. lia.
    + intros x H. apply in_app_or in H. destruct H as [H|H]; [apply B1 in H | apply B2 in H]; lia.
Qed.

Theorem o_init_sep nss g ms : sep (o_init nss g ms).
Proof.
  unfold o_init. pose proof (o_init_ms_sep ms (mkS [] 0)) as H. simpl in H.
  destruct (o_init_ms (mkS [] 0) ms) as [s oms]. simpl in H. destruct H as [L [N B]].
  split; [exact N|]. unfold all_ids. simpl. intros r Hr. apply (B r) in Hr. lia.
Qed.

Theorem no_sharing_reachable lower suffix locus nss g ms ops :
  forallb copying ops = true -> NoSharing (o_run lower suffix locus (o_init nss g ms) ops).
Proof. intros C. apply (o_run_sep lower suffix locus ops _ C (o_init_sep nss g ms)). Qed.

(* ---- the two routes that do share ---- *)
Definition ex_ow : oworld :=
  o_init [(0, [0; 1])] false [(0, mkM 0 None [(0, [1; 2]); (1, [3])] []); (1, mkM 0 None [(0, [7])] [])].

Lemma not_nodup_2 (a : rid) l1 l2 l3 : ~ NoDup (l1 ++ a :: l2 ++ a :: l3).
Proof.
  intros N. apply NoDup_app_inv in N. destruct N as [_ [N _]]. inversion N as [|? ? Ha _]; subst.
  apply Ha. apply in_or_app. right. left. reflexivity.
Qed.

(* m1[t1] = m0[t0]: the object of (m0, t0) now also under (m1, t1) *)
Example sharing_by_setitem_row :
  sep ex_ow /\ ~ NoSharing (fst (o_step (fun x => x) (fun l _ => l) (fun i => i) ex_ow (OSetItemRow 1 (KTax 1) 0 0))).
Proof.
  split; [apply o_init_sep|]. unfold NoSharing. vm_compute. apply (not_nodup_2 0 [] [1; 2] []).
Qed.

Example sharing_by_copy :
  sep ex_ow /\ ~ NoSharing (fst (o_step (fun x => x) (fun l _ => l) (fun i => i) ex_ow (OCopy 0))).
Proof.
  split; [apply o_init_sep|]. unfold NoSharing. vm_compute. apply (not_nodup_2 0 [] [1; 2] [1]).
Qed.
