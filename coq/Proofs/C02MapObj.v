(* C02, object level: separation of the mappers' look-up containers over all reading histories, frame,
   refinement of the value-level model. *)
From Coq Require Import List Bool Arith Lia.
From DV Require Import Model.C02MapObj.
Import ListNotations.

Lemma field_eqb_eq : forall a b, field_eqb a b = true <-> a = b.
Proof. destruct a, b; simpl; split; intro H; try reflexivity; try discriminate. Qed.

Lemma field_eqb_refl : forall a, field_eqb a a = true.
Proof. destruct a; reflexivity. Qed.

Section Obj.
Variable table : Type.
Notation world := (world table).
Notation eff := (eff table).

Lemma nth_upd : forall A (l : list A) n m x,
  nth_error (upd_nth n x l) m =
  if Nat.eqb n m then (match nth_error l n with Some _ => Some x | None => None end) else nth_error l m.
Proof.
  induction l as [|y r IH]; intros n m x.
  - simpl. destruct (Nat.eqb n m); destruct n, m; reflexivity.
  - destruct n, m; simpl; try reflexivity. apply IH.
Qed.

Lemma length_upd : forall A (l : list A) n x, length (upd_nth n x l) = length l.
Proof. induction l; intros [|n] x; simpl; auto. Qed.

Lemma oget_oset : forall o f a g, oget (oset o f a) g = if field_eqb f g then Some a else oget o g.
Proof. intros o f a g. destruct f, g; reflexivity. Qed.

(* what object i sees through its OWN bindings *)
Definition bview (w : world) (i : nat) (f : field) : option table :=
  match nth_error (w_objs _ w) i with
  | None => None
  | Some o => match oget o f with Some a => nth_error (w_heap _ w) a | None => None end
  end.

Lemma view_complete : forall (w : world) i o f, nth_error (w_objs _ w) i = Some o -> complete o = true ->
  view _ w i f = bview w i f.
Proof.
  intros w i o f Ho Hc. unfold view, bview, resolve. rewrite Ho.
  unfold complete in Hc. destruct o as [a b c]; simpl in *. destruct a, b, c; try discriminate. destruct f; reflexivity.
Qed.

Definition eff_ok (o : obj) (e : eff) : Prop :=
  match e with EBind _ _ => True | EMut f _ => oget o f <> None end.

Definition obj_after (w : world) (o : obj) (e : eff) : obj :=
  match e with EBind f _ => oset o f (length (w_heap _ w)) | EMut _ _ => o end.

(* sep is preserved when object i binds field f to the fresh address *)
Lemma sep_bind : forall (w : world) i o f (v : table),
  sep _ w -> nth_error (w_objs _ w) i = Some o ->
  sep _ (mkWorld _ (w_heap _ w ++ [v]) (w_cls _ w) (upd_nth i (oset o f (length (w_heap _ w))) (w_objs _ w))).
Proof.
  intros w i o f v [S1 [S2 [S3 S4]]] Ho.
  set (o' := oset o f (length (w_heap _ w))).
  assert (Hn : forall j, nth_error (upd_nth i o' (w_objs _ w)) j = if Nat.eqb i j then Some o' else nth_error (w_objs _ w) j).
  { intro j. rewrite nth_upd. rewrite Ho. reflexivity. }
  unfold sep; simpl. split; [|split; [|split]].
  - intros j1 j2 o1 o2 f1 f2 a H1 H2 G1 G2. rewrite Hn in H1, H2.
    destruct (Nat.eqb i j1) eqn:E1; destruct (Nat.eqb i j2) eqn:E2.
    + apply Nat.eqb_eq in E1, E2. subst j1 j2. inversion H1; inversion H2; subst o1 o2.
      split; [reflexivity|]. unfold o' in G1, G2. rewrite oget_oset in G1, G2.
      destruct (field_eqb f f1) eqn:F1; destruct (field_eqb f f2) eqn:F2.
      * apply field_eqb_eq in F1, F2. congruence.
      * inversion G1; subst a. apply (S2 i o f2) in G2; auto. lia.
      * inversion G2; subst a. apply (S2 i o f1) in G1; auto. lia.
      * destruct (S1 i i o o f1 f2 a Ho Ho G1 G2) as [_ R]. exact R.
    + apply Nat.eqb_eq in E1. subst j1. inversion H1; subst o1. unfold o' in G1. rewrite oget_oset in G1.
      destruct (field_eqb f f1) eqn:F1.
      * inversion G1; subst a. apply (S2 j2 o2 f2) in G2; auto. lia.
      * destruct (S1 i j2 o o2 f1 f2 a Ho H2 G1 G2) as [R _]. subst j2. rewrite Nat.eqb_refl in E2. discriminate.
    + apply Nat.eqb_eq in E2. subst j2. inversion H2; subst o2. unfold o' in G2. rewrite oget_oset in G2.
      destruct (field_eqb f f2) eqn:F2.
      * inversion G2; subst a. apply (S2 j1 o1 f1) in G1; auto. lia.
      * destruct (S1 j1 i o1 o f1 f2 a H1 Ho G1 G2) as [R _]. subst j1. rewrite Nat.eqb_refl in E1. discriminate.
    + apply (S1 j1 j2 o1 o2 f1 f2 a H1 H2 G1 G2).
  - intros j oj fj a Hj Gj. rewrite Hn in Hj. rewrite app_length. simpl.
    destruct (Nat.eqb i j) eqn:E.
    + inversion Hj; subst oj. unfold o' in Gj. rewrite oget_oset in Gj. destruct (field_eqb f fj).
      * inversion Gj. lia.
      * apply (S2 i o fj) in Gj; auto. lia.
    + apply (S2 j oj fj) in Gj; auto. lia.
  - intros j oj fj g a Hj Gj. rewrite Hn in Hj. destruct (Nat.eqb i j) eqn:E.
    + inversion Hj; subst oj. unfold o' in Gj. rewrite oget_oset in Gj. destruct (field_eqb f fj).
      * inversion Gj; subst a. intro C. apply S4 in C. lia.
      * apply (S3 i o fj g a Ho Gj).
    + apply (S3 j oj fj g a Hj Gj).
  - intros g a C. apply S4 in C. rewrite app_length. simpl. lia.
Qed.

Lemma run_eff_step : forall (w : world) i o (e : eff),
  sep _ w -> nth_error (w_objs _ w) i = Some o -> eff_ok o e ->
  exists w', run_eff _ w i e = Some w' /\ sep _ w' /\ w_cls _ w' = w_cls _ w
    /\ length (w_objs _ w') = length (w_objs _ w)
    /\ (forall j, j <> i -> nth_error (w_objs _ w') j = nth_error (w_objs _ w) j)
    /\ nth_error (w_objs _ w') i = Some (obj_after w o e)
    /\ (forall j g, j <> i -> bview w' j g = bview w j g)
    /\ (forall g, bview w' i g = vrun_eff _ (bview w i) e g).
Proof.
  intros w i o e HS Ho Hok.
  assert (Hi : Nat.eqb i i = true) by apply Nat.eqb_refl.
  destruct e as [f v | f h].
  - (* EBind *)
    pose proof (sep_bind w i o f v HS Ho) as HS'.
    destruct HS as [S1 [S2 [S3 S4]]].
    eexists. unfold run_eff. rewrite Ho. split; [reflexivity|]. split; [exact HS'|].
    set (o' := oset o f (length (w_heap _ w))).
    assert (Hn : forall j, nth_error (upd_nth i o' (w_objs _ w)) j = if Nat.eqb i j then Some o' else nth_error (w_objs _ w) j).
    { intro j. rewrite nth_upd. rewrite Ho. reflexivity. }
    simpl. split; [reflexivity|]. split; [apply length_upd|]. split; [|split; [|split]].
    + intros j Hj. fold o'. rewrite Hn. destruct (Nat.eqb i j) eqn:E; [apply Nat.eqb_eq in E; congruence | reflexivity].
    + fold o'. rewrite Hn, Hi. reflexivity.
    + intros j g Hj. unfold bview. simpl. fold o'. rewrite Hn.
      destruct (Nat.eqb i j) eqn:E; [apply Nat.eqb_eq in E; congruence |].
      destruct (nth_error (w_objs _ w) j) as [oj|] eqn:Oj; [|reflexivity].
      destruct (oget oj g) as [a|] eqn:Ga; [|reflexivity].
      apply nth_error_app1. apply (S2 j oj g a Oj Ga).
    + intro g. unfold bview. simpl. fold o'. rewrite Hn, Hi, Ho. unfold o'. rewrite oget_oset.
      destruct (field_eqb f g) eqn:F.
      * rewrite nth_error_app2 by lia. rewrite Nat.sub_diag. reflexivity.
      * destruct (oget o g) as [a|] eqn:Ga; [|reflexivity]. apply nth_error_app1. apply (S2 i o g a Ho Ga).
  - (* EMut *)
    simpl in Hok. destruct (oget o f) as [a|] eqn:Ga; [|congruence].
    pose proof HS as [S1 [S2 [S3 S4]]].
    assert (La : a < length (w_heap _ w)) by apply (S2 i o f a Ho Ga).
    destruct (nth_error (w_heap _ w) a) as [t|] eqn:Ta; [|apply nth_error_None in Ta; lia].
    eexists. unfold run_eff, resolve. rewrite Ho, Ga, Ta. split; [reflexivity|].
    split.
    { unfold sep; simpl. rewrite length_upd. exact HS. }
    simpl. split; [reflexivity|]. split; [reflexivity|]. split; [intros; reflexivity|]. split; [exact Ho|]. split.
    + intros j g Hj. unfold bview. simpl.
      destruct (nth_error (w_objs _ w) j) as [oj|] eqn:Oj; [|reflexivity].
      destruct (oget oj g) as [b|] eqn:Gb; [|reflexivity].
      rewrite nth_upd. destruct (Nat.eqb a b) eqn:E; [|reflexivity].
      apply Nat.eqb_eq in E. subst b. destruct (S1 i j o oj f g a Ho Oj Ga Gb) as [R _]. congruence.
    + intro g. unfold bview. simpl. rewrite Ho.
      destruct (field_eqb f g) eqn:F.
      * apply field_eqb_eq in F. subst g. rewrite Ga. rewrite nth_upd, Nat.eqb_refl, Ta. reflexivity.
      * destruct (oget o g) as [b|] eqn:Gb; [|reflexivity].
        rewrite nth_upd. destruct (Nat.eqb a b) eqn:E; [|reflexivity].
        apply Nat.eqb_eq in E. subst b. destruct (S1 i i o o f g a Ho Ho Ga Gb) as [_ R]. subst g.
        rewrite field_eqb_refl in F. discriminate.
Qed.

(* a method (any list of effects) run by object i whose in-place changes only touch fields it has bound *)
Lemma run_effs_steps : forall (l : list eff) (w : world) i o bound,
  sep _ w -> nth_error (w_objs _ w) i = Some o ->
  (forall f, bound f = true -> oget o f <> None) ->
  mut_after_bind bound (map (shape_of _) l) = true ->
  exists w' o', run_effs _ w i l = Some w' /\ sep _ w' /\ w_cls _ w' = w_cls _ w
    /\ length (w_objs _ w') = length (w_objs _ w)
    /\ (forall j, j <> i -> nth_error (w_objs _ w') j = nth_error (w_objs _ w) j)
    /\ nth_error (w_objs _ w') i = Some o'
    /\ (forall f, oget o f <> None -> oget o' f <> None)
    /\ (forall f, binds f (map (shape_of _) l) = true -> oget o' f <> None)
    /\ (forall j g, j <> i -> bview w' j g = bview w j g)
    /\ (forall g, bview w' i g = vrun_effs _ (bview w i) l g).
Proof.
  induction l as [|e r IH]; intros w i o bound HS Ho Hb Hm.
  - exists w, o. simpl. split; [reflexivity|]. split; [exact HS|]. split; [reflexivity|]. split; [reflexivity|].
    split; [intros; reflexivity|]. split; [exact Ho|]. split; [intros f0 Hf; exact Hf|]. split; [intros f0 C; discriminate|].
    split; intros; reflexivity.
  - simpl in Hm.
    assert (Hok : eff_ok o e).
    { destruct e as [f v|f h]; simpl in *; auto. apply andb_true_iff in Hm. destruct Hm as [B _]. apply Hb; exact B. }
    destruct (run_eff_step w i o e HS Ho Hok) as [w1 [R1 [HS1 [C1 [L1 [O1 [I1 [F1 V1]]]]]]]].
    set (bound' := match e with EBind f _ => (fun g => field_eqb f g || bound g) | EMut _ _ => bound end).
    assert (Hb' : forall f, bound' f = true -> oget (obj_after w o e) f <> None).
    { intros f B. destruct e as [f0 v|f0 h]; simpl in *; [|apply Hb; exact B].
      rewrite oget_oset. destruct (field_eqb f0 f) eqn:E; [discriminate|]. unfold bound' in B. rewrite E in B. simpl in B. apply Hb; exact B. }
    assert (Hm' : mut_after_bind bound' (map (shape_of _) r) = true).
    { destruct e as [f0 v|f0 h]; simpl in *; [exact Hm|]. apply andb_true_iff in Hm. apply Hm. }
    destruct (IH w1 i (obj_after w o e) bound' HS1 I1 Hb' Hm') as [w2 [o2 [R2 [HS2 [C2 [L2 [O2 [I2 [K2 [B2 [F2 V2]]]]]]]]]]].
    exists w2, o2. simpl. rewrite R1. split; [exact R2|]. split; [exact HS2|].
    split; [congruence|]. split; [congruence|].
    split; [intros j Hj; rewrite O2, O1; auto|]. split; [exact I2|].
    split.
    { intros f Hf. apply K2. destruct e as [f0 v|f0 h]; simpl; [|exact Hf].
      rewrite oget_oset. destruct (field_eqb f0 f); [discriminate|exact Hf]. }
    split.
    { intros f Hf. destruct e as [f0 v|f0 h]; simpl in Hf.
      - apply orb_true_iff in Hf. destruct Hf as [Hf|Hf]; [|apply B2; exact Hf].
        apply K2. simpl. rewrite oget_oset. rewrite field_eqb_eq in Hf. subst f0. rewrite field_eqb_refl. discriminate.
      - apply B2; exact Hf. }
    split; [intros j g Hj; rewrite F2, F1; auto|].
    intro g. rewrite V2. unfold vrun_effs. simpl.
    assert (EX : forall l' (v1 v2 : vobj table), (forall g, v1 g = v2 g) -> forall g, fold_left (vrun_eff _) l' v1 g = fold_left (vrun_eff _) l' v2 g).
    { induction l' as [|e' r' IH']; intros v1 v2 Hv g0; simpl; [apply Hv|].
      apply IH'. intro g1. destruct e' as [f' x'|f' h']; simpl; destruct (field_eqb f' g1); auto. rewrite Hv. reflexivity. }
    apply EX. exact V1.
Qed.

Lemma mut_after_bind_all : forall l bound, (forall f, bound f = true) -> mut_after_bind bound l = true.
Proof.
  induction l as [|[k f] r IH]; intros bound Hb; simpl; auto. destruct k.
  - apply IH. intro g. rewrite Hb. apply orb_true_r.
  - rewrite Hb. simpl. apply IH. exact Hb.
Qed.

Lemma complete_bound : forall o, complete o = true <-> (forall f, oget o f <> None).
Proof.
  intros [a b c]. unfold complete; simpl. split.
  - intros H f. destruct a, b, c; try discriminate. destruct f; simpl; discriminate.
  - intro H. pose proof (H FTok) as H1. pose proof (H FLab) as H2. pose proof (H FNum) as H3. simpl in *.
    destruct a, b, c; congruence.
Qed.

Definition inv (w : world) : Prop := sep _ w /\ all_complete _ w.

(* one operation of a history *)
Lemma run_op_step : forall (w : world) (o : op table),
  inv w -> (match o with ONew init => init_ok (map (shape_of _) init) = true | OCall i _ => i < length (w_objs _ w) end) ->
  exists w', run_op _ w o = Some w' /\ inv w'
    /\ (forall j g, j < length (w_objs _ w) -> (match o with OCall i _ => j <> i | ONew _ => True end) -> view _ w' j g = view _ w j g)
    /\ (match o with
        | ONew init => length (w_objs _ w') = S (length (w_objs _ w))
                       /\ forall g, view _ w' (length (w_objs _ w)) g = vrun_effs _ (fun _ => None) init g
        | OCall i l => length (w_objs _ w') = length (w_objs _ w)
                       /\ forall g, view _ w' i g = vrun_effs _ (view _ w i) l g
        end).
Proof.
  intros w o [HS HC] Hop. destruct o as [init | i l].
  - (* ONew *)
    set (w0 := mkWorld table (w_heap _ w) (w_cls _ w) (w_objs _ w ++ [empty_obj])).
    set (n := length (w_objs _ w)).
    assert (N0 : forall j, nth_error (w_objs _ w0) j = if Nat.eqb j n then Some empty_obj else nth_error (w_objs _ w) j).
    { intro j. simpl. destruct (Nat.eqb j n) eqn:E.
      - apply Nat.eqb_eq in E. subst j. rewrite nth_error_app2 by (unfold n; lia). unfold n. rewrite Nat.sub_diag. reflexivity.
      - apply Nat.eqb_neq in E. destruct (lt_dec j n) as [L|L].
        + apply nth_error_app1. exact L.
        + assert (nth_error (w_objs _ w) j = None) as -> by (apply nth_error_None; unfold n in *; lia).
          apply nth_error_None. rewrite app_length. simpl. unfold n in *. lia. }
    assert (HS0 : sep _ w0).
    { destruct HS as [S1 [S2 [S3 S4]]]. unfold sep. split; [|split; [|split]].
      - intros j1 j2 o1 o2 f1 f2 a H1 H2 G1 G2. rewrite N0 in H1, H2.
        destruct (Nat.eqb j1 n); [inversion H1; subst o1; destruct f1; discriminate|].
        destruct (Nat.eqb j2 n); [inversion H2; subst o2; destruct f2; discriminate|].
        apply (S1 j1 j2 o1 o2 f1 f2 a H1 H2 G1 G2).
      - intros j oj f a Hj Gj. rewrite N0 in Hj. destruct (Nat.eqb j n); [inversion Hj; subst oj; destruct f; discriminate|].
        apply (S2 j oj f a Hj Gj).
      - intros j oj f g a Hj Gj. rewrite N0 in Hj. destruct (Nat.eqb j n); [inversion Hj; subst oj; destruct f; discriminate|].
        apply (S3 j oj f g a Hj Gj).
      - exact S4. }
    assert (Hn : nth_error (w_objs _ w0) n = Some empty_obj) by (rewrite N0, Nat.eqb_refl; reflexivity).
    unfold init_ok in Hop. apply andb_true_iff in Hop. destruct Hop as [Hop M]. apply andb_true_iff in Hop. destruct Hop as [Hop B3].
    apply andb_true_iff in Hop. destruct Hop as [B1 B2].
    destruct (run_effs_steps init w0 n empty_obj (fun _ => false) HS0 Hn (fun f C => ltac:(discriminate)) M)
      as [w' [o' [R [HS' [C' [L' [O' [I' [K' [B' [F' V']]]]]]]]]]].
    assert (Co' : complete o' = true).
    { apply complete_bound. intros [| |]; apply B'; assumption. }
    exists w'. simpl. fold w0. fold n. split; [exact R|]. split.
    { split; [exact HS'|]. intros j oj Hj. destruct (Nat.eq_dec j n) as [E|E].
      - subst j. rewrite I' in Hj. inversion Hj; subst oj. exact Co'.
      - rewrite O' in Hj by exact E. rewrite N0 in Hj. apply Nat.eqb_neq in E. rewrite E in Hj. apply (HC j oj Hj). }
    split.
    { intros j g Lj _. assert (E : j <> n) by (unfold n; lia).
      destruct (nth_error (w_objs _ w) j) as [oj|] eqn:Oj; [|apply nth_error_None in Oj; lia].
      assert (Oj' : nth_error (w_objs _ w') j = Some oj).
      { rewrite O' by exact E. rewrite N0. apply Nat.eqb_neq in E. rewrite E. exact Oj. }
      rewrite (view_complete w' j oj g Oj' (HC j oj Oj)). rewrite (view_complete w j oj g Oj (HC j oj Oj)).
      rewrite F' by exact E. unfold bview. rewrite N0. apply Nat.eqb_neq in E. rewrite E. reflexivity. }
    split.
    { rewrite L'. simpl. rewrite app_length. simpl. unfold n. lia. }
    intro g. rewrite (view_complete w' n o' g I' Co'). rewrite V'.
    unfold vrun_effs.
    assert (EX : forall l' (v1 v2 : vobj table), (forall g, v1 g = v2 g) -> forall g, fold_left (vrun_eff _) l' v1 g = fold_left (vrun_eff _) l' v2 g).
    { induction l' as [|e' r' IH']; intros v1 v2 Hv g0; simpl; [apply Hv|].
      apply IH'. intro g1. destruct e' as [f' x'|f' h']; simpl; destruct (field_eqb f' g1); auto. rewrite Hv. reflexivity. }
    apply EX. intro g1. unfold bview. rewrite Hn. destruct g1; reflexivity.
  - (* OCall *)
    destruct (nth_error (w_objs _ w) i) as [o|] eqn:Ho; [|apply nth_error_None in Ho; lia].
    pose proof (HC i o Ho) as Co.
    assert (Hb : forall f, (fun _ : field => true) f = true -> oget o f <> None).
    { intros f _. apply complete_bound. exact Co. }
    destruct (run_effs_steps l w i o (fun _ => true) HS Ho Hb (mut_after_bind_all _ _ (fun _ => eq_refl)))
      as [w' [o' [R [HS' [C' [L' [O' [I' [K' [B' [F' V']]]]]]]]]]].
    assert (Co' : complete o' = true).
    { apply complete_bound. intro f. apply K'. apply complete_bound. exact Co. }
    exists w'. simpl. split; [exact R|]. split.
    { split; [exact HS'|]. intros j oj Hj. destruct (Nat.eq_dec j i) as [E|E].
      - subst j. rewrite I' in Hj. inversion Hj; subst oj. exact Co'.
      - rewrite O' in Hj by exact E. apply (HC j oj Hj). }
    split.
    { intros j g Lj E.
      destruct (nth_error (w_objs _ w) j) as [oj|] eqn:Oj; [|apply nth_error_None in Oj; lia].
      assert (Oj' : nth_error (w_objs _ w') j = Some oj) by (rewrite O' by exact E; exact Oj).
      rewrite (view_complete w' j oj g Oj' (HC j oj Oj)). rewrite (view_complete w j oj g Oj (HC j oj Oj)).
      apply F'. exact E. }
    split; [exact L'|].
    intro g. rewrite (view_complete w' i o' g I' Co'). rewrite V'.
    unfold vrun_effs.
    assert (EX : forall l' (v1 v2 : vobj table), (forall g, v1 g = v2 g) -> forall g, fold_left (vrun_eff _) l' v1 g = fold_left (vrun_eff _) l' v2 g).
    { induction l' as [|e' r' IH']; intros v1 v2 Hv g0; simpl; [apply Hv|].
      apply IH'. intro g1. destruct e' as [f' x'|f' h']; simpl; destruct (field_eqb f' g1); auto. rewrite Hv. reflexivity. }
    apply EX. intro g1. symmetry. apply (view_complete w i o g1 Ho Co).
Qed.


(* ---- histories ---- *)

Lemma start_inv : forall w : world, start_ok _ w -> inv w.
Proof.
  intros w [E C]. split.
  - unfold sep. rewrite E. split; [|split; [|split]]; try exact C; intros; destruct i; discriminate.
  - intros i o H. rewrite E in H. destruct i; discriminate.
Qed.


Definition agree (w : world) (vs : list (vobj table)) : Prop :=
  length vs = length (w_objs _ w) /\ forall j v, nth_error vs j = Some v -> forall g, view _ w j g = v g.

Lemma vrun_effs_ext : forall l (v1 v2 : vobj table), (forall g, v1 g = v2 g) -> forall g, vrun_effs _ v1 l g = vrun_effs _ v2 l g.
Proof.
  unfold vrun_effs. induction l as [|e r IH]; intros v1 v2 Hv g; simpl; [apply Hv|].
  apply IH. intro g1. destruct e as [f x|f h]; simpl; destruct (field_eqb f g1); auto. rewrite Hv. reflexivity.
Qed.

Theorem history_refines : forall l (w : world) vs,
  inv w -> agree w vs -> hist_ok _ (length (w_objs _ w)) l ->
  exists w', run_ops _ w l = Some w' /\ inv w' /\ agree w' (vrun_ops _ vs l).
Proof.
  induction l as [|o r IH]; intros w vs HI HA HH.
  - exists w. simpl. auto.
  - destruct HA as [AL AV].
    assert (Hop : match o with ONew init => init_ok (map (shape_of _) init) = true | OCall i _ => i < length (w_objs _ w) end).
    { destruct o; simpl in HH; apply HH. }
    destruct (run_op_step w o HI Hop) as [w1 [R1 [HI1 [F1 V1]]]].
    assert (HA1 : agree w1 (vrun_op _ vs o)).
    { destruct o as [init|i l]; simpl in *.
      - destruct V1 as [L1 V1]. split; [rewrite app_length; simpl; lia|].
        intros j v Hj g. destruct (lt_dec j (length vs)) as [Lj|Lj].
        + rewrite nth_error_app1 in Hj by exact Lj. rewrite F1 by (first [lia | exact I]). apply AV. exact Hj.
        + destruct (Nat.eq_dec j (length vs)) as [E|E].
          * subst j. rewrite nth_error_app2 in Hj by lia. rewrite Nat.sub_diag in Hj. inversion Hj; subst v.
            rewrite AL. apply V1.
          * assert (nth_error (vs ++ [vrun_effs table (fun _ => None) init]) j = None) as X.
            { apply nth_error_None. rewrite app_length. simpl. lia. }
            congruence.
      - destruct V1 as [L1 V1]. split; [rewrite length_upd; lia|].
        intros j v Hj g. rewrite nth_upd in Hj. destruct (Nat.eqb i j) eqn:E.
        + apply Nat.eqb_eq in E. subst j. destruct (nth_error vs i) as [vi|] eqn:Vi; [|discriminate]. inversion Hj; subst v.
          rewrite V1. apply vrun_effs_ext. intro g1. rewrite (nth_error_nth _ _ _ Vi). apply AV. exact Vi.
        + apply Nat.eqb_neq in E.
          assert (j < length vs) by (apply nth_error_Some; congruence).
          rewrite F1 by (first [lia | congruence]). apply AV. exact Hj. }
    assert (HH1 : hist_ok _ (length (w_objs _ w1)) r).
    { destruct o as [init|i l]; simpl in *; destruct V1 as [L1 _]; rewrite L1; apply HH. }
    destruct (IH w1 (vrun_op _ vs o) HI1 HA1 HH1) as [w2 [R2 [HI2 HA2]]].
    exists w2. simpl. rewrite R1. auto.
Qed.

(* in any reachable world two mappers never reach the same container, whatever field they go through, and no mapper
   reaches a class-level container *)
Lemma inv_no_sharing : forall w : world, inv w ->
  forall i j oi oj f g a, nth_error (w_objs _ w) i = Some oi -> nth_error (w_objs _ w) j = Some oj ->
    resolve _ w oi f = Some a -> resolve _ w oj g = Some a -> (i = j /\ f = g) /\ (forall h, oget (w_cls _ w) h <> Some a).
Proof.
  intros w [[S1 [S2 [S3 S4]]] HC] i j oi oj f g a Hi Hj Ri Rj.
  assert (Gi : oget oi f = Some a).
  { unfold resolve in Ri. pose proof (proj1 (complete_bound oi) (HC i oi Hi) f). destruct (oget oi f); congruence. }
  assert (Gj : oget oj g = Some a).
  { unfold resolve in Rj. pose proof (proj1 (complete_bound oj) (HC j oj Hj) g). destruct (oget oj g); congruence. }
  split; [apply (S1 i j oi oj f g a Hi Hj Gi Gj)|]. intro h. apply (S3 i oi f h a Hi Gi).
Qed.

End Obj.
