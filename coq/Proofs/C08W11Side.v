(* C08 wave 11 - the side condition of heap_filter_leaf_nodes_is_restrict cannot be dropped: when filter_fn is also
   true on an internal node, that node survives its own emptying (the library tests it as a leaf in the next
   pass), so the result is restrictG's, not restrict's. *)
From Coq Require Import ZArith List Bool Lia.
From DV Require Import Model.PyPrims Model.Tree Model.Heap Model.HeapOps Model.C15Prims Model.MutPrims Gen.Mutators
     Model.C03GenInst Proofs.C03Base Proofs.C03GenPrims Proofs.C03GenPrune.
From DV Require Model.C08Model Proofs.C08W10Prune Proofs.C08W11Leaf.
Import ListNotations.
Open Scope Z_scope.

(* ((A,B)X,C)R, filter_fn true on X (id 1) and C (id 4): the generated method keeps X as a leaf; restrict drops it *)
Example filter_is_restrict_without_side_condition_refuted :
  C08W11Leaf.keeps_no_internal [1; 4] C08W10Prune.w10_tree = false /\
  C08Model.restrict false (C08Model.keep_ids [1; 4]) C08W10Prune.w10_tree =
    Some (T 0 None None None [T 4 (Some 2) None (Some 1024) []]) /\
  match to_hres (Tree_filter_leaf_nodes HG 10 (fun nd => memz nd [1; 4]) true false false C08W10Prune.w10_heap) with
  | HOk h' => abs h'
  | _ => None
  end = Some (T 0 None None None [T 1 None None (Some 2048) []; T 4 (Some 2) None (Some 1024) []]).
Proof. split; [|split]; vm_compute; reflexivity. Qed.
