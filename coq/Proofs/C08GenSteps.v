(* C08Gen: what one iteration of the loop of Node.extract_subtree (normal form xbody) does to a state
   in which the children of the visited node have been processed. *)
From Coq Require Import ZArith List Bool Lia.
From DV Require Import Model.PyPrims Model.Tree Model.Heap Model.HeapOps Model.C15Prims Model.MutPrims Gen.Mutators
     Model.C03GenInst Model.C08GenPrims Gen.Extract Model.C08GenInst Proofs.C03Base Proofs.C08GenBase.
From DV Require Model.C08Model.
Import ListNotations.
Open Scope Z_scope.

Lemma get_set_label i v h j :
  get (set_label i v h) j =
  if Z.eqb j i then mkCell (parent h i) (kids h i) (elen h i) (taxon h i) v else get h j.
Proof. unfold set_label. rewrite get_upd_cell. reflexivity. Qed.

Lemma py_in_false (x : Z) l : ~ In x l -> py_in Z.eqb x l = false.
Proof.
  induction l as [|y r IH]; intro N; simpl; [reflexivity|].
  destruct (Z.eqb_spec x y) as [->|_]; [exfalso; apply N; left; reflexivity|]. apply IH. intro H. apply N. right. exact H.
Qed.

(* ---------------------------------------------------------------- for ch in children_to_add: nd1.add_child(ch) *)
Lemma add_child_fresh n ch s :
  ch <> n -> parent (xh s) n = None -> ~ In ch (kids (xh s) n) ->
  Node_add_child HXG n ch s =
  MOk ch (xlift (set_kids n (kids (xh s) n ++ [ch])) (xlift (set_parent ch (Some n)) s)).
Proof.
  intros Hcn Hp Hnk. unfold Node_add_child. xsimp.
  destruct (Z.eqb_spec ch n) as [E|_]; [contradiction|]. cbn [negb]. rewrite Hp. cbn [negb].
  assert (Hk1 : kids (xh (xlift (set_parent ch (Some n)) s)) n = kids (xh s) n).
  { unfold kids. cbn [xh xlift]. rewrite get_set_parent. destruct (Z.eqb_spec n ch); [congruence|reflexivity]. }
  rewrite Hk1. rewrite py_in_false by exact Hnk. reflexivity.
Qed.

Lemma add_children_cons n ch r s :
  add_children n (ch :: r) s =
  match Node_add_child HXG n ch s with
  | MOk _ s1 => add_children n r s1
  | MErr e s1 => MErr e s1
  | MFuel => MFuel
  end.
Proof. unfold add_children. simpl. destruct (Node_add_child HXG n ch s); reflexivity. Qed.

Lemma add_children_ok n : forall cta s,
  parent (xh s) n = None -> (forall c, In c cta -> c < n) -> (forall c, In c cta -> ~ In c (kids (xh s) n)) -> NoDup cta ->
  exists s', add_children n cta s = MOk (LNext tt) s' /\
    next (xh s') = next (xh s) /\ xsrc s' = xsrc s /\ xel s' = xel s /\
    (forall j, j <> n -> ~ In j cta -> get (xh s') j = get (xh s) j) /\
    (forall c, In c cta -> get (xh s') c = mkCell (Some n) (kids (xh s) c) (elen (xh s) c) (taxon (xh s) c) (label (xh s) c)) /\
    get (xh s') n = mkCell None (kids (xh s) n ++ cta) (elen (xh s) n) (taxon (xh s) n) (label (xh s) n).
Proof.
  induction cta as [|ch r IH]; intros s Hp Hlt Hnk ND.
  - exists s. unfold add_children. simpl. repeat split; try reflexivity.
    + intros c [].
    + rewrite app_nil_r. unfold parent in Hp. rewrite <- Hp. apply cell_eta.
  - rewrite add_children_cons.
    assert (Hcn : ch <> n) by (specialize (Hlt ch (or_introl eq_refl)); lia).
    rewrite add_child_fresh by (auto; apply Hnk; left; reflexivity).
    set (s2 := xlift (set_kids n (kids (xh s) n ++ [ch])) (xlift (set_parent ch (Some n)) s)).
    inversion ND as [|? ? Hnr NDr]; subst.
    assert (G2 : forall j, get (xh s2) j =
              if Z.eqb j n then mkCell None (kids (xh s) n ++ [ch]) (elen (xh s) n) (taxon (xh s) n) (label (xh s) n)
              else if Z.eqb j ch then mkCell (Some n) (kids (xh s) ch) (elen (xh s) ch) (taxon (xh s) ch) (label (xh s) ch)
              else get (xh s) j).
    { intro j. unfold s2. cbn [xh xlift]. rewrite get_set_kids.
      unfold parent, elen, taxon, label. rewrite !get_set_parent.
      destruct (Z.eqb_spec j n) as [->|Hjn].
      - destruct (Z.eqb_spec n ch); [congruence|]. unfold parent in Hp. rewrite Hp. reflexivity.
      - reflexivity. }
    destruct (IH s2) as [s' [Hrun [Hnx [Hxs [Hxe [Hoth [Hch Hn]]]]]]].
    + unfold parent. rewrite G2, Z.eqb_refl. reflexivity.
    + intros c Hc. apply Hlt. right. exact Hc.
    + intros c Hc. unfold kids. rewrite G2, Z.eqb_refl. cbn [c_kids]. intro Hin. apply in_app_or in Hin.
      destruct Hin as [Hin|[->|[]]]; [apply (Hnk c (or_intror Hc) Hin)|exact (Hnr Hc)].
    + exact NDr.
    + exists s'. rewrite Hrun.
      assert (Hrn : forall c, In c r -> c <> n /\ c <> ch).
      { intros c Hc. split; [specialize (Hlt c (or_intror Hc)); lia|intros ->; exact (Hnr Hc)]. }
      repeat split.
      * rewrite Hnx. reflexivity.
      * rewrite Hxs. reflexivity.
      * rewrite Hxe. reflexivity.
      * intros j Hjn Hj. rewrite Hoth by (auto; intro; apply Hj; right; assumption). rewrite G2.
        destruct (Z.eqb_spec j n); [contradiction|]. destruct (Z.eqb_spec j ch) as [->|_]; [exfalso; apply Hj; left; reflexivity|reflexivity].
      * intros c [<-|Hc].
        -- rewrite Hoth by (auto). rewrite G2. destruct (Z.eqb_spec ch n); [contradiction|]. rewrite Z.eqb_refl. reflexivity.
        -- rewrite (Hch c Hc). destruct (Hrn c Hc) as [N1 N2]. unfold kids, elen, taxon, label. rewrite G2.
           destruct (Z.eqb_spec c n); [contradiction|]. destruct (Z.eqb_spec c ch); [contradiction|]. reflexivity.
      * rewrite Hn. unfold kids, elen, taxon, label. rewrite G2, Z.eqb_refl. cbn [c_kids c_elen c_taxon c_label].
        rewrite <- app_assoc. reflexivity.
Qed.

(* ---------------------------------------------------------------- dictionaries *)
Lemma dget_set_same {V} k (v : V) (d : list (Z * V)) : py_dict_get Z.eqb k (py_dict_set Z.eqb k v d) = Some v.
Proof.
  induction d as [|[k' v'] r IH]; simpl; [rewrite Z.eqb_refl; reflexivity|].
  destruct (Z.eqb k k') eqn:E; simpl; [rewrite Z.eqb_refl; reflexivity|]. rewrite E. exact IH.
Qed.

Lemma dget_set_other {V} k k' (v : V) (d : list (Z * V)) :
  k <> k' -> py_dict_get Z.eqb k (py_dict_set Z.eqb k' v d) = py_dict_get Z.eqb k d.
Proof.
  intro N. induction d as [|[k2 v2] r IH]; simpl.
  - destruct (Z.eqb_spec k k'); [contradiction|reflexivity].
  - destruct (Z.eqb_spec k' k2) as [->|N2]; simpl.
    + destruct (Z.eqb_spec k k2); [contradiction|reflexivity].
    + destruct (Z.eqb k k2); [reflexivity|exact IH].
Qed.

Lemma zfind_cons_same {V} k (v : V) m : zfind k ((k, v) :: m) = Some v.
Proof. simpl. rewrite Z.eqb_refl. reflexivity. Qed.
Lemma zfind_cons_other {V} k k' (v : V) m : k <> k' -> zfind k ((k', v) :: m) = zfind k m.
Proof. intro N. simpl. destruct (Z.eqb_spec k k'); [contradiction|reflexivity]. Qed.

(* ---------------------------------------------------------------- the relation between the two runs *)
(* nd1 is the node created last *)
Definition lastn (base : Z) (s : xstate) : option Z :=
  if next (xh s) =? base then None else Some (next (xh s) - 1).

(* the new nodes for the retained children of the visited node: created one subtree after the other *)
Fixpoint cta_rel (on : bool) (s : xstate) (a b : Z) (ns : list Z) (vs : list tree) {struct ns} : Prop :=
  match ns, vs with
  | [], [] => a <= b
  | n :: ns', v :: vs' => img on a s n v /\ parent (xh s) n = None /\ cta_rel on s (n + 1) b ns' vs'
  | _, _ => False
  end.

Lemma cta_rel_bounds on s : forall ns vs a b, cta_rel on s a b ns vs -> a <= b /\ forall n, In n ns -> a <= n < b.
Proof.
  induction ns as [|n r IH]; intros [|v vs] a b H; simpl in H; try contradiction.
  - split; [exact H|intros n []].
  - destruct H as [Hi [_ Hr]]. pose proof (img_lo _ _ _ _ _ Hi) as Hlo. destruct (IH _ _ _ Hr) as [Hab Hin].
    split; [lia|]. intros m [<-|Hm]; [lia|]. specialize (Hin m Hm). lia.
Qed.

Lemma cta_rel_nodup on s : forall ns vs a b, cta_rel on s a b ns vs -> NoDup ns.
Proof.
  induction ns as [|n r IH]; intros [|v vs] a b H; simpl in H; try contradiction; [constructor|].
  destruct H as [_ [_ Hr]]. constructor; [|eapply IH; exact Hr].
  intro Hin. destruct (cta_rel_bounds _ _ _ _ _ _ Hr) as [_ Hb]. specialize (Hb n Hin). lia.
Qed.

Lemma cta_rel_frame on s s' : forall ns vs a b,
  same_on a (b - 1) s s' -> cta_rel on s a b ns vs -> cta_rel on s' a b ns vs.
Proof.
  induction ns as [|n r IH]; intros [|v vs] a b F H; simpl in *; try contradiction; [exact H|].
  destruct H as [Hi [Hp Hr]]. pose proof (img_lo _ _ _ _ _ Hi) as Hlo.
  destruct (cta_rel_bounds _ _ _ _ _ _ Hr) as [Hnb _].
  split; [|split].
  - eapply img_frame; [|exact Hi]. eapply same_on_sub; [| |exact F]; lia.
  - destruct (F n ltac:(lia)) as [Fg _]. rewrite (fld_parent _ _ _ Fg). exact Hp.
  - apply IH; [|exact Hr]. eapply same_on_sub; [| |exact F]; lia.
Qed.

Lemma cta_rel_length on s : forall ns vs a b, cta_rel on s a b ns vs -> length ns = length vs.
Proof.
  induction ns as [|n r IH]; intros [|v vs] a b H; simpl in H; try contradiction; [reflexivity|].
  simpl. f_equal. eapply IH. apply H.
Qed.

(* the children after nd1.add_child(ch) for every ch *)
Lemma imgs_attach on s sF a b cta :
  (forall c, In c cta -> get (xh sF) c = mkCell (Some b) (kids (xh s) c) (elen (xh s) c) (taxon (xh s) c) (label (xh s) c)) ->
  (forall j, j <> b -> ~ In j cta -> get (xh sF) j = get (xh s) j) ->
  (forall j, j <> b -> xsource sF j = xsource s j) ->
  forall ns vs a', cta_rel on s a' b ns vs -> a <= a' -> incl ns cta -> (forall j, In j cta -> ~ In j ns -> j < a') ->
  imgs on a sF b ns vs.
Proof.
  intros H1 H2 H3. induction ns as [|n r IH]; intros [|v vs] a' H La Hinc Hlow; simpl in H; try contradiction; [exact I|].
  destruct H as [Hi [Hp Hr]]. pose proof (img_lo _ _ _ _ _ Hi) as Hlo.
  destruct (cta_rel_bounds _ _ _ _ _ _ Hr) as [Hnb Hrb].
  assert (Hn : In n cta) by (apply Hinc; left; reflexivity).
  simpl. split; [lia|]. split; [unfold parent; rewrite (H1 n Hn); reflexivity|]. split.
  - apply (img_weaken on a' a sF La). destruct v as [i x l e ks].
    eapply img_root with (e := e); [exact Hi| | |].
    + intros j Hj. assert (Hjb : j <> b) by lia. split; [|apply H3; exact Hjb].
      apply H2; [exact Hjb|]. intro Hjc.
      destruct (in_dec Z.eq_dec j (n :: r)) as [[E|Hjr]|Hnot].
      * lia.
      * specialize (Hrb j Hjr). lia.
      * specialize (Hlow j Hjc Hnot). lia.
    + rewrite (H1 n Hn). apply img_eq in Hi. destruct Hi as [_ [_ [_ [He _]]]]. rewrite He. reflexivity.
    + apply H3. lia.
  - apply (IH vs (n + 1)); [exact Hr|lia|intros j Hj; apply Hinc; right; exact Hj|].
    intros j Hjc Hjr. destruct (Z.eq_dec j n) as [->|Hne]; [lia|].
    assert (Hnot : ~ In j (n :: r)) by (intros [E|E]; [congruence|contradiction]).
    specialize (Hlow j Hjc Hnot). lia.
Qed.

(* ---------------------------------------------------------------- the `else` branch: a new node *)
Lemma create_ok P i p ksrc e x l cta vs a iex mt nd1 st memo s :
  get (xh s) i = mkCell p ksrc e x l -> i < a ->
  cta_rel (p_on P) s a (next (xh s)) cta vs ->
  exists s',
    create P i cta (iex, mt, nd1, st, memo) s =
      MOk (LNext (iex, mt, Some (next (xh s)),
                  (if match mt with Some m => Z.eqb i m | None => false end then Some (next (xh s)) else st),
                  py_dict_set Z.eqb i (next (xh s)) memo)) s' /\
    next (xh s') = next (xh s) + 1 /\
    img (p_on P) a s' (next (xh s)) (T i x l e vs) /\
    parent (xh s') (next (xh s)) = None /\
    (forall j, j < a -> get (xh s') j = get (xh s) j /\ xsource s' j = xsource s j).
Proof.
  intros Hcell Hia Hrel.
  destruct (cta_rel_bounds _ _ _ _ _ _ Hrel) as [Hab Hb].
  unfold create. cbv zeta.
  set (b := next (xh s)) in *.
  assert (Hib : i <> b) by lia.
  set (s1 := xlift (alloc None None None) s).
  assert (G1 : forall j, get (xh s1) j = if Z.eqb j b then mkCell None [] None None None else get (xh s) j).
  { intro j. unfold s1. cbn [xh xlift]. rewrite get_alloc. reflexivity. }
  assert (Gi1 : get (xh s1) i = mkCell p ksrc e x l).
  { rewrite G1. destruct (Z.eqb_spec i b); [contradiction|exact Hcell]. }
  replace (label (xh s1) i) with l by (unfold label; rewrite Gi1; reflexivity).
  set (s2 := xlift (set_label b l) s1).
  assert (G2 : forall j, get (xh s2) j = if Z.eqb j b then mkCell None [] None None l else get (xh s) j).
  { intro j. unfold s2. cbn [xh xlift]. rewrite get_set_label. unfold parent, kids, elen, taxon. rewrite !G1, Z.eqb_refl.
    destruct (Z.eqb j b); reflexivity. }
  assert (Gi2 : get (xh s2) i = mkCell p ksrc e x l).
  { rewrite G2. destruct (Z.eqb_spec i b); [contradiction|exact Hcell]. }
  replace (taxon (xh s2) i) with x by (unfold taxon; rewrite Gi2; reflexivity).
  set (s3 := xlift (set_taxon b x) s2).
  assert (G3 : forall j, get (xh s3) j = if Z.eqb j b then mkCell None [] None x l else get (xh s) j).
  { intro j. unfold s3. cbn [xh xlift]. rewrite get_set_taxon. unfold parent, kids, elen, label. rewrite !G2, Z.eqb_refl.
    destruct (Z.eqb j b); reflexivity. }
  assert (Gi3 : get (xh s3) i = mkCell p ksrc e x l).
  { rewrite G3. destruct (Z.eqb_spec i b); [contradiction|exact Hcell]. }
  replace (elen (xh s3) i) with e by (unfold elen; rewrite Gi3; reflexivity).
  set (s4 := xlift (set_elen b e) s3).
  assert (G4 : forall j, get (xh s4) j = if Z.eqb j b then mkCell None [] e x l else get (xh s) j).
  { intro j. unfold s4. cbn [xh xlift]. rewrite get_set_elen. unfold parent, kids, taxon, label. rewrite !G3, Z.eqb_refl.
    destruct (Z.eqb j b); reflexivity. }
  set (s5 := mkX (xh s4) (xsrc s4) ((b, elabel s4 i) :: xel s4)).
  assert (Hn5 : next (xh s5) = b + 1) by reflexivity.
  assert (Hx5 : xsrc s5 = xsrc s) by reflexivity.
  assert (G5 : forall j, get (xh s5) j = if Z.eqb j b then mkCell None [] e x l else get (xh s) j) by exact G4.
  destruct (add_children_ok b cta s5) as [s6 [Hrun [Hn6 [Hx6 [_ [Hoth [Hch Hnb]]]]]]].
  - unfold parent. rewrite G5, Z.eqb_refl. reflexivity.
  - intros c Hc. specialize (Hb c Hc). lia.
  - intros c _. unfold kids. rewrite G5, Z.eqb_refl. simpl. tauto.
  - eapply cta_rel_nodup. exact Hrel.
  - rewrite Hrun.
    set (sF := if p_on P then mkX (xh s6) ((b, i) :: xsrc s6) (xel s6) else s6).
    assert (HhF : xh sF = xh s6) by (unfold sF; destruct (p_on P); reflexivity).
    assert (HsrcF : forall j, j <> b -> xsource sF j = xsource s j).
    { intros j Hj. unfold sF, xsource. destruct (p_on P); cbn [xsrc]; [rewrite zfind_cons_other by exact Hj|];
        rewrite Hx6, Hx5; reflexivity. }
    exists sF. split; [reflexivity|]. rewrite HhF.
    assert (K5 : forall c, c <> b -> get (xh s5) c = get (xh s) c).
    { intros c Hc. rewrite G5. destruct (Z.eqb_spec c b); [contradiction|reflexivity]. }
    split; [rewrite Hn6; exact Hn5|]. split; [|split].
    + apply img_eq. unfold taxon, label, elen, kids. rewrite HhF, Hnb. cbn [c_taxon c_label c_elen c_kids].
      unfold kids, elen, taxon, label. rewrite G5, Z.eqb_refl. cbn [c_taxon c_label c_elen c_kids app].
      split; [exact Hab|]. repeat split.
      * intro Hon. unfold sF, xsource. rewrite Hon. cbn [xsrc]. apply zfind_cons_same.
      * apply (imgs_attach (p_on P) s sF a b cta) with (a' := a); try assumption; try lia.
        -- intros c Hc. rewrite HhF, (Hch c Hc). assert (Hcb : c <> b) by (specialize (Hb c Hc); lia).
           unfold kids, elen, taxon, label. rewrite (K5 c Hcb). reflexivity.
        -- intros j Hjb Hjc. rewrite HhF, Hoth by assumption. apply K5. exact Hjb.
        -- apply incl_refl.
        -- intros j Hj Hn. contradiction.
    + unfold parent. rewrite Hnb. reflexivity.
    + intros j Hj. assert (Hjb : j <> b) by lia. split; [|apply HsrcF; exact Hjb].
      rewrite Hoth; [apply K5; exact Hjb|exact Hjb|]. intro Hjc. specialize (Hb j Hjc). lia.
Qed.

(* ---------------------------------------------------------------- the `elif` branch: the only child stands for the node *)
Lemma merge_ok P i p ksrc e x l c v a iex mt nd1 st memo s :
  get (xh s) i = mkCell p ksrc e x l -> i < a ->
  cta_rel (p_on P) s a (next (xh s)) [c] [v] ->
  nd1 = Some (next (xh s) - 1) ->
  exists s',
    merge P i c (iex, mt, nd1, st, memo) s = merge_tail P i c (iex, mt, nd1, st, memo) s' /\
    next (xh s') = next (xh s) /\
    img (p_on P) a s' c (C08Model.set_len v (C08Model.merge_len e (t_len v))) /\
    parent (xh s') c = None /\
    (forall j, j < a -> get (xh s') j = get (xh s) j) /\ (forall j, xsource s' j = xsource s j).
Proof.
  intros Hcell Hia Hrel Hnd1. simpl in Hrel. destruct Hrel as [Hi [Hp Hcb]].
  pose proof (img_lo _ _ _ _ _ Hi) as Hlo.
  destruct v as [i' x' l' e' ks']. pose proof Hi as Hi0. apply img_eq in Hi0. destruct Hi0 as [_ [_ [_ [He' _]]]].
  unfold merge. replace (elen (xh s) i) with e by (unfold elen; rewrite Hcell; reflexivity).
  cbn [t_len C08Model.set_len].
  assert (Hset : forall m val j, get (xh (xlift (set_elen m val) s)) j =
            if Z.eqb j m then mkCell (parent (xh s) m) (kids (xh s) m) val (taxon (xh s) m) (label (xh s) m)
            else get (xh s) j).
  { intros m val j. cbn [xh xlift]. apply get_set_elen. }
  assert (Hmod : forall val, exists s', s' = xlift (set_elen c val) s /\
            next (xh s') = next (xh s) /\ img (p_on P) a s' c (T i' x' l' val ks') /\ parent (xh s') c = None /\
            (forall j, j < a -> get (xh s') j = get (xh s) j) /\ (forall j, xsource s' j = xsource s j)).
  { intro val. eexists. split; [reflexivity|]. split; [reflexivity|]. split; [|split; [|split]].
    - eapply img_root with (e := e'); [exact Hi| | |reflexivity].
      + intros j Hj. split; [|reflexivity]. rewrite Hset. destruct (Z.eqb_spec j c); [lia|reflexivity].
      + rewrite Hset, Z.eqb_refl. reflexivity.
    - unfold parent. rewrite Hset, Z.eqb_refl. exact Hp.
    - intros j Hj. rewrite Hset. destruct (Z.eqb_spec j c); [lia|reflexivity].
    - intro j. reflexivity. }
  destruct e as [ea|].
  - rewrite He'. destruct e' as [b0|]; cbn [C08Model.merge_len].
    + destruct (Hmod (Some (b0 + ea))) as [s' [-> R]]. eexists. split; [reflexivity|exact R].
    + destruct (Hmod (Some ea)) as [s' [-> R]]. eexists. split; [reflexivity|exact R].
  - rewrite Hnd1. cbn [C08Model.merge_len]. eexists. split; [reflexivity|].
    set (m := next (xh s) - 1). split; [reflexivity|]. split; [|split; [|split]].
    + eapply img_frame; [|exact Hi]. intros j Hj. split; [|reflexivity]. rewrite Hset.
      destruct (Z.eqb_spec j m) as [->|_]; [|reflexivity].
      assert (m = c) by (unfold m in *; lia). subst c. symmetry. apply cell_eta.
    + unfold parent. rewrite Hset. destruct (Z.eqb_spec c m) as [<-|_]; [exact Hp|exact Hp].
    + intros j Hj. rewrite Hset. destruct (Z.eqb_spec j m); [unfold m in *; lia|reflexivity].
    + intro j. reflexivity.
Qed.
