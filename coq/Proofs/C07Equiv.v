(* C07 proofs, part 2: unrooted splits as sets, and the two equivalences
     equivT c c'  - c and c' are interchangeable as subtrees hanging below some node
     equivU t t'  - t and t' are the same unrooted tree (leaf taxa, splits, total length, distances) *)
From Coq Require Import ZArith List Bool Lia Permutation.
From DV Require Import Model.PyPrims Model.Tree Model.C07Model Model.C07Spec Proofs.C07Base.
Import ListNotations.
Open Scope Z_scope.

Definition usplit_of (L C S : list (option Z)) : Prop := seteq S C \/ is_compl L C S.

Lemma is_usplit_unfold t S :
  is_usplit t S <-> exists C, In C (clades t) /\ usplit_of (leaf_taxa t) C S.
Proof. reflexivity. Qed.

Lemma seteq_refl {A} (X : list A) : seteq X X.
Proof. intro; reflexivity. Qed.
Lemma seteq_sym {A} (X Y : list A) : seteq X Y -> seteq Y X.
Proof. intros H x; symmetry; apply H. Qed.
Lemma seteq_trans {A} (X Y Z : list A) : seteq X Y -> seteq Y Z -> seteq X Z.
Proof. intros H1 H2 x; rewrite (H1 x); apply H2. Qed.
Lemma perm_seteq {A} (X Y : list A) : Permutation X Y -> seteq X Y.
Proof. intros H x; split; apply Permutation_in; [assumption | apply Permutation_sym; assumption]. Qed.

Lemma usplit_of_seteq L L' C C' :
  seteq L L' -> seteq C C' -> forall S, usplit_of L C S <-> usplit_of L' C' S.
Proof.
  intros HL HC S. unfold usplit_of, is_compl, seteq in *. split; intros [H|H].
  - left. intro x. rewrite (H x). apply HC.
  - right. intro x. rewrite (H x), (HL x), (HC x). reflexivity.
  - left. intro x. rewrite (H x). symmetry. apply HC.
  - right. intro x. rewrite (H x), (HL x), (HC x). reflexivity.
Qed.

(* the two sides of one edge give the same unrooted split *)
Lemma usplit_of_compl L C C' :
  (forall x, In x C <-> In x L /\ ~ In x C') -> (forall x, In x C' -> In x L) ->
  forall S, usplit_of L C S <-> usplit_of L C' S.
Proof.
  intros HC Hsub S. unfold usplit_of, is_compl, seteq. split; intros [H|H].
  - right. intro x. rewrite (H x). apply HC.
  - left. intro x. rewrite (H x), (HC x). split.
    + intros [HL Hn]. destruct (in_oz_dec x C') as [Hi|Hi]; [assumption|]. exfalso. apply Hn. split; assumption.
    + intros Hi. split; [apply Hsub; assumption|]. intros [_ Hn]. contradiction.
  - right. intro x. rewrite (H x), (HC x). split.
    + intros Hi. split; [apply Hsub; assumption|]. intros [_ Hn]. contradiction.
    + intros [HL Hn]. destruct (in_oz_dec x C') as [Hi|Hi]; [assumption|]. exfalso. apply Hn. split; assumption.
  - left. intro x. rewrite (H x). symmetry. apply HC.
Qed.

Definition cl_cover (L : list (option Z)) (X : list (list (option Z)))
           (L' : list (option Z)) (Y : list (list (option Z))) : Prop :=
  forall C, In C X -> exists C', In C' Y /\ forall S, usplit_of L C S <-> usplit_of L' C' S.

Lemma cover_same t t' :
  cl_cover (leaf_taxa t) (clades t) (leaf_taxa t') (clades t') ->
  cl_cover (leaf_taxa t') (clades t') (leaf_taxa t) (clades t) ->
  forall S, is_usplit t S <-> is_usplit t' S.
Proof.
  intros H1 H2 S. unfold is_usplit. split; intros [C [HC HS]].
  - destruct (H1 C HC) as [C' [HC' HE]]. exists C'. split; [assumption | apply HE; assumption].
  - destruct (H2 C HC) as [C' [HC' HE]]. exists C'. split; [assumption | apply HE; assumption].
Qed.

Definition cl_sub (X Y : list (list (option Z))) : Prop :=
  forall C, In C X -> exists C', In C' Y /\ seteq C C'.
Definition cl_eqv (X Y : list (list (option Z))) : Prop := cl_sub X Y /\ cl_sub Y X.

Lemma cl_sub_refl X : cl_sub X X.
Proof. intros C HC. exists C. split; [assumption | apply seteq_refl]. Qed.
Lemma cl_sub_trans X Y Z : cl_sub X Y -> cl_sub Y Z -> cl_sub X Z.
Proof.
  intros H1 H2 C HC. destruct (H1 C HC) as [C1 [HC1 E1]]. destruct (H2 C1 HC1) as [C2 [HC2 E2]].
  exists C2. split; [assumption | eapply seteq_trans; eauto].
Qed.
Lemma cl_sub_app X X' Y Y' : cl_sub X X' -> cl_sub Y Y' -> cl_sub (X ++ Y) (X' ++ Y').
Proof.
  intros H1 H2 C HC. apply in_app_or in HC. destruct HC as [HC|HC].
  - destruct (H1 C HC) as [C' [HC' E]]. exists C'. split; [apply in_or_app; left; assumption | assumption].
  - destruct (H2 C HC) as [C' [HC' E]]. exists C'. split; [apply in_or_app; right; assumption | assumption].
Qed.
Lemma cl_sub_cons C C' X X' : seteq C C' -> cl_sub X X' -> cl_sub (C :: X) (C' :: X').
Proof. intros E H. apply (cl_sub_app [C] [C'] X X'); [|assumption]. intros D [<-|[]]. exists C'. split; [left; reflexivity | assumption]. Qed.
Lemma cl_sub_incl X Y : incl X Y -> cl_sub X Y.
Proof. intros H C HC. exists C. split; [apply H; assumption | apply seteq_refl]. Qed.

Lemma cl_eqv_refl X : cl_eqv X X.
Proof. split; apply cl_sub_refl. Qed.
Lemma cl_eqv_sym X Y : cl_eqv X Y -> cl_eqv Y X.
Proof. intros [A B]; split; assumption. Qed.
Lemma cl_eqv_trans X Y Z : cl_eqv X Y -> cl_eqv Y Z -> cl_eqv X Z.
Proof. intros [A B] [C D]. split; eapply cl_sub_trans; eauto. Qed.
Lemma cl_eqv_app X X' Y Y' : cl_eqv X X' -> cl_eqv Y Y' -> cl_eqv (X ++ Y) (X' ++ Y').
Proof. intros [A B] [C D]. split; apply cl_sub_app; assumption. Qed.
Lemma cl_eqv_cons C C' X X' : seteq C C' -> cl_eqv X X' -> cl_eqv (C :: X) (C' :: X').
Proof. intros E [A B]. split; apply cl_sub_cons; auto. apply seteq_sym; assumption. Qed.
Lemma cl_eqv_perm X Y : Permutation X Y -> cl_eqv X Y.
Proof.
  intros H. split; apply cl_sub_incl; intros C HC;
    [eapply Permutation_in; eauto | eapply Permutation_in; [apply Permutation_sym; eauto | assumption]].
Qed.

Lemma cl_sub_cover L L' X Y : seteq L L' -> cl_sub X Y -> cl_cover L X L' Y.
Proof.
  intros HL H C HC. destruct (H C HC) as [C' [HC' E]]. exists C'. split; [assumption|].
  apply usplit_of_seteq; assumption.
Qed.

(* ---------- equivT ---------- *)
Record equivT (c c' : tree) : Prop := mkET {
  et_lt : Permutation (leaf_taxa c) (leaf_taxa c');
  et_down : forall a, downT a c = downT a c';
  et_dist : forall a b, dist a b c = dist a b c';
  et_tot : total_length c = total_length c';
  et_cl : cl_eqv (clades c) (clades c')
}.

Lemma equivT_refl c : equivT c c.
Proof. constructor; try reflexivity. apply cl_eqv_refl. Qed.

Lemma equivT_sym c c' : equivT c c' -> equivT c' c.
Proof.
  intros [A B C D E]. constructor.
  - apply Permutation_sym; assumption.
  - intro a; symmetry; apply B.
  - intros a b; symmetry; apply C.
  - symmetry; assumption.
  - apply cl_eqv_sym; assumption.
Qed.

Lemma equivT_trans c1 c2 c3 : equivT c1 c2 -> equivT c2 c3 -> equivT c1 c3.
Proof.
  intros [A B C D E] [A' B' C' D' E']. constructor.
  - eapply Permutation_trans; eauto.
  - intro a; rewrite B; apply B'.
  - intros a b; rewrite C; apply C'.
  - lia.
  - eapply cl_eqv_trans; eauto.
Qed.

Lemma forall2_nonnil {A B} (R : A -> B -> Prop) l l' : Forall2 R l l' -> l <> [] -> l' <> [].
Proof. intros H; inversion H; subst; congruence. Qed.

Lemma forall2_ltF ks ks' : Forall2 equivT ks ks' -> Permutation (ltF ks) (ltF ks').
Proof. induction 1 as [|c c' ks ks' Hc _ IH]; simpl; [constructor|]. apply Permutation_app; [apply Hc | assumption]. Qed.

Lemma forall2_downF a ks ks' : Forall2 equivT ks ks' -> downF a ks = downF a ks'.
Proof. induction 1 as [|c c' ks ks' Hc _ IH]; [reflexivity|]. rewrite !downF_cons, (et_down _ _ Hc a), IH. reflexivity. Qed.

Lemma forall2_distF a b ks ks' : Forall2 equivT ks ks' -> distF a b ks = distF a b ks'.
Proof.
  induction 1 as [|c c' ks ks' Hc Hks IH]; [reflexivity|].
  rewrite !distF_cons, (et_down _ _ Hc a), (et_down _ _ Hc b), (et_dist _ _ Hc a b), IH,
    (forall2_downF a _ _ Hks), (forall2_downF b _ _ Hks). reflexivity.
Qed.

Lemma forall2_total ks ks' : Forall2 equivT ks ks' -> zsum (map total_length ks) = zsum (map total_length ks').
Proof. induction 1 as [|c c' ks ks' Hc _ IH]; [reflexivity|]. cbn [map]. rewrite !zsum_cons, (et_tot _ _ Hc), IH. reflexivity. Qed.

Lemma forall2_clF ks ks' : Forall2 equivT ks ks' -> cl_eqv (clF ks) (clF ks').
Proof. induction 1 as [|c c' ks ks' Hc _ IH]; simpl; [apply cl_eqv_refl|]. apply cl_eqv_app; [apply Hc | assumption]. Qed.

Lemma downT_node i x l e ks a : ks <> [] -> downT a (T i x l e ks) = oadd (len0 e) (downF a ks).
Proof. intros H. unfold downT. rewrite down_node by assumption. reflexivity. Qed.

(* congruence: same children up to equivT, any identity/taxon/label at an internal node *)
Lemma equivT_node i x l e i' x' l' ks ks' :
  ks <> [] -> Forall2 equivT ks ks' -> equivT (T i x l e ks) (T i' x' l' e ks').
Proof.
  intros Hn HF. assert (Hn' := forall2_nonnil _ _ _ HF Hn).
  constructor.
  - rewrite !leaf_taxa_node by assumption. apply forall2_ltF; assumption.
  - intro a. rewrite !downT_node by assumption. rewrite (forall2_downF a _ _ HF). reflexivity.
  - intros a b. rewrite !dist_node by assumption. apply forall2_distF; assumption.
  - rewrite !total_node, (forall2_total _ _ HF). reflexivity.
  - rewrite !clades_node. apply cl_eqv_cons.
    + apply perm_seteq. rewrite !leaf_taxa_node by assumption. apply forall2_ltF; assumption.
    + apply forall2_clF; assumption.
Qed.

Lemma clF_perm X Y : Permutation X Y -> Permutation (clF X) (clF Y).
Proof.
  induction 1; simpl.
  - constructor.
  - apply Permutation_app_head. assumption.
  - rewrite !app_assoc. apply Permutation_app_tail. apply Permutation_app_comm.
  - eapply Permutation_trans; eauto.
Qed.

Lemma perm_nonnil {A} (l l' : list A) : Permutation l l' -> l <> [] -> l' <> [].
Proof. intros H Hn E. subst. apply Permutation_sym, Permutation_nil in H. contradiction. Qed.

(* congruence: children permuted (distinct leaf taxa) *)
Lemma equivT_perm i x l e i' x' l' ks ks' :
  ks <> [] -> Permutation ks ks' -> NoDup (ltF ks) -> equivT (T i x l e ks) (T i' x' l' e ks').
Proof.
  intros Hn HP ND. assert (Hn' := perm_nonnil _ _ HP Hn).
  constructor.
  - rewrite !leaf_taxa_node by assumption. apply ltF_perm; assumption.
  - intro a. rewrite !downT_node by assumption. rewrite (downF_perm a _ _ HP ND). reflexivity.
  - intros a b. rewrite !dist_node by assumption. apply distF_perm; assumption.
  - rewrite !total_node. f_equal. apply zsum_perm. apply Permutation_map. assumption.
  - rewrite !clades_node. apply cl_eqv_cons.
    + apply perm_seteq. rewrite !leaf_taxa_node by assumption. apply ltF_perm; assumption.
    + apply cl_eqv_perm. apply clF_perm. assumption.
Qed.

Lemma forall2_refl {A} (R : A -> A -> Prop) (l : list A) : (forall x, R x x) -> Forall2 R l l.
Proof. intros H. induction l; constructor; auto. Qed.

(* ---------- equivU ---------- *)
Record equivU (t t' : tree) : Prop := mkEU {
  eu_lt : Permutation (leaf_taxa t) (leaf_taxa t');
  eu_dist : forall a b, dist a b t = dist a b t';
  eu_tot : total_length t = total_length t';
  eu_us : forall S, is_usplit t S <-> is_usplit t' S
}.

Lemma equivU_refl t : equivU t t.
Proof. constructor; reflexivity. Qed.

Lemma equivU_trans t1 t2 t3 : equivU t1 t2 -> equivU t2 t3 -> equivU t1 t3.
Proof.
  intros [A B C D] [A' B' C' D']. constructor.
  - eapply Permutation_trans; eauto.
  - intros a b. rewrite B. apply B'.
  - lia.
  - intros S. rewrite D. apply D'.
Qed.

Lemma equivT_U t t' : equivT t t' -> equivU t t'.
Proof.
  intros [A B C D [E1 E2]]. constructor; try assumption.
  apply cover_same; apply cl_sub_cover; try assumption.
  - apply perm_seteq; assumption.
  - apply perm_seteq, Permutation_sym; assumption.
Qed.

Lemma equivU_nodup t t' : equivU t t' -> NoDup (leaf_taxa t) -> NoDup (leaf_taxa t').
Proof. intros H ND. eapply Permutation_NoDup; [apply H | assumption]. Qed.
