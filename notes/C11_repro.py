import dendropy
from dendropy import TaxonNamespace, Tree, TreeList, DataSet, DnaCharacterMatrix
from dendropy.utility.error import TaxonNamespaceReconstructionError

def closed(tl):
    return all(t.taxon_namespace is tl.taxon_namespace and all(nd.taxon is None or nd.taxon in tl.taxon_namespace for nd in t) for t in tl)

print("== F-C11-1  half-migrated matrix after TaxonNamespaceReconstructionError")
ns = TaxonNamespace(is_case_sensitive=True)
m = DnaCharacterMatrix(taxon_namespace=ns)
for lab in ("A", "a", "x"):
    m.new_sequence(ns.new_taxon(lab), "ACGT")
target = TaxonNamespace()                      # case-insensitive
try:
    m.migrate_taxon_namespace(target)
except TaxonNamespaceReconstructionError as e:
    print("  raised:", e)
print("  matrix namespace is target:", m.taxon_namespace is target,
      "| rows (label, in matrix namespace):", [(t.label, t in m.taxon_namespace) for t in m._taxon_sequence_map])

print("== F-C11-1b the same through DataSet.unify_taxon_namespaces (default, case-insensitive target)")
ns = TaxonNamespace(is_case_sensitive=True)
m = DnaCharacterMatrix(taxon_namespace=ns)
for lab in ("A", "a"):
    m.new_sequence(ns.new_taxon(lab), "ACGT")
ds = DataSet([m])
try:
    ds.unify_taxon_namespaces()
except TaxonNamespaceReconstructionError as e:
    print("  raised:", e)
print("  rows:", [(t.label, t in m.taxon_namespace) for t in m._taxon_sequence_map], "| attached:", ds.attached_taxon_namespace)

print("== F-C11-2  reconstruct_taxon_namespace() on a consistent matrix always raises")
m = DnaCharacterMatrix.get(data=">A\nACGT\n>B\nACGT\n", schema="fasta")
try:
    m.reconstruct_taxon_namespace()
    print("  ok")
except TaxonNamespaceReconstructionError as e:
    print("  raised:", e)

print("== F-C11-3  DataSet.add under an attached namespace / attach with foreign components")
ns1, ns2 = TaxonNamespace(), TaxonNamespace()
ds = DataSet(); ds.attach_taxon_namespace(ns1)
tl = TreeList.get(data="(A,B);", schema="newick", taxon_namespace=ns2)
ds.add(tl)
print("  component refers to attached namespace:", ds.tree_lists[0].taxon_namespace is ds.attached_taxon_namespace)
ds = DataSet([tl]); ds.attach_taxon_namespace(ns1)
print("  after attach on a filled data set:", ds.tree_lists[0].taxon_namespace is ds.attached_taxon_namespace)

print("== F-C11-4  unify_taxon_namespaces(ns, attach_taxon_namespace=False) on an attached data set")
ds = DataSet(); ds.attach_taxon_namespace(ns1); ds.read(data="(A,B);", schema="newick")
ds.unify_taxon_namespaces(ns2, attach_taxon_namespace=False)
print("  components refer to attached namespace:", [x.taxon_namespace is ds.attached_taxon_namespace for x in ds.tree_lists],
      "| len(ds.taxon_namespaces):", len(ds.taxon_namespaces), "(the target namespace is not registered either)")

print("== F-C11-5  a tree object held by two lists is re-homed in place")
tl1 = TreeList.get(data="(A,B);", schema="newick")
tl2 = TreeList.get(data="(A,C);", schema="newick")
tl1.append(tl2[0])
print("  tl1 closed:", closed(tl1), "| tl2 closed:", closed(tl2))
tl2 = TreeList.get(data="(A,C);(B,C);", schema="newick")
sub = tl2[0:1]
sub.migrate_taxon_namespace(TaxonNamespace())
print("  after migrating the slice tl2[0:1]: tl2 closed:", closed(tl2))

print("== F-C11-6  purge_taxon_namespace on a shared namespace")
ns = TaxonNamespace()
tl1 = TreeList.get(data="(A,B);", schema="newick", taxon_namespace=ns)
tl2 = TreeList.get(data="(C,D);", schema="newick", taxon_namespace=ns)
tl1.purge_taxon_namespace()
print("  tl2 closed:", closed(tl2), "| namespace:", [t.label for t in ns])
