"""Translator for the NEXUS character-block methods: Gen/NexusChars.v  (used by C20).

generate(repo) parses, with Python `ast`, the methods

    NexusReader._parse_format_statement      NexusReader._read_character_states

of src/dendropy/dataio/nexusreader.py as they are in the CURRENT source and emits Gallina definitions that follow
them statement by statement (over the primitives of coq/Model/C20NexusPrims.v, where the Python semantics assumed
for every construct is stated).  Proofs/C20GenNexus.v proves the generated functions equal to the hand-written
skeleton of Model/C20Nexus2.v (format_loop / parse_format, states_loop / read_character_states).

Scheme
  * the reader and its tokenizer are one state value `st`, threaded through every statement; an attribute the
    method assigns is a field of it (setter / getter primitives), an attribute it only reads is a parameter
    `self_<name>` of the generated function (Section variable)
  * `while C: B` -> a Fixpoint on explicit fuel (each loop is started with the budget F): the variables assigned in
    B that exist before the loop are carried, other locals it reads are parameters; `break` returns the carried
    tuple, `continue` / the end of B is the recursive call
  * `for c in <str>: B` -> a Fixpoint on the list of one-character strings
  * statements are compiled in continuation-passing style: what follows an `if` is placed in both branches
  * `raise self._nexus_error(..)` / `self._too_many_characters_error(..)` (DataParseError subclasses) -> RErr ParseErr;
    `raise NexusReader.BlockTerminatedException` -> the result GBte; `try: x = E except K: H` -> a match on the
    error class E's primitive raises
Whitelist: any statement, expression, call or attribute not listed here raises Unsupported (py2coq then writes a
stub and every dependent proof breaks).

Part 2 (class Fn2, primitives coq/Model/C20NexusPrims2.v): the MATRIX-statement methods

    NexusReader._parse_dimensions_statement   NexusReader._get_taxon
    NexusReader._process_discrete_matrix_data NexusReader._parse_matrix_statement

proved equal to the skeleton's parse_dimensions / get_taxon / parse_matrix in Proofs/C20GenNexusMatrix*.v.
  * parameters are arguments of the generated Definition; EVERY attribute read is a getter on the current state
  * `self._m(..)` with _m translated earlier in this file is a call of the generated function (its Section variables
    and - for a part-1 method - the attributes it only reads, taken from the current state, are passed); a callee that
    extends its first parameter in place and returns it is called on `char_block[taxon]` and the row is stored back
  * `try: while ..: .. except NexusReader.BlockTerminatedException: H` -> the loop returns a gres; GBte (raised by a
    callee) abandons the loop, H runs on the state at the raise and what the loop assigned is undefined in H.  Outside
    a try an escaping BlockTerminatedException is RErr OtherErr
  * `a < self._file_specified_nchar` (None-able int) is a monadic test: TypeError on None; `not x or a < x` short-circuits
  * `if x is None: raise ..` refines x to not-None afterwards; `int(t)` under `if t.isdecimal():` is the total py_int,
    under `if t.isdigit():` the monadic py_int_digit (ValueError on a digit that is not decimal: the variant form that
    no longer equals the skeleton), anywhere else it is refused
  * untranslated callees are primitives: _get_taxon_namespace, _new_char_matrix, _build_state_alphabet,
    _process_continuous_matrix_data, TaxonNamespace.require_taxon / get_taxon, CharacterMatrix.__getitem__ / __iter__"""
import ast
import os

OUTPUT = "NexusChars.v"
SOURCE = os.path.join("src", "dendropy", "dataio", "nexusreader.py")
FUNCS = ["_parse_format_statement", "_read_character_states"]


class Unsupported(Exception):
    pass


# declared interface of the translated methods: parameter -> type
PARAMS = {
    "_parse_format_statement": [],
    "_read_character_states": [("character_data_vector", "states"), ("state_alphabet", "alpha"),
                               ("first_sequence_defined", "first")],
}
ATTR_TYPES = {"_interleave": "bool", "_match_char": "strs", "_file_specified_nchar": "Z", "_symbols": "str",
              "_gap_char": "str", "_missing_char": "str", "_data_type": "dtname"}
COQ_T = {"str": "str", "bool": "bool", "Z": "Z", "strs": "(list str)", "states": "(list pstate)", "state": "pstate",
         "alpha": "alphabet", "first": "(option Z)", "mtype": "mstype"}
SETTERS = {"_data_type": "set_data_type", "_symbols": "set_symbols", "_gap_char": "set_gap_char",
           "_missing_char": "set_missing_char", "_match_char": "set_match_char", "_interleave": "set_interleave"}
GETTERS = {"_symbols": ("get_symbols", "str")}
FETCHES = {"require_next_token": "py_require_next_token st", "require_next_token_ucase": "py_require_next_token_ucase upper st"}
ERROR_CALLS = {"_nexus_error", "_too_many_characters_error"}       # constructors of DataParseError subclasses
EXC_CLASS = {"TypeError": "TypeErr", "IndexError": "IndexErr", "KeyError": "KeyErr"}

HEADER = """(* GENERATED by py/dv/gen_nexuschars.py from src/dendropy/dataio/nexusreader.py. DO NOT EDIT. *)
From Coq Require Import String Ascii ZArith List Bool.
From DV Require Import Model.PyPrims Gen.ReaderLoops Model.Tokenizer Model.Newick Model.C20Model Model.C20Nexus2 Model.C20NexusPrims Model.C20NexusPrims2.
Import ListNotations.
Close Scope string_scope.
Open Scope list_scope.
Open Scope Z_scope.
"""


def coq_string(s):
    if all(32 <= ord(c) <= 126 for c in s):
        return '"%s"%%string' % s.replace('"', '""')
    out = '""%string'
    for c in reversed(s):
        out = "(String (ascii_of_nat %d) %s)" % (ord(c), out)
    return out


def is_self_attr(e):
    return isinstance(e, ast.Attribute) and isinstance(e.value, ast.Name) and e.value.id == "self"


def tokenizer_call(e):
    """self._nexus_tokenizer.<m>(...) -> (m, args)"""
    if (isinstance(e, ast.Call) and isinstance(e.func, ast.Attribute) and is_self_attr(e.func.value)
            and e.func.value.attr == "_nexus_tokenizer"):
        return e.func.attr, e.args
    return None


class Fn(object):
    def __init__(self, node):
        self.node = node
        self.name = node.name
        self.cname = "NexusReader" + node.name
        self.params = list(PARAMS[node.name])
        got = [a.arg for a in node.args.args[1:]]
        if got != [p for p, _t in self.params]:
            raise Unsupported("%s: parameters %r" % (self.name, got))
        self.written = set()
        self.readonly = []
        self.bte = False
        self.elem = {}            # list variable -> element type
        self.loops = {}           # id(node) -> ordinal
        self.defs = []            # emitted Fixpoints
        self.scan()

    # ---- pre-pass -----------------------------------------------------------------------------
    def scan(self):
        n = 0
        for x in ast.walk(self.node):
            if isinstance(x, (ast.Assign,)):
                for t in x.targets:
                    if is_self_attr(t):
                        self.written.add(t.attr)
            if isinstance(x, ast.Raise) and self.is_bte(x.exc):
                self.bte = True
            if (isinstance(x, ast.Call) and isinstance(x.func, ast.Attribute) and x.func.attr == "append"
                    and isinstance(x.func.value, ast.Name) and len(x.args) == 1 and isinstance(x.args[0], ast.Name)):
                self.elem[x.func.value.id] = {"token": "strs", "state": "states"}.get(x.args[0].id)
        for x in self.preorder(self.node):
            if isinstance(x, (ast.While, ast.For)):
                n += 1
                self.loops[id(x)] = n
        for x in ast.walk(self.node):
            if is_self_attr(x) and isinstance(x.ctx, ast.Load) and x.attr in ATTR_TYPES and x.attr not in self.written:
                if x.attr not in self.readonly:
                    self.readonly.append(x.attr)

    def preorder(self, node):
        yield node
        for c in ast.iter_child_nodes(node):
            for x in self.preorder(c):
                yield x

    @staticmethod
    def is_bte(e):
        return (isinstance(e, ast.Attribute) and e.attr == "BlockTerminatedException"
                and isinstance(e.value, ast.Name) and e.value.id == "NexusReader")

    # ---- expressions --------------------------------------------------------------------------
    def expr(self, e, env):
        if isinstance(e, ast.Name):
            if e.id in env:
                return e.id, env[e.id]
            raise Unsupported("name %s" % e.id)
        if isinstance(e, ast.Constant):
            if isinstance(e.value, bool):
                return ("true" if e.value else "false"), "bool"
            if isinstance(e.value, int):
                return "(%d)" % e.value, "Z"
            if isinstance(e.value, str):
                return ("[]" if e.value == "" else "(s_of %s)" % coq_string(e.value)), "str"
            raise Unsupported("constant %r" % (e.value,))
        if isinstance(e, ast.List):
            if e.elts:
                xs = [self.expr(x, env) for x in e.elts]
                if any(t != "str" for _x, t in xs):
                    raise Unsupported("list of non-str")
                return "[%s]" % "; ".join(x for x, _t in xs), "strs"
            raise Unsupported("untyped []")
        if isinstance(e, ast.BoolOp):
            op = {ast.Or: "||", ast.And: "&&"}.get(type(e.op))
            xs = [self.expr(v, env) for v in e.values]
            if op is None or any(t != "bool" for _x, t in xs):
                raise Unsupported("boolop")
            return "(%s)" % (" %s " % op).join(x for x, _t in xs), "bool"
        if isinstance(e, ast.UnaryOp) and isinstance(e.op, ast.Not):
            x, t = self.expr(e.operand, env)
            if t != "bool":
                raise Unsupported("not of %s" % t)
            return "(negb %s)" % x, "bool"
        if isinstance(e, ast.BinOp) and isinstance(e.op, ast.Add):
            a, ta = self.expr(e.left, env)
            b, tb = self.expr(e.right, env)
            if ta == tb == "Z":
                return "(%s + %s)" % (a, b), "Z"
            if ta == tb == "str":
                return "(%s ++ %s)" % (a, b), "str"
            raise Unsupported("+ on %s, %s" % (ta, tb))
        if isinstance(e, ast.Compare) and len(e.ops) == 1:
            return self.compare(e.left, e.ops[0], e.comparators[0], env)
        if is_self_attr(e):
            if e.attr in self.written:
                if e.attr in GETTERS:
                    g, t = GETTERS[e.attr]
                    return "(%s st)" % g, t
                raise Unsupported("read of assigned attribute %s" % e.attr)
            if e.attr in ATTR_TYPES:
                return "self%s" % e.attr, ATTR_TYPES[e.attr]
            raise Unsupported("attribute self.%s" % e.attr)
        if isinstance(e, ast.Attribute) and isinstance(e.value, ast.Name) and env.get(e.value.id) == "alpha" \
                and e.attr in ("AMBIGUOUS_STATE", "POLYMORPHIC_STATE"):
            return e.attr, "mtype"
        if isinstance(e, ast.Call):
            return self.call(e, env)
        raise Unsupported("expression %s" % ast.dump(e)[:80])

    def compare(self, l, op, r, env):
        if isinstance(op, (ast.Eq, ast.NotEq)):
            a, ta = self.expr(l, env)
            if ta == "str" and isinstance(r, ast.Constant) and isinstance(r.value, str):
                x = "(str_is %s %s)" % (a, coq_string(r.value))
            else:
                b, tb = self.expr(r, env)
                if ta == tb == "str":
                    x = "(seqb %s %s)" % (a, b)
                elif ta == tb == "Z":
                    x = "(%s =? %s)" % (a, b)
                else:
                    raise Unsupported("== on %s, %s" % (ta, tb))
            return (x if isinstance(op, ast.Eq) else "(negb %s)" % x), "bool"
        if isinstance(op, ast.Lt):
            a, ta = self.expr(l, env)
            b, tb = self.expr(r, env)
            if ta == tb == "Z":
                return "(%s <? %s)" % (a, b), "bool"
            raise Unsupported("< on %s, %s" % (ta, tb))
        if isinstance(op, (ast.In, ast.NotIn)):
            a, ta = self.expr(l, env)
            b, tb = self.expr(r, env)
            if ta == "str" and tb == "str":
                x = "(py_in_str %s %s)" % (a, b)
            elif ta == "str" and tb == "strs":
                x = "(py_in_strs %s %s)" % (a, b)
            else:
                raise Unsupported("in on %s, %s" % (ta, tb))
            return (x if isinstance(op, ast.In) else "(negb %s)" % x), "bool"
        raise Unsupported("comparison %s" % type(op).__name__)

    def call(self, e, env):
        f = e.func
        if isinstance(f, ast.Name) and f.id == "len" and len(e.args) == 1:
            x, t = self.expr(e.args[0], env)
            if t in ("states", "strs", "str"):
                return "(zlen %s)" % x, "Z"
            raise Unsupported("len of %s" % t)
        if isinstance(f, ast.Name) and f.id == "frozenset" and len(e.args) == 1:
            return self.expr(e.args[0], env)
        if isinstance(f, ast.Attribute) and not e.keywords:
            if f.attr == "startswith" and len(e.args) == 1 and isinstance(e.args[0], ast.Constant) and isinstance(e.args[0].value, str):
                x, t = self.expr(f.value, env)
                if t == "str":
                    return "(py_startswith %s %s)" % (x, coq_string(e.args[0].value)), "bool"
            if f.attr == "lower" and not e.args:
                x, t = self.expr(f.value, env)
                if t == "str":
                    return "(lower %s)" % x, "str"
            if f.attr == "join" and isinstance(f.value, ast.Constant) and f.value.value == "" and len(e.args) == 1:
                x, t = self.expr(e.args[0], env)
                if t == "strs":
                    return "(py_join_empty %s)" % x, "str"
        raise Unsupported("call %s" % ast.dump(e)[:80])

    def raising(self, e, env):
        """an expression whose evaluation can raise a class a handler names -> term of type nr pstate"""
        if isinstance(e, ast.Subscript):
            idx = e.slice
            if isinstance(e.value, ast.Name) and env.get(e.value.id) == "first":
                i, t = self.expr(idx, env)
                if t == "Z":
                    return "py_first_getitem %s %s" % (e.value.id, i)
            if (isinstance(e.value, ast.Attribute) and e.value.attr == "full_symbol_state_map"
                    and isinstance(e.value.value, ast.Name) and env.get(e.value.value.id) == "alpha"):
                i, t = self.expr(idx, env)
                if t == "str":
                    return "py_symbol_state sym_ok %s %s" % (e.value.value.id, i)
        raise Unsupported("raising expression %s" % ast.dump(e)[:80])

    # ---- statements ---------------------------------------------------------------------------
    def pack(self, carried):
        tup = ", ".join(carried + ["st"])
        tup = "(%s)" % tup if carried else "st"
        return "ROk (GVal %s)" % tup if self.bte else "ROk %s" % tup

    def unpack(self, carried, call, cont):
        tup = ", ".join(carried + ["st"])
        if self.bte:
            pat = "(%s)" % tup if carried else "st"
            return "dn r_ <- %s ;;\nmatch r_ with\n| GBte st => ROk (GBte st)\n| GVal %s =>\n%s\nend" % (call, pat, cont)
        if carried:
            return "dn r_ <- %s ;;\nlet '(%s) := r_ in\n%s" % (call, tup, cont)
        return "dn st <- %s ;;\n%s" % (call, cont)

    def res_type(self, carried, env):
        ts = [COQ_T[env[v]] for v in carried] + ["nstate"]
        t = " * ".join(ts)
        t = "(%s)" % t if len(ts) > 1 else t
        return "nr (gres %s)" % t if self.bte else "nr %s" % t

    def assigned(self, stmts):
        out = []
        for s in stmts:
            for x in ast.walk(s):
                nm = None
                if isinstance(x, ast.Name) and isinstance(x.ctx, ast.Store):
                    nm = x.id
                if (isinstance(x, ast.Call) and isinstance(x.func, ast.Attribute) and x.func.attr in ("append", "extend")
                        and isinstance(x.func.value, ast.Name)):
                    nm = x.func.value.id
                if nm and nm not in out:
                    out.append(nm)
        return out

    def loaded(self, stmts):
        out = []
        for s in stmts:
            for x in ast.walk(s):
                if isinstance(x, ast.Name) and isinstance(x.ctx, ast.Load) and x.id not in out:
                    out.append(x.id)
        return out

    def seq(self, stmts, env, k, lc):
        if not stmts:
            return k(env)
        return self.stmt(stmts[0], env, lambda env2: self.seq(stmts[1:], env2, k, lc), lc)

    def stmt(self, s, env, k, lc):
        if isinstance(s, ast.Expr) and isinstance(s.value, ast.Constant) and isinstance(s.value.value, str):
            return k(env)                                  # docstring
        if isinstance(s, ast.Assign) and len(s.targets) == 1:
            return self.assign(s.targets[0], s.value, env, k)
        if isinstance(s, ast.Expr) and isinstance(s.value, ast.Call):
            return self.call_stmt(s.value, env, k)
        if isinstance(s, ast.If):
            c, t = self.expr(s.test, env)
            if t != "bool":
                raise Unsupported("if on %s" % t)
            if self.only_state(s.body) and self.only_state(s.orelse):
                # both branches only update the reader state: no need to copy the continuation into them
                fin = lambda _e: "st"
                return "let st := (if %s then\n%s\nelse\n%s) in\n%s" % (
                    c, self.seq(s.body, dict(env), fin, lc), self.seq(s.orelse, dict(env), fin, lc), k(env))
            return "(if %s then\n%s\nelse\n%s)" % (c, self.seq(s.body, dict(env), k, lc), self.seq(s.orelse, dict(env), k, lc))
        if isinstance(s, ast.While) and not s.orelse:
            return self.loop(s, env, k)
        if isinstance(s, ast.For) and not s.orelse:
            return self.forloop(s, env, k)
        if isinstance(s, ast.Raise) and s.cause is None:
            return self.raise_(s.exc, env)
        if isinstance(s, ast.Break) and lc:
            return lc[0](env)
        if isinstance(s, ast.Continue) and lc:
            return lc[1](env)
        if isinstance(s, ast.Try) and not s.orelse and not s.finalbody:
            return self.try_(s, env, k, lc)
        if isinstance(s, ast.Return) and isinstance(s.value, ast.Name):
            x, _t = self.expr(s.value, env)
            return "ROk (GVal (%s, st))" % x if self.bte else "ROk (%s, st)" % x
        raise Unsupported("statement %s (line %d)" % (type(s).__name__, s.lineno))

    @staticmethod
    def only_state(stmts):
        for x in stmts:
            if isinstance(x, ast.Assign) and len(x.targets) == 1 and is_self_attr(x.targets[0]) \
                    and not any(isinstance(y, ast.Call) for y in ast.walk(x.value) if not (isinstance(y, ast.Call) and isinstance(y.func, ast.Name))):
                continue
            if isinstance(x, ast.Expr) and tokenizer_call(x.value) and tokenizer_call(x.value)[0] == "set_capture_eol":
                continue
            return False
        return True

    def add_def(self, name, text):
        for n, t in self.defs:
            if n == name:
                if t != text:
                    raise Unsupported("loop %s compiled in two different ways" % name)
                return
        self.defs.append((name, text))

    def raise_(self, e, env):
        if self.is_bte(e):
            return "ROk (GBte st)"
        if isinstance(e, ast.Call) and is_self_attr(e.func) and e.func.attr in ERROR_CALLS:
            return "RErr ParseErr"
        if isinstance(e, ast.Name) and env.get(e.id) == "exc":
            return "RErr ParseErr"
        raise Unsupported("raise %s" % ast.dump(e)[:80])

    def assign(self, tgt, val, env, k):
        tc = tokenizer_call(val)
        if isinstance(tgt, ast.Name) and tc and tc[0] in FETCHES and not tc[1]:
            env = dict(env)
            env[tgt.id] = "str"
            return "dn p_ <- %s ;;\nlet '(%s, st) := p_ in\n%s" % (FETCHES[tc[0]], tgt.id, k(env))
        if is_self_attr(tgt):
            if tgt.attr not in SETTERS:
                raise Unsupported("assignment to self.%s" % tgt.attr)
            want = ATTR_TYPES[tgt.attr]
            if want == "dtname":
                if not (isinstance(val, ast.Constant) and isinstance(val.value, str)):
                    raise Unsupported("self._data_type = <non-constant>")
                x = coq_string(val.value)
            else:
                x, t = self.expr(val, env)
                if t != want:
                    raise Unsupported("self.%s = <%s>" % (tgt.attr, t))
            return "let st := %s st %s in\n%s" % (SETTERS[tgt.attr], x, k(env))
        if isinstance(tgt, ast.Attribute) and isinstance(tgt.value, ast.Name) and env.get(tgt.value.id) == "exc":
            return k(env)                                  # exc.__context__ = None / exc.__cause__ = None
        if isinstance(tgt, ast.Name):
            env = dict(env)
            if isinstance(val, ast.List) and not val.elts:
                t = self.elem.get(tgt.id)
                if t is None:
                    raise Unsupported("element type of %s" % tgt.id)
                env[tgt.id] = t
                return "let %s := [] in\n%s" % (tgt.id, k(env))
            if isinstance(val, ast.Call) and is_self_attr(val.func):
                if val.func.attr in ERROR_CALLS:
                    env[tgt.id] = "exc"
                    return k(env)
                if val.func.attr == "_get_state_for_multistate_tokens" and len(val.args) == 3 and not val.keywords:
                    (c, tc_), (m, tm), (a, ta) = [self.expr(x, env) for x in val.args]
                    if (tc_, tm, ta) != ("str", "mtype", "alpha"):
                        raise Unsupported("_get_state_for_multistate_tokens arguments")
                    env[tgt.id] = "state"
                    return "dn %s <- py_get_state_for_multistate sym_ok %s %s %s ;;\n%s" % (tgt.id, a, c, m, k(env))
                raise Unsupported("call of self.%s" % val.func.attr)
            x, t = self.expr(val, env)
            env[tgt.id] = t
            return "let %s := %s in\n%s" % (tgt.id, x, k(env))
        raise Unsupported("assignment target %s" % ast.dump(tgt)[:60])

    def call_stmt(self, c, env, k):
        tc = tokenizer_call(c)
        if tc and tc[0] == "set_capture_eol" and len(tc[1]) == 1:
            x, t = self.expr(tc[1][0], env)
            if t == "bool":
                return "let st := py_set_capture_eol st %s in\n%s" % (x, k(env))
        f = c.func
        if isinstance(f, ast.Attribute) and isinstance(f.value, ast.Name) and len(c.args) == 1 and not c.keywords:
            v = f.value.id
            tv = env.get(v)
            x, t = self.expr(c.args[0], env)
            if f.attr == "append" and (tv, t) in (("strs", "str"), ("states", "state")):
                return "let %s := %s ++ [%s] in\n%s" % (v, v, x, k(env))
            if f.attr == "extend" and tv == t and tv in ("strs", "states"):
                return "let %s := %s ++ %s in\n%s" % (v, v, x, k(env))
        raise Unsupported("call statement %s" % ast.dump(c)[:80])

    def try_(self, s, env, k, lc):
        if not (len(s.body) == 1 and isinstance(s.body[0], ast.Assign) and len(s.body[0].targets) == 1
                and isinstance(s.body[0].targets[0], ast.Name)):
            raise Unsupported("try body (line %d)" % s.lineno)
        v = s.body[0].targets[0].id
        term = self.raising(s.body[0].value, env)
        env2 = dict(env)
        env2[v] = "state"
        arms = ["| ROk %s =>\n%s" % (v, k(env2))]
        for h in s.handlers:
            if not (isinstance(h.type, ast.Name) and h.type.id in EXC_CLASS and h.name is None):
                raise Unsupported("except clause (line %d)" % h.lineno)
            arms.append("| RErr %s =>\n%s" % (EXC_CLASS[h.type.id], self.seq(h.body, dict(env), k, lc)))
        arms.append("| RErr e_ => RErr e_\n| RFuel => RFuel")
        return "match %s with\n%s\nend" % (term, "\n".join(arms))

    def loop_params(self, body_stmts, extra_test, env):
        asg = self.assigned(body_stmts)
        carried = [v for v in asg if v in env and env[v] != "exc"]
        pnames = [p for p, _t in self.params]
        used = self.loaded(body_stmts + extra_test)
        ro = [v for v in used if v in env and v not in carried and v not in pnames and env[v] != "exc"]
        return carried, ro

    def loop(self, s, env, k):
        n = self.loops[id(s)]
        name = "%s_loop%d" % (self.cname, n)
        carried, ro = self.loop_params(s.body, [ast.Expr(value=s.test)], env)
        envl = dict(env)
        if isinstance(s.test, ast.Constant) and s.test.value is True:
            cond = "true"
        else:
            cond, t = self.expr(s.test, envl)
            if t != "bool":
                raise Unsupported("while on %s" % t)
        args = " ".join(ro + carried + ["st"])
        rec = lambda _e: "%s fuel_ %s" % (name, args)
        brk = lambda _e: self.pack(carried)
        body = self.seq(s.body, envl, rec, (brk, rec))
        sig = " ".join("(%s : %s)" % (v, COQ_T[env[v]]) for v in ro + carried)
        self.add_def(name, "Fixpoint %s (fuel : nat) %s (st : nstate) {struct fuel} : %s :=\nmatch fuel with\n| O => RFuel\n| S fuel_ =>\nif %s then\n%s\nelse\n%s\nend." % (
            name, sig, self.res_type(carried, env), cond, body, self.pack(carried)))
        return self.unpack(carried, "%s F %s" % (name, args), k(env))

    def forloop(self, s, env, k):
        n = self.loops[id(s)]
        name = "%s_loop%d" % (self.cname, n)
        if not (isinstance(s.target, ast.Name) and isinstance(s.iter, ast.Name) and env.get(s.iter.id) == "str"):
            raise Unsupported("for loop (line %d)" % s.lineno)
        carried, ro = self.loop_params(s.body, [], env)
        carried = [v for v in carried if v != s.target.id]
        ro = [v for v in ro if v != s.target.id and v != s.iter.id]
        envl = dict(env)
        envl[s.target.id] = "str"
        args = " ".join(ro + carried + ["st"])
        rec = lambda _e: "%s cs_ %s" % (name, args)
        body = self.seq(s.body, envl, rec, None)
        sig = " ".join("(%s : %s)" % (v, COQ_T[env[v]]) for v in ro + carried)
        self.add_def(name, "Fixpoint %s (chars_ : list str) %s (st : nstate) {struct chars_} : %s :=\nmatch chars_ with\n| [] => %s\n| %s :: cs_ =>\n%s\nend." % (
            name, sig, self.res_type(carried, env), self.pack(carried), s.target.id, body))
        return self.unpack(carried, "%s (py_chars %s) %s" % (name, s.iter.id, args), k(env))

    # ---- the method ---------------------------------------------------------------------------
    def emit(self):
        env = dict((p, t) for p, t in self.params)
        final = (lambda _e: "ROk st") if not self.bte else None
        body = list(self.node.body)
        if self.bte and not isinstance(body[-1], ast.Return):
            raise Unsupported("%s does not end in return" % self.name)
        main = self.seq(body, env, final if final else (lambda _e: "RFuel"), None)
        lines = ["(* NexusReader.%s  (nexusreader.py, line %d) *)" % (self.name, self.node.lineno),
                 "Section %s." % self.cname,
                 "Variable upper lower : str -> str.", "Variable sym_ok : Z -> Z -> bool.", "Variable F : nat."]
        for a in self.readonly:
            lines.append("Variable self%s : %s." % (a, COQ_T[ATTR_TYPES[a]]))
        for p, t in self.params:
            lines.append("Variable %s : %s." % (p, COQ_T[t]))
        lines.append("")
        for _n, d in self.defs:
            lines.append(d)
            lines.append("")
        lines.append("Definition %s (st : nstate) :=\n%s." % (self.cname, main))
        lines.append("End %s.\n" % self.cname)
        return "\n".join(lines)



# =================================================================================================================
# part 2: the MATRIX-statement methods (primitives: coq/Model/C20NexusPrims2.v)
# =================================================================================================================
FUNCS2 = ["_parse_dimensions_statement", "_get_taxon", "_process_discrete_matrix_data", "_parse_matrix_statement"]
PARAMS2 = {
    "_parse_dimensions_statement": [],
    "_get_taxon": [("taxon_namespace", "tnsref"), ("label", "ostr")],
    "_process_discrete_matrix_data": [("char_block", "cbref")],
    "_parse_matrix_statement": [("block_title", "ostr"), ("link_title", "ostr")],
}
COQ_T.update({"ostr": "(option str)", "tnsref": "nat", "taxon": "nat", "otaxon": "(option nat)", "cbref": "cbref",
              "rowref": "(option nat)", "optZ": "(option Z)", "dtype": "dtype"})
# every attribute access of these methods goes through the state
GETTERS2 = {"_file_specified_ntax": ("get_file_specified_ntax", "optZ"), "_file_specified_nchar": ("get_file_specified_nchar", "optZ"),
            "_data_type": ("get_data_type", "dtype"), "_interleave": ("get_interleave", "bool"), "_symbols": ("get_symbols", "str"),
            "_match_char": ("get_match_char", "strs")}
SETTERS2 = {"_file_specified_ntax": ("set_file_specified_ntax", "Z"), "_file_specified_nchar": ("set_file_specified_nchar", "Z")}
FETCHES2 = {"next_token": ("py_next_token st", "ostr"), "require_next_token": ("py_require_next_token st", "str"),
            "require_next_token_ucase": ("py_require_next_token_ucase upper st", "str")}
LOCAL_NONE = {"first_sequence_defined": "rowref"}          # locals initialised with None: their declared type
DTYPE_NAMES = ("dna", "rna", "nucleotide", "protein", "continuous", "standard")
ERROR_CALLS2 = ERROR_CALLS | {"_too_many_taxa_error"}
GLOBALS2 = [("fxc", "bool"), ("fxa", "bool"), ("upper", "str -> str"), ("lower", "str -> str"), ("dval", "Z -> option Z"),
            ("xdigit", "Z -> bool"), ("sym_ok", "Z -> Z -> bool"), ("is_float", "str -> bool"), ("F", "nat")]
GLOBALS1 = ["upper", "lower", "sym_ok", "F"]              # the Section variables of the part-1 methods
CASE_KW = "case_sensitive_taxon_labels"


def used_globals(names, text):
    import re
    text = "\n".join(l for l in text.split("\n") if not l.startswith("Variable "))
    return [g for g in names if re.search(r"(?<![A-Za-z0-9_'])%s(?![A-Za-z0-9_'])" % g, text)]


def is_bte_type(e):
    return Fn.is_bte(e)


class Fn2(Fn):
    """methods whose parameters are arguments of the generated Definition (not Section variables), whose attribute
    reads are getters on the current state, and which may call methods translated before them (registry)"""

    def __init__(self, node, registry):
        self.registry = registry
        self.node = node
        self.name = node.name
        self.cname = "NexusReader" + node.name
        self.params = list(PARAMS2[node.name])
        got = [a.arg for a in node.args.args[1:]]
        if got != [p for p, _t in self.params] or node.args.vararg or node.args.kwarg or node.args.kwonlyargs:
            raise Unsupported("%s: parameters %r" % (self.name, got))
        self.written = set()
        self.readonly = []
        self.bte = False
        self.elem = {}
        self.loops = {}
        self.defs = []
        self.btx = None            # "try": inside `try: while .. except NexusReader.BlockTerminatedException`
        self.gres_loop = False     # the loop being compiled returns a gres
        self.digits = set()        # names known to satisfy .isdigit() on the current path (int() of them CAN fail)
        self.decimals = set()      # names known to satisfy .isdecimal() on the current path (int() of them cannot)
        self.ret_type = None
        self.returns_param = None
        n = 0
        for x in self.preorder(self.node):
            if isinstance(x, (ast.While, ast.For)):
                n += 1
                self.loops[id(x)] = n
            if isinstance(x, ast.Raise) and self.is_bte(x.exc):
                raise Unsupported("%s raises BlockTerminatedException itself" % self.name)

    # ---- expressions --------------------------------------------------------------------------
    def the_cb(self, env):
        cbs = [v for v, t in env.items() if t == "cbref"]
        if len(cbs) != 1:
            raise Unsupported("no unique CharacterMatrix variable")
        return cbs[0]

    def row_expr(self, e, env):
        """char_block[taxon] -> (cb, taxon)"""
        if (isinstance(e, ast.Subscript) and isinstance(e.value, ast.Name) and env.get(e.value.id) == "cbref"
                and isinstance(e.slice, ast.Name) and env.get(e.slice.id) == "taxon"):
            return e.value.id, e.slice.id
        return None

    def expr2(self, e, env, pre):
        """-> (term, type); `pre` collects the `let st := ..` lines that must precede the statement (char_block[taxon]
        creates the row).  type "mbool": a term of type nr bool"""
        if is_self_attr(e):
            if e.attr in GETTERS2:
                g, t = GETTERS2[e.attr]
                return "(%s st)" % g, t
            raise Unsupported("attribute self.%s" % e.attr)
        if isinstance(e, ast.Constant) and e.value is None:
            raise Unsupported("None outside a declared initialisation")
        if isinstance(e, ast.Attribute) and isinstance(e.value, ast.Name) and env.get(e.value.id) == "cbref":
            if e.attr == "taxon_namespace":
                return "(py_cb_taxon_namespace st %s)" % e.value.id, "tnsref"
            if e.attr == "default_state_alphabet":
                return "(py_cb_default_state_alphabet %s)" % e.value.id, "alpha"
            raise Unsupported("attribute %s of a CharacterMatrix" % e.attr)
        if isinstance(e, ast.UnaryOp) and isinstance(e.op, ast.Not):
            tc = tokenizer_call(e.operand)
            x, t = self.expr2(e.operand, env, pre)
            if t == "optZ":
                return "(py_not_optz %s)" % x, "bool"
            if t == "bool":
                return "(negb %s)" % x, "bool"
            raise Unsupported("not of %s" % t)
        if isinstance(e, ast.BoolOp):
            xs = [self.expr2(v, env, pre) for v in e.values]
            if all(t == "bool" for _x, t in xs):
                op = {ast.Or: "||", ast.And: "&&"}[type(e.op)]
                return "(%s)" % (" %s " % op).join(x for x, _t in xs), "bool"
            if isinstance(e.op, ast.Or) and len(xs) == 2 and xs[0][1] == "bool" and xs[1][1] == "mbool":
                return "(if %s then ROk true else %s)" % (xs[0][0], xs[1][0]), "mbool"      # short circuit
            raise Unsupported("boolean operator on %r" % [t for _x, t in xs])
        if isinstance(e, ast.Compare) and len(e.ops) == 1:
            op, l, r = e.ops[0], e.left, e.comparators[0]
            if isinstance(op, (ast.Is, ast.IsNot)) and isinstance(r, ast.Constant) and r.value is None:
                a, ta = self.expr2(l, env, pre)
                if ta in ("rowref", "otaxon", "ostr"):
                    x = "(py_is_none %s)" % a
                    return (x if isinstance(op, ast.Is) else "(negb %s)" % x), "bool"
                raise Unsupported("is None on %s" % ta)
            if isinstance(op, (ast.Eq, ast.NotEq)) and isinstance(r, ast.Constant) and isinstance(r.value, str):
                a, ta = self.expr2(l, env, pre)
                if ta == "ostr":
                    x = "(ostr_is %s %s)" % (a, coq_string(r.value))
                elif ta == "str":
                    x = "(str_is %s %s)" % (a, coq_string(r.value))
                elif ta == "dtype" and r.value in DTYPE_NAMES:
                    x = "(dtype_is %s %s)" % (a, coq_string(r.value))
                else:
                    raise Unsupported("== literal on %s" % ta)
                return (x if isinstance(op, ast.Eq) else "(negb %s)" % x), "bool"
            if isinstance(op, (ast.Lt, ast.LtE)):
                a, ta = self.expr2(l, env, pre)
                b, tb = self.expr2(r, env, pre)
                if ta == "Z" and tb == "optZ":
                    return "(%s %s %s)" % ("py_lt_z_optz" if isinstance(op, ast.Lt) else "py_le_z_optz", a, b), "mbool"
                if ta == tb == "Z":
                    return "(%s %s %s)" % (a, "<?" if isinstance(op, ast.Lt) else "<=?", b), "bool"
                raise Unsupported("< on %s, %s" % (ta, tb))
            raise Unsupported("comparison %s" % type(op).__name__)
        if isinstance(e, ast.Call):
            f = e.func
            tc = tokenizer_call(e)
            if tc and tc[0] == "is_eof" and not tc[1] and not e.keywords:
                return "(py_is_eof st)", "bool"
            if isinstance(f, ast.Name) and f.id == "len" and len(e.args) == 1 and not e.keywords:
                a = e.args[0]
                row = self.row_expr(a, env)
                if row:
                    pre.append("let st := py_cb_touch st %s %s in" % row)
                    return "(py_cb_row_len st %s %s)" % row, "Z"
                if isinstance(a, ast.Name) and env.get(a.id) == "tnsref":
                    return "(py_tns_len st %s)" % a.id, "Z"
                raise Unsupported("len of %s" % ast.dump(a)[:60])
            if isinstance(f, ast.Attribute) and f.attr in ("isdigit", "isdecimal") and not e.args and not e.keywords \
                    and isinstance(f.value, ast.Name) and env.get(f.value.id) == "str":
                if f.attr == "isdecimal":
                    return "(py_isdecimal dval %s)" % f.value.id, "bool"
                # str.isdigit() also accepts digits that are not decimal (superscripts, circled digits: xdigit)
                return "(py_isdigit dval xdigit %s)" % f.value.id, "bool"
            if isinstance(f, ast.Name) and f.id == "int" and len(e.args) == 1 and not e.keywords \
                    and isinstance(e.args[0], ast.Name) and env.get(e.args[0].id) == "str":
                x = e.args[0].id
                if x in self.decimals:
                    return "(py_int dval %s)" % x, "Z"                 # int() of a decimal string cannot fail
                if x in self.digits:
                    # guarded by isdigit() only: int() raises ValueError on a non-decimal digit
                    pre.append("dn int_%s_ <- py_int_digit dval %s ;;" % (x, x))
                    return "int_%s_" % x, "Z"
                raise Unsupported("int(%s) not guarded by %s.isdecimal() / .isdigit()" % (x, x))
            raise Unsupported("call %s" % ast.dump(e)[:80])
        if isinstance(e, ast.Name):
            if e.id in env and env[e.id] not in ("exc", "undef"):
                return e.id, env[e.id]
            raise Unsupported("name %s" % e.id)
        if isinstance(e, ast.Constant) and isinstance(e.value, str):
            return super().expr(e, env)
        raise Unsupported("expression %s" % ast.dump(e)[:80])

    def expr(self, e, env):
        pre = []
        x, t = self.expr2(e, env, pre)
        if pre:
            raise Unsupported("row access in a position that cannot create the row first")
        if t == "mbool":
            raise Unsupported("comparison with None-able int outside an if test")
        return x, t

    # ---- calls of translated methods / primitives ---------------------------------------------
    def bind_args(self, call, params):
        """positional + keyword arguments -> expressions in parameter order"""
        out = list(call.args)
        names = [p for p, _t in params]
        if len(out) > len(names):
            raise Unsupported("too many arguments")
        rest = dict((k.arg, k.value) for k in call.keywords)
        if None in rest:
            raise Unsupported("**kwargs")
        for p in names[len(out):]:
            if p not in rest:
                raise Unsupported("argument %s missing" % p)
            out.append(rest.pop(p))
        if rest:
            raise Unsupported("unknown keyword %r" % sorted(rest))
        return out

    def arg_value(self, a, want, env, pre):
        row = self.row_expr(a, env)
        if row and want == "states":
            pre.append("let st := py_cb_touch st %s %s in" % row)
            return "(py_cb_row st %s %s)" % row
        x, t = self.expr2(a, env, pre)
        if t == want:
            return x
        if t == "rowref" and want == "first":
            return "(py_rowref_len st %s %s)" % (self.the_cb(env), x)
        raise Unsupported("argument of type %s where %s is expected" % (t, want))

    def method_call(self, call, env, pre):
        """self._m(...) with _m translated before -> (callee, term)"""
        callee = self.registry[call.func.attr]
        args = self.bind_args(call, callee.params)
        if isinstance(callee, Fn2):
            gl = used_globals([g for g, _t in GLOBALS2], callee.text)
            ro = []
        else:
            gl = used_globals(GLOBALS1, callee.text)
            ro = []
            for a in callee.readonly:
                g, t = GETTERS2[a]
                want = ATTR_TYPES[a]
                if t == want:
                    ro.append("(%s st)" % g)
                elif t == "optZ" and want == "Z":
                    pre.append("dn %s_ <- py_optz_int (%s st) ;;" % (a.strip("_"), g))
                    ro.append("%s_" % a.strip("_"))
                else:
                    raise Unsupported("attribute %s: %s where %s is expected" % (a, t, want))
        vals = [self.arg_value(a, t, env, pre) for a, (_p, t) in zip(args, callee.params)]
        return callee, "%s %s st" % (callee.cname, " ".join(gl + ro + vals))

    def is_method_call(self, e):
        return isinstance(e, ast.Call) and is_self_attr(e.func) and e.func.attr in self.registry

    def bte_arm(self):
        # an uncaught BlockTerminatedException leaves the reader as an exception outside the DataParseError family
        return "ROk (GBte st)" if self.btx == "try" else "RErr OtherErr"

    def case_kw_ok(self, call):
        kws = dict((k.arg, k.value) for k in call.keywords)
        return (not call.args and sorted(kws) == ["is_case_sensitive", "label"] and is_self_attr(kws["is_case_sensitive"])
                and kws["is_case_sensitive"].attr == CASE_KW)

    # ---- statements ---------------------------------------------------------------------------
    def emit_pre(self, pre, body):
        return "\n".join(pre + [body])

    def assign(self, tgt, val, env, k):
        pre = []
        tc = tokenizer_call(val)
        if isinstance(tgt, ast.Name) and tc and tc[0] in FETCHES2 and not tc[1] and not val.keywords:
            env = dict(env)
            term, env[tgt.id] = FETCHES2[tc[0]]
            return "dn p_ <- %s ;;\nlet '(%s, st) := p_ in\n%s" % (term, tgt.id, k(env))
        if is_self_attr(tgt):
            if tgt.attr not in SETTERS2:
                raise Unsupported("assignment to self.%s" % tgt.attr)
            s, want = SETTERS2[tgt.attr]
            x, t = self.expr2(val, env, pre)
            if t != want:
                raise Unsupported("self.%s = <%s>" % (tgt.attr, t))
            return self.emit_pre(pre, "let st := %s st %s in\n%s" % (s, x, k(env)))
        if not isinstance(tgt, ast.Name):
            raise Unsupported("assignment target %s" % ast.dump(tgt)[:60])
        env = dict(env)
        v = tgt.id
        if isinstance(val, ast.Constant) and val.value is None:
            if v not in LOCAL_NONE:
                raise Unsupported("%s = None: undeclared local" % v)
            env[v] = LOCAL_NONE[v]
            return "let %s := None in\n%s" % (v, k(env))
        row = self.row_expr(val, env)
        if row:
            if LOCAL_NONE.get(v) != "rowref":
                raise Unsupported("%s = <row>: undeclared alias" % v)
            env[v] = "rowref"
            return "let st := py_cb_touch st %s %s in\nlet %s := Some %s in\n%s" % (row[0], row[1], v, row[1], k(env))
        if self.is_method_call(val):
            callee, term = self.method_call(val, env, pre)
            if callee.ret_type is None:
                raise Unsupported("%s returns nothing" % callee.name)
            if callee.bte:
                raise Unsupported("value of a method that raises BlockTerminatedException")
            env[v] = callee.ret_type
            return self.emit_pre(pre, "dn r_ <- %s ;;\nlet '(%s, st) := r_ in\n%s" % (term, v, k(env)))
        if isinstance(val, ast.Call) and is_self_attr(val.func):
            m = val.func.attr
            if m == "_get_taxon_namespace" and len(val.args) == 1 and not val.keywords:
                x = self.arg_value(val.args[0], "ostr", env, pre)
                env[v] = "tnsref"
                return self.emit_pre(pre, "dn p_ <- py_get_taxon_namespace upper st %s ;;\nlet '(%s, st) := p_ in\n%s" % (x, v, k(env)))
            if m == "_new_char_matrix":
                a = self.bind_args(val, [("data_type", "dtype"), ("taxon_namespace", "tnsref"), ("title", "ostr")])
                xs = [self.arg_value(x, t, env, pre) for x, t in zip(a, ("dtype", "tnsref", "ostr"))]
                env[v] = "cbref"
                return self.emit_pre(pre, "let '(%s, st) := py_new_char_matrix st %s in\n%s" % (v, " ".join(xs), k(env)))
            raise Unsupported("call of self.%s" % m)
        if (isinstance(val, ast.Call) and isinstance(val.func, ast.Attribute) and isinstance(val.func.value, ast.Name)
                and env.get(val.func.value.id) == "tnsref" and val.func.attr in ("require_taxon", "get_taxon") and self.case_kw_ok(val)):
            lab = dict((kw.arg, kw.value) for kw in val.keywords)["label"]
            x = self.arg_value(lab, "ostr", env, pre)
            env[v] = "otaxon"
            if val.func.attr == "require_taxon":
                return self.emit_pre(pre, "let '(%s, st) := py_require_taxon lower st %s %s in\n%s" % (v, val.func.value.id, x, k(env)))
            return self.emit_pre(pre, "let %s := py_get_taxon lower st %s %s in\n%s" % (v, val.func.value.id, x, k(env)))
        x, t = self.expr2(val, env, pre)
        if t == "mbool":
            raise Unsupported("assignment of a None-able comparison")
        env[v] = t
        return self.emit_pre(pre, "let %s := %s in\n%s" % (v, x, k(env)))

    def call_stmt(self, c, env, k):
        pre = []
        if self.is_method_call(c):
            callee, term = self.method_call(c, env, pre)
            if callee.returns_param is not None:
                # the callee extends its first parameter in place and hands it back: the row is stored
                if callee.returns_param != callee.params[0][0]:
                    raise Unsupported("%s returns another parameter" % callee.name)
                row = self.row_expr(self.bind_args(c, callee.params)[0], env)
                if not row:
                    raise Unsupported("result of %s dropped" % callee.name)
                store = "let st := py_cb_set_row st %s %s v_ in\n" % row
                pat = "(v_, st)"
            elif callee.ret_type is not None:
                raise Unsupported("result of %s dropped" % callee.name)
            else:
                store, pat = "", "st"
            if callee.bte:
                return self.emit_pre(pre, "dn r_ <- %s ;;\nmatch r_ with\n| GBte st => %s\n| GVal %s =>\n%s%s\nend" % (
                    term, self.bte_arm(), pat, store, k(env)))
            if store:
                return self.emit_pre(pre, "dn r_ <- %s ;;\nlet '%s := r_ in\n%s%s" % (term, pat, store, k(env)))
            return self.emit_pre(pre, "dn st <- %s ;;\n%s" % (term, k(env)))
        if isinstance(c, ast.Call) and is_self_attr(c.func) and c.func.attr == "_process_continuous_matrix_data" \
                and len(c.args) == 1 and not c.keywords:
            x = self.arg_value(c.args[0], "cbref", env, pre)
            return self.emit_pre(pre, "dn st <- py_process_continuous_matrix_data fxc fxa upper lower sym_ok is_float F %s st ;;\n%s" % (x, k(env)))
        raise Unsupported("call statement %s" % ast.dump(c)[:80])

    def rebinding_call(self, s, env):
        """self._build_state_alphabet(cb, symbols): mutates cb.default_state_alphabet -> (cb, term)"""
        if (isinstance(s, ast.Expr) and isinstance(s.value, ast.Call) and is_self_attr(s.value.func)
                and s.value.func.attr == "_build_state_alphabet" and len(s.value.args) == 2 and not s.value.keywords
                and isinstance(s.value.args[0], ast.Name) and env.get(s.value.args[0].id) == "cbref"):
            pre = []
            x = self.arg_value(s.value.args[1], "str", env, pre)
            if pre:
                raise Unsupported("_build_state_alphabet argument")
            cb = s.value.args[0].id
            return cb, "py_build_state_alphabet fxa upper lower st %s %s" % (cb, x)
        return None

    def stmt(self, s, env, k, lc):
        if isinstance(s, ast.If):
            return self.if_(s, env, k, lc)
        if isinstance(s, ast.While) and not s.orelse:
            return self.loop2(s, env, k, False, None)
        if isinstance(s, ast.For) and not s.orelse:
            return self.forloop2(s, env, k)
        if isinstance(s, ast.Try):
            return self.try2(s, env, k, lc)
        if isinstance(s, ast.Return):
            if not (isinstance(s.value, ast.Name) and s is self.node.body[-1]):
                raise Unsupported("return (line %d)" % s.lineno)
            x, t = self.expr(s.value, env)
            self.ret_type = t
            return "ROk (%s, st)" % x
        rb = self.rebinding_call(s, env)
        if rb:
            return "dn %s <- %s ;;\n%s" % (rb[0], rb[1], k(env))
        return super().stmt(s, env, k, lc)

    def raise_(self, e, env):
        if isinstance(e, ast.Call) and is_self_attr(e.func) and e.func.attr in ERROR_CALLS2:
            return "RErr ParseErr"
        raise Unsupported("raise %s" % ast.dump(e)[:80])

    @staticmethod
    def ends_in_raise(stmts):
        return bool(stmts) and isinstance(stmts[-1], ast.Raise)

    def if_(self, s, env, k, lc):
        t0 = s.test
        # `if x is None: raise ..` : afterwards x is not None
        if (isinstance(t0, ast.Compare) and len(t0.ops) == 1 and isinstance(t0.ops[0], ast.Is) and isinstance(t0.left, ast.Name)
                and isinstance(t0.comparators[0], ast.Constant) and t0.comparators[0].value is None
                and env.get(t0.left.id) == "otaxon" and not s.orelse and self.ends_in_raise(s.body)):
            v = t0.left.id
            env2 = dict(env)
            env2[v] = "taxon"
            return "match %s with\n| None =>\n%s\n| Some %s =>\n%s\nend" % (v, self.seq(s.body, dict(env), k, lc), v, k(env2))
        # `if c: self._build_state_alphabet(cb, ..)`: only rebinds cb
        if len(s.body) == 1 and not s.orelse:
            rb = self.rebinding_call(s.body[0], env)
            if rb:
                c, t = self.expr(t0, env)
                if t != "bool":
                    raise Unsupported("if on %s" % t)
                return "dn %s <- (if %s then %s else ROk %s) ;;\n%s" % (rb[0], c, rb[1], rb[0], k(env))
        pre = []
        c, t = self.expr2(t0, env, pre)
        old = (set(self.digits), set(self.decimals))
        if (isinstance(t0, ast.Call) and isinstance(t0.func, ast.Attribute) and t0.func.attr in ("isdigit", "isdecimal")
                and isinstance(t0.func.value, ast.Name)):
            (self.digits if t0.func.attr == "isdigit" else self.decimals).add(t0.func.value.id)
        yes = self.seq(s.body, dict(env), k, lc)
        self.digits, self.decimals = old
        no = self.seq(s.orelse, dict(env), k, lc)
        if t == "bool":
            return self.emit_pre(pre, "(if %s then\n%s\nelse\n%s)" % (c, yes, no))
        if t == "mbool":
            return self.emit_pre(pre, "dn c_ <- %s ;;\n(if c_ then\n%s\nelse\n%s)" % (c, yes, no))
        raise Unsupported("if on %s" % t)

    # ---- loops --------------------------------------------------------------------------------
    def pack(self, carried):
        tup = ", ".join(carried + ["st"])
        tup = "(%s)" % tup if carried else "st"
        return "ROk (GVal %s)" % tup if self.gres_loop else "ROk %s" % tup

    def res_type(self, carried, env):
        ts = [COQ_T[env[v]] for v in carried] + ["nstate"]
        t = " * ".join(ts)
        t = "(%s)" % t if len(ts) > 1 else t
        return "nr (gres %s)" % t if self.gres_loop else "nr %s" % t

    def loop_vars(self, body_stmts, extra, env):
        asg = self.assigned(body_stmts)
        carried = [v for v in asg if v in env and env[v] not in ("exc", "undef")]
        used = self.loaded(body_stmts + extra)
        ro = [v for v in used if v in env and v not in carried and env[v] not in ("exc", "undef")]
        return carried, ro

    def loop2(self, s, env, k, in_try, handler):
        n = self.loops[id(s)]
        name = "%s_loop%d" % (self.cname, n)
        carried, ro = self.loop_vars(s.body, [ast.Expr(value=s.test)], env)
        for v in self.assigned(s.body):
            if v in env and env[v] == "cbref":
                raise Unsupported("CharacterMatrix rebound in a loop")
        envl = dict(env)
        cond, t = self.expr(s.test, envl)
        if t != "bool":
            raise Unsupported("while on %s" % t)
        args = " ".join(ro + carried + ["st"])
        save = (self.gres_loop, self.btx)
        self.gres_loop, self.btx = in_try, ("try" if in_try else None)
        rec = lambda _e: "%s fuel_ %s" % (name, args)
        brk = lambda _e: self.pack(carried)
        body = self.seq(s.body, envl, rec, (brk, rec))
        sig = " ".join("(%s : %s)" % (v, COQ_T[env[v]]) for v in ro + carried)
        self.add_def(name, "Fixpoint %s (fuel : nat) %s (st : nstate) {struct fuel} : %s :=\nmatch fuel with\n| O => RFuel\n| S fuel_ =>\nif %s then\n%s\nelse\n%s\nend." % (
            name, sig, self.res_type(carried, env), cond, body, self.pack(carried)))
        self.gres_loop, self.btx = save
        call = "%s F %s" % (name, args)
        tup = ", ".join(carried + ["st"])
        pat = "(%s)" % tup if carried else "st"
        if in_try:
            # the exception abandons the loop: what the loop assigned is undefined in the handler
            envh = dict(env)
            for v in carried:
                envh[v] = "undef"
            return "dn r_ <- %s ;;\nmatch r_ with\n| GBte st =>\n%s\n| GVal %s =>\n%s\nend" % (call, handler(envh), pat, k(env))
        if carried:
            return "dn r_ <- %s ;;\nlet '%s := r_ in\n%s" % (call, pat, k(env))
        return "dn st <- %s ;;\n%s" % (call, k(env))

    def try2(self, s, env, k, lc):
        if (s.orelse or s.finalbody or len(s.handlers) != 1 or s.handlers[0].name is not None
                or not is_bte_type(s.handlers[0].type) or len(s.body) != 1 or not isinstance(s.body[0], ast.While)
                or s.body[0].orelse or self.btx is not None):
            raise Unsupported("try (line %d)" % s.lineno)
        h = s.handlers[0]
        return self.loop2(s.body[0], env, k, True, lambda envh: self.seq(h.body, envh, k, lc))

    def forloop2(self, s, env, k):
        n = self.loops[id(s)]
        name = "%s_loop%d" % (self.cname, n)
        if not (isinstance(s.target, ast.Name) and isinstance(s.iter, ast.Name) and env.get(s.iter.id) == "cbref"):
            raise Unsupported("for loop (line %d)" % s.lineno)
        carried, ro = self.loop_vars(s.body, [], env)
        carried = [v for v in carried if v != s.target.id]
        ro = [v for v in ro if v != s.target.id]
        if s.iter.id not in ro:
            ro = [s.iter.id] + ro
        envl = dict(env)
        envl[s.target.id] = "taxon"
        args = " ".join(ro + carried + ["st"])
        save = (self.gres_loop, self.btx)
        self.gres_loop, self.btx = False, None
        rec = lambda _e: "%s items_ %s" % (name, args)
        body = self.seq(s.body, envl, rec, None)
        sig = " ".join("(%s : %s)" % (v, COQ_T[env[v]]) for v in ro + carried)
        self.add_def(name, "Fixpoint %s (taxa_ : list nat) %s (st : nstate) {struct taxa_} : %s :=\nmatch taxa_ with\n| [] => %s\n| %s :: items_ =>\n%s\nend." % (
            name, sig, self.res_type(carried, env), self.pack(carried), s.target.id, body))
        self.gres_loop, self.btx = save
        call = "%s (py_cb_taxa st %s) %s" % (name, s.iter.id, args)
        env2 = dict(env)
        env2[s.target.id] = "undef"
        if carried:
            return "dn r_ <- %s ;;\nlet '(%s) := r_ in\n%s" % (call, ", ".join(carried + ["st"]), k(env2))
        return "dn st <- %s ;;\n%s" % (call, k(env2))

    # ---- the method ---------------------------------------------------------------------------
    def emit(self):
        env = dict((p, t) for p, t in self.params)
        main = self.seq(list(self.node.body), env, lambda _e: "ROk st", None)
        lines = ["(* NexusReader.%s  (nexusreader.py, line %d) *)" % (self.name, self.node.lineno),
                 "Section %s." % self.cname]
        for g, t in GLOBALS2:
            lines.append("Variable %s : %s." % (g, t))
        lines.append("")
        for _n, d in self.defs:
            lines.append(d)
            lines.append("")
        sig = " ".join("(%s : %s)" % (p, COQ_T[t]) for p, t in self.params)
        lines.append("Definition %s %s (st : nstate) :=\n%s." % (self.cname, sig, main))
        lines.append("End %s.\n" % self.cname)
        self.text = "\n".join(lines)
        for p, _t in self.params:
            if not used_globals([p], main):
                raise Unsupported("parameter %s unused" % p)
        return self.text


def method_node(cls, name):
    fns = [n for n in cls.body if isinstance(n, ast.FunctionDef) and n.name == name]
    if len(fns) != 1:
        raise Unsupported("method %s" % name)
    return fns[0]


def generate(repo):
    with open(os.path.join(repo, SOURCE)) as f:
        tree = ast.parse(f.read())
    cls = [n for n in tree.body if isinstance(n, ast.ClassDef) and n.name == "NexusReader"]
    if len(cls) != 1:
        raise Unsupported("class NexusReader")
    out = [HEADER]
    registry = {}
    for name in FUNCS:
        fn = Fn(method_node(cls[0], name))
        fn.text = fn.emit()
        fn.ret_type = None
        fn.returns_param = None
        last = fn.node.body[-1]
        if isinstance(last, ast.Return) and isinstance(last.value, ast.Name):
            if last.value.id not in [p for p, _t in fn.params]:
                raise Unsupported("%s returns a local" % name)
            fn.returns_param = last.value.id
        registry[name] = fn
        out.append(fn.text)
    for name in FUNCS2:
        fn = Fn2(method_node(cls[0], name), registry)
        out.append(fn.emit())
        registry[name] = fn
    return "\n".join(out)


if __name__ == "__main__":
    import sys
    print(generate(sys.argv[1] if len(sys.argv) > 1 else "/repo"))
