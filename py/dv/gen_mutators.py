"""Translator: structure-changing methods of dendropy Node / Edge / Tree  ->  coq/Gen/Mutators.v.

generate(repo) parses _node.py, _edge.py and _tree.py with `ast` and compiles the methods listed in
PLAN, statement by statement, into Gallina programs over the explicit object-graph interface
`mutgraph` of coq/Model/MutPrims.v:

  * an effectful method is a function   args -> state -> mres state value ;
    MOk v s = returned v leaving object graph s, MErr e s = raised e leaving s
  * a field read is let-bound at the point of evaluation (rd_parent, rd_kids, rd_edge, rd_head,
    rd_length, ...), a field write / in-place list mutation rebinds the state variable `s`
  * `x = y._child_nodes` makes x an ALIAS of that list object: every later use reads / writes the
    field of y in the current state (stale after a `_child_nodes = ...` rebinding: fail closed)
  * properties (`edge`, `head_node`, `tail_node`, `parent_node`, `edge_length`, `seed_node`) are
    resolved through the `name = property(getter, setter)` lines of the class and compiled from the
    getter / setter source
  * `assert`, `raise`, `try/except ValueError|bare: pass [else]` around one simple statement,
    `for ... [else]` with `break` / `continue`, `enumerate`, tuple assignment, `+=`, early `return`,
    calls of already translated methods (with constant-flag specialisation, so that
    remove_child(..., suppress_unifurcations=False) inside remove_child is not a recursion)
  * attribute access on a possibly-None value raises AttributeError, l[i] IndexError,
    l.index / l.remove ValueError, None + number TypeError: all explicit branches

for-loops iterate over the list value read at loop entry (Python iterates the live list object: the
two agree when the body does not mutate that same list object; the translator cannot see aliasing
through different expressions - documented trusted assumption).

Anything outside the subset raises Unsupported (py2coq then writes a stub: dependents break).
"""
import ast
import os

from dv.gen_traversals import check_always_truthy, find_class

OUTPUT = "Mutators.v"


class Unsupported(Exception):
    pass


NODE, EDGE, TREE, BOOL, INT, LEN, NONE, UNIT, KW = (("node",), ("edge",), ("tree",), ("bool",), ("int",),
                                                    ("len",), ("none",), ("unit",), ("kw",))
TAXON = ("taxon",)          # identity of a Taxon object
NFN = ("nfn",)              # callable node -> truth value (filter_fn)
KEYFN = ("keyfn",)          # sort key: callable node -> rank, may read the object graph
NDICT = ("ndict",)          # dict node -> int
RNG = ("rng",)              # scripted random.Random: the remaining script
TAXFN = ("taxfn",)          # TaxonNamespace.get_taxa(labels=...) of the tree's namespace
NNDICT = ("nndict",)        # dict node -> node
SNFN = ("snfn",)            # callable node -> truth value that reads the object graph when called
LABEL = ("label",)          # a label value (copied, never inspected)
NTDICT = ("ntdict",)        # dict node -> taxon
OTDICT = ("otdict",)        # dict (taxon or None) -> taxon
DICT_TYS = [NDICT, NNDICT, NTDICT, OTDICT]
# dict type -> (key type, equality of keys, value type); keys are hashed / compared by identity
DICTS = {NDICT: (NODE, "(mg_eqb G)", INT), NTDICT: (NODE, "(mg_eqb G)", TAXON),
         OTDICT: (("opt", TAXON), "(option_eqb Z.eqb)", TAXON)}


def TList(t): return ("list", t)
def TOpt(t): return ("opt", t)
def TTup(a, b): return ("tup", a, b)


def coq_ty(t):
    k = t[0]
    if k == "node": return "(mnode G)"
    if k == "edge": return "(medge G)"
    if k == "bool": return "bool"
    if k == "int": return "Z"
    if k == "len": return "(option Z)"
    if k == "unit": return "unit"
    if k == "kw": return "(option Z * option Z * option Z)"
    if k == "taxon": return "Z"
    if k == "nfn": return "((mnode G) -> bool)"
    if k == "taxfn": return "((list Z) -> (list Z))"
    if k == "rng": return "(list (list nat))"
    if k == "keyfn": return "((mst G) -> (mnode G) -> Z)"
    if k == "ndict": return "(list ((mnode G) * Z))"
    if k == "nndict": return "(list ((mnode G) * (mnode G)))"
    if k == "ntdict": return "(list ((mnode G) * Z))"
    if k == "otdict": return "(list ((option Z) * Z))"
    if k == "snfn": return "((mst G) -> (mnode G) -> bool)"
    if k == "label": return "(option Z)"
    if k == "labelfn": return "(Z -> Z)"
    if k == "list": return "(list %s)" % coq_ty(t[1])
    if k == "opt": return "(option %s)" % coq_ty(t[1])
    if k == "tup": return "(%s * %s)" % (coq_ty(t[1]), coq_ty(t[2]))
    raise Unsupported("no Coq type for %r" % (t,))


ERRS = {"TypeError": "TypeErr", "ValueError": "ValueErr", "IndexError": "IndexErr",
        "AttributeError": "AttrErr", "KeyError": "KeyErr", "AssertionError": "AssertErr"}

# raw fields:  class -> attr -> (reader, writer, type)
FIELDS = {
    "node": {"_parent_node": ("rd_parent", "wr_parent", TOpt(NODE)),
             "_child_nodes": ("rd_kids", "wr_kids", TList(NODE)),
             "_edge": ("rd_edge", None, EDGE),
             "taxon": ("rd_taxon", "wr_taxon", TOpt(TAXON))},
    "edge": {"_head_node": ("rd_head", None, NODE),
             "length": ("rd_length", "wr_length", LEN)},
    "tree": {"_seed_node": ("rd_seed", "wr_seed", NODE),
             "_is_rooted": ("rd_rooted", "wr_rooted", TOpt(BOOL))},
}
CLS_OF = {"node": "Node", "edge": "Edge", "tree": "Tree"}
TY_OF = {"Node": NODE, "Edge": EDGE, "Tree": TREE}


def dump(e):
    return ast.dump(e)


class Env:
    def __init__(self, vars=None, narrowed=None, stale=False, dirty=False):
        self.vars = dict(vars or {})          # name -> ("val", text, ty) | ("alias", node text)
        self.narrowed = dict(narrowed or {})  # dump(expr) -> (text, ty)   (state-dependent reads)
        self.stale = stale                    # a _child_nodes field was rebound: aliases unusable
        self.dirty = dirty                    # the object graph was written since the flag was reset

    def copy(self):
        return Env(self.vars, self.narrowed, self.stale, self.dirty)

    def bind(self, name, text, ty):
        e = self.copy()
        e.vars[name] = ("val", text, ty)
        e.narrowed = {k: v for k, v in e.narrowed.items() if name not in v[2]}
        return e

    def alias(self, name, nodetext):
        e = self.copy()
        e.vars[name] = ("alias", nodetext)
        return e

    def changed(self, rebinds_kids=False):
        """the object graph was written: forget what was learnt about state-dependent expressions"""
        e = self.copy()
        e.narrowed = {}
        e.dirty = True
        if rebinds_kids:
            e.stale = True
        return e

    def narrow(self, expr, text, ty):
        e = self.copy()
        if isinstance(expr, ast.Name):
            e.vars[expr.id] = ("val", text, ty)
        else:
            e.narrowed[dump(expr)] = (text, ty, {n.id for n in ast.walk(expr) if isinstance(n, ast.Name)})
        return e


PROP_ERR = "(MErr %s s)"


class Fn:
    RESERVED = {"s", "G", "fuel", "match", "with", "end", "let", "in", "fun", "if", "then", "else",
                "Some", "None", "true", "false", "fix", "forall", "as", "return", "Type", "Prop", "Set", "at",
                "using", "where", "struct", "cofix", "exists", "tt", "S", "O", "Ok", "Err"}

    def __init__(self, gen, cls, fndef, kind, ret, ptypes, spec, ltypes=None, use_extern=()):
        self.gen = gen
        self.cls = cls
        self.fn = fndef
        self.kind = kind              # 'pure' | 'eff'
        self.ret = ret
        self.ptypes = ptypes          # parameter name -> type
        self.spec = spec or {}        # parameter name -> constant bool (specialisation)
        self.ltypes = ltypes or {}    # declared types of local variables
        self.use_extern = set(use_extern)   # callees used as operations of the interface
        self.needs_fuel = False
        self.recursive = False
        self.implicit = []            # implicit parameters: taxon_namespace, ns_get_taxa
        self.name = gen.coq_name(cls, fndef.name, self.spec)
        self.counter = 0
        self.handlers = []            # try/except: (caught set | None for bare, continuation)
        self.loop = []                # for-loops: (loop var names,)
        self.dirty_stack = []         # per loop: was the graph written on the paths that go on iterating
        self.loop_types = []          # per loop: types of the loop-carried locals at loop entry
        self.rebinds_kids = False

    def fresh(self, base):
        self.counter += 1
        return "dv_%s%d" % (base, self.counter)

    def body(self):
        b = list(self.fn.body)
        if b and isinstance(b[0], ast.Expr) and isinstance(b[0].value, ast.Constant) and isinstance(b[0].value.value, str):
            b = b[1:]
        return b

    # ------------------------------------------------------------------ signature
    def signature(self):
        a = self.fn.args
        if a.vararg or a.kwonlyargs or a.posonlyargs:
            raise Unsupported("%s: argument form" % self.name)
        names = [x.arg for x in a.args]
        if not names or names[0] != "self":
            raise Unsupported("%s: first parameter is not self" % self.name)
        defaults = [None] * (len(names) - len(a.defaults)) + list(a.defaults)
        params = []
        for n, d in zip(names[1:], defaults[1:]):
            if n not in self.ptypes:
                raise Unsupported("%s: parameter %s has no declared type" % (self.name, n))
            if d is not None and isinstance(d, ast.Lambda) and self.ptypes[n] == KEYFN:
                self.gen.default_key(self.cls, self.fn.name, n, d)      # compiled separately
                d = ast.Name(id="<non-translatable default>", ctx=ast.Load())
            if d is not None and not isinstance(d, (ast.Constant, ast.Name)):
                raise Unsupported("%s: default of %s" % (self.name, n))
            if isinstance(d, ast.Constant) and not (d.value is None or isinstance(d.value, bool)):
                d = ast.Name(id="<non-translatable default>", ctx=ast.Load())   # a call that omits it fails closed
            params.append((n, self.ptypes[n], d))
        if a.kwarg:
            if self.ptypes.get(a.kwarg.arg) != KW:
                raise Unsupported("%s: **%s" % (self.name, a.kwarg.arg))
            params.append((a.kwarg.arg, KW, None))
        self.kwarg = a.kwarg.arg if a.kwarg else None
        return params

    def self_ty(self):
        return TY_OF[self.cls]

    def coq_params(self):
        out = []
        if self.self_ty() != TREE:
            out.append(("self", self.self_ty()))
        for n, ty, _d in self.params:
            if n not in self.spec:
                out.append((n, ty))
        return out

    # ------------------------------------------------------------------ helpers
    def rz(self, err, env):
        if self.handlers:
            caught, kh = self.handlers[-1]
            if caught is None or err in caught:
                saved = self.handlers
                self.handlers = self.handlers[:-1]
                try:
                    return kh(env)
                finally:
                    self.handlers = saved
        return "(MErr %s s)" % err

    def truthy(self, text, ty):
        k = ty[0]
        if k == "bool": return text
        if k == "list": return "(negb (py_is_empty %s))" % text
        if k == "opt": return "(py_is_some %s)" % text
        if k in ("node", "edge", "taxon"): return "true"
        if k == "none": return "false"
        if k == "int": return "(negb (Z.eqb %s 0))" % text
        raise Unsupported("%s: truth value of %r" % (self.name, ty))

    def coerce(self, text, ty, target):
        if ty == target:
            return text
        if target[0] == "opt":
            if ty == NONE:
                return "None"
            if ty == target[1]:
                return "(Some %s)" % text
        if target == LEN and ty == NONE:
            return "None"
        if target == LEN and ty == INT:
            return "(Some %s)" % text
        if target[0] == "list" and ty[0] == "list" and (ty[1] == ("any",) or ty[1] == target[1]):
            return text
        raise Unsupported("%s: cannot use %r where %r is expected" % (self.name, ty, target))

    def let(self, base, rhs, k):
        v = self.fresh(base)
        return "(let %s := %s in\n  %s)" % (v, rhs, k(v))

    # ------------------------------------------------------------------ expressions (CPS)
    def cexpr(self, e, env, k):
        """k(text, type, env) -> Coq text.  Sub-expressions are evaluated left to right, every
        state-dependent read is let-bound where it is evaluated."""
        d = dump(e)
        if d in env.narrowed:
            t, ty, _ = env.narrowed[d]
            return k(t, ty, env)
        if isinstance(e, ast.Name):
            if e.id in self.spec:
                return k("true" if self.spec[e.id] else "false", BOOL, env)
            if e.id not in env.vars:
                raise Unsupported("%s: unknown name %s" % (self.name, e.id))
            v = env.vars[e.id]
            if v[0] == "alias":
                if env.stale:
                    raise Unsupported("%s: list alias %s used after a _child_nodes rebinding" % (self.name, e.id))
                return self.let("kids", "(rd_kids G s %s)" % v[1], lambda t: k(t, TList(NODE), env))
            return k(v[1], v[2], env)
        if isinstance(e, ast.Constant):
            if e.value is None: return k("None", NONE, env)
            if e.value is True: return k("true", BOOL, env)
            if e.value is False: return k("false", BOOL, env)
            if isinstance(e.value, int): return k("(%d)" % e.value, INT, env)
            if isinstance(e.value, float) and e.value == 0.0: return k("(0)", INT, env)     # 0.0: zero in any unit
            raise Unsupported("%s: constant %r" % (self.name, e.value))
        if isinstance(e, ast.UnaryOp) and isinstance(e.op, ast.USub) and isinstance(e.operand, ast.Constant) \
                and isinstance(e.operand.value, int):
            return k("(%d)" % -e.operand.value, INT, env)
        if isinstance(e, ast.BinOp) and isinstance(e.op, (ast.Add, ast.Sub)):
            def kb(a, ta, e1):
                def kc(b, tb, e2):
                    if ta != INT or tb != INT:
                        raise Unsupported("%s: arithmetic on %r and %r" % (self.name, ta, tb))
                    return k("(%s %s %s)" % ("Z.add" if isinstance(e.op, ast.Add) else "Z.sub", a, b), INT, e2)
                return self.cexpr(e.right, e1, kc)
            return self.cexpr(e.left, env, kb)
        if isinstance(e, ast.List):
            if len(e.elts) == 1:
                return self.cexpr(e.elts[0], env, lambda a, ta, e1: k("[%s]" % a, TList(ta), e1))
            if e.elts:
                raise Unsupported("%s: list display with %d elements" % (self.name, len(e.elts)))
            return k("[]", TList(("any",)), env)
        if isinstance(e, ast.Dict):
            if e.keys:
                raise Unsupported("%s: non-empty dict display" % self.name)
            return k("(@nil ((mnode G) * Z))", NDICT, env)
        if isinstance(e, ast.Tuple):
            if not e.elts:
                return k("[]", TList(("any",)), env)      # (): only iterated / extended / returned below
            if len(e.elts) != 2:
                raise Unsupported("%s: tuple arity" % self.name)
            return self.cexpr(e.elts[0], env, lambda a, ta, e1: self.cexpr(
                e.elts[1], e1, lambda b, tb, e2: k("(%s, %s)" % (a, b), TTup(ta, tb), e2)))
        if isinstance(e, ast.Attribute):
            return self.cexpr(e.value, env, lambda vt, vty, e1: self.deref(vt, vty, e1, lambda vt2, vty2, e2:
                              self.attribute(vt2, vty2, e.attr, e2, k), expr=e.value))
        if isinstance(e, ast.Subscript) and self.is_rng_sample1(e, env):
            # rng.sample(L, 1)[0]: the next script entry [i] picks L[i]
            c = e.value
            rn = c.func.value.id
            return self.cexpr(c.args[0], env, lambda lt, lty, e1: (
                "(match %s with\n  | [dv_i] :: %s => (match nth_error %s dv_i with\n  | Some dv_pick => %s\n  | None => MFuel\n  end)\n  | _ => MFuel\n  end)"
                % (e1.vars[rn][1], rn, lt, k("dv_pick", lty[1], e1.bind(rn, rn, RNG)))))
        if isinstance(e, ast.Subscript) and isinstance(e.value, ast.Name) and e.value.id in env.vars \
                and env.vars[e.value.id][2:] == (NDICT,):
            dt = env.vars[e.value.id][1]
            v = self.fresh("val")
            return self.cexpr(e.slice, env, lambda kt, kty, e1: (
                "(match py_dict_get (mg_eqb G) %s %s with\n  | Some %s => %s\n  | None => %s\n  end)"
                % (self.coerce(kt, kty, NODE), dt, v, k(v, INT, e1), self.rz("KeyErr", e1))))
        if isinstance(e, ast.Subscript):
            return self.cexpr(e.value, env, lambda lt, lty, e1: self.cexpr(e.slice, e1, lambda it, ity, e2:
                              self.subscript(lt, lty, it, ity, e2, k)))
        if isinstance(e, ast.Call):
            return self.call(e, env, k)
        if isinstance(e, ast.ListComp):
            return self.comprehension(e, env, k)
        if isinstance(e, (ast.Compare, ast.BoolOp)) or (isinstance(e, ast.UnaryOp) and isinstance(e.op, ast.Not)):
            raise Unsupported("%s: boolean expression used as a value" % self.name)
        raise Unsupported("%s: expression %s" % (self.name, type(e).__name__))

    def is_rng_sample1(self, e, env):
        c = e.value
        return (isinstance(c, ast.Call) and isinstance(c.func, ast.Attribute) and c.func.attr == "sample"
                and isinstance(c.func.value, ast.Name) and c.func.value.id in env.vars
                and env.vars[c.func.value.id][2:] == (RNG,) and len(c.args) == 2 and not c.keywords
                and isinstance(c.args[1], ast.Constant) and c.args[1].value == 1
                and isinstance(e.slice, ast.Constant) and e.slice.value == 0)

    def deref(self, vt, vty, env, k, expr=None):
        """receiver of an attribute / method: None raises AttributeError"""
        if vty[0] == "opt" and vty[1] in (NODE, EDGE):
            if isinstance(expr, ast.Name) and expr.id in env.vars and env.vars[expr.id][0] == "val":
                v = expr.id
                env2 = env.narrow(expr, v, vty[1])
            else:
                v = self.fresh("obj")
                env2 = env if expr is None else env.narrow(expr, v, vty[1])
            return ("(match %s with\n  | Some %s => %s\n  | None => %s\n  end)"
                    % (vt, v, k(v, vty[1], env2), self.rz("AttrErr", env)))
        if vty == NONE:
            return self.rz("AttrErr", env)
        return k(vt, vty, env)

    def attribute(self, vt, vty, attr, env, k):
        if vty[0] not in FIELDS:
            raise Unsupported("%s: attribute %s of %r" % (self.name, attr, vty))
        cls = CLS_OF[vty[0]]
        f = FIELDS[vty[0]].get(attr)
        if f:
            rd, _wr, ty = f
            arg = "" if vty == TREE else " " + vt
            return self.let(attr.strip("_").split("_")[0] or "f", "(%s G s%s)" % (rd, arg), lambda t: k(t, ty, env))
        if vty == TREE and attr == "taxon_namespace":
            # iterating / testing the namespace: the list of its taxa, an implicit parameter
            self.need_implicit("taxon_namespace")
            return k("taxon_namespace", TList(TAXON), env)
        prop = self.gen.props.get((cls, attr))
        if prop:
            sig = self.gen.registry.get((cls, prop[0], ()))
            if not sig or sig["kind"] != "pure":
                raise Unsupported("%s: property %s.%s has no translated getter" % (self.name, cls, attr))
            arg = "" if vty == TREE else " " + vt
            return self.let(attr.split("_")[0], "(%s s%s)" % (sig["coq"], arg), lambda t: k(t, sig["ret"], env))
        raise Unsupported("%s: attribute %s.%s" % (self.name, cls, attr))

    IMPLICIT = [("taxon_namespace", ("list", ("taxon",))), ("ns_get_taxa", ("taxfn",))]

    def need_implicit(self, name):
        if name not in self.implicit:
            self.implicit.append(name)
            self.implicit.sort(key=[n for n, _t in self.IMPLICIT].index)

    def subscript(self, lt, lty, it, ity, env, k):
        if lty[0] != "list" or ity != INT:
            raise Unsupported("%s: subscript of %r by %r" % (self.name, lty, ity))
        v = self.fresh("item")
        return ("(match py_index %s %s with\n  | Some %s => %s\n  | None => %s\n  end)"
                % (lt, it, v, k(v, lty[1], env), self.rz("IndexErr", env)))

    def call(self, e, env, k):
        f = e.func
        if isinstance(f, ast.Name):
            if f.id in env.vars and env.vars[f.id][0] == "val" and env.vars[f.id][2][0] == "treemeth":
                # x = self.meth ... x(): the bound method is called now
                return self.call(ast.Call(func=ast.Attribute(value=ast.Name(id="self", ctx=ast.Load()),
                                                             attr=env.vars[f.id][2][1], ctx=ast.Load()),
                                          args=e.args, keywords=e.keywords), env, k)
            if f.id in env.vars and env.vars[f.id][0] == "val" and env.vars[f.id][2] == NFN:
                if len(e.args) != 1 or e.keywords:
                    raise Unsupported("%s: call form of %s" % (self.name, f.id))
                return self.cexpr(e.args[0], env, lambda at, aty, e1: k(
                    "(%s %s)" % (env.vars[f.id][1], self.coerce(at, aty, NODE)), BOOL, e1))
            if f.id == "set" and len(e.args) == 1 and not e.keywords:
                # set(taxa): only membership is asked of it below (Taxon.__eq__/__hash__ are identity)
                def ks(at, aty, e1):
                    if aty != TList(TAXON):
                        raise Unsupported("%s: set of %r" % (self.name, aty))
                    return k(at, aty, e1)
                return self.cexpr(e.args[0], env, ks)
            if f.id in ("len", "list", "enumerate", "bool", "tuple") and len(e.args) == 1 and not e.keywords:
                if f.id == "bool":
                    return self.cond(e.args[0], env, lambda e1: k("true", BOOL, e1), lambda e1: k("false", BOOL, e1), as_value=True)

                def kk(at, aty, e1):
                    if f.id == "len" and aty in DICTS:
                        return k("(py_len %s)" % at, INT, e1)      # one entry per key
                    if aty[0] != "list":
                        raise Unsupported("%s: %s of %r" % (self.name, f.id, aty))
                    if f.id == "len":
                        return k("(py_len %s)" % at, INT, e1)
                    if f.id in ("list", "tuple"):
                        return k(at, aty, e1)
                    return k("(py_enumerate %s)" % at, TList(TTup(INT, aty[1])), e1)
                return self.cexpr(e.args[0], env, kk)
            raise Unsupported("%s: call of %s" % (self.name, f.id))
        if not isinstance(f, ast.Attribute):
            raise Unsupported("%s: call form" % self.name)
        # _node.Node(): the constructor without arguments
        if (isinstance(f.value, ast.Name) and f.value.id == "_node" and f.attr == "Node" and "_node" not in env.vars
                and not e.args and not e.keywords):
            v = self.fresh("new")
            return ("(let '(%s, s) := new_node G None None None s in\n  %s)" % (v, k(v, NODE, env.changed())))
        # rng.randrange(n) on the scripted rng: the next script entry [i] is the value returned (0 <= i < n);
        # ValueError for an empty range
        if (isinstance(f.value, ast.Name) and f.value.id in env.vars and env.vars[f.value.id][0] == "val"
                and env.vars[f.value.id][2] == RNG and f.attr == "randrange" and not e.keywords and len(e.args) == 1):
            rn = f.value.id

            def kn(nt, nty, e1):
                if nty != INT:
                    raise Unsupported("%s: randrange of %r" % (self.name, nty))
                v = self.fresh("draw")
                return ("(if (Z.leb %s 0)\n  then %s\n  else (match %s with\n  | [%s] :: %s => (if (Z.ltb (Z.of_nat %s) %s)\n  then %s\n  else MFuel)\n  | _ => MFuel\n  end))"
                        % (nt, self.rz("ValueErr", e1), e1.vars[rn][1], v, rn, v, nt,
                           k("(Z.of_nat %s)" % v, INT, e1.bind(rn, rn, RNG))))
            return self.cexpr(e.args[0], env, kn)
        # rng.sample(L, k) / rng.choice(L) on the scripted rng: the next script entry is the list of positions
        # drawn (sample: the entry IS what the call returned, its length is not compared with k) / [i]
        if (isinstance(f.value, ast.Name) and f.value.id in env.vars and env.vars[f.value.id][0] == "val"
                and env.vars[f.value.id][2] == RNG and f.attr in ("sample", "choice") and not e.keywords
                and len(e.args) == (2 if f.attr == "sample" else 1)):
            rn = f.value.id
            if rn in [p[0] for p in self.params] and self.loop and False:
                raise Unsupported("%s: rng parameter consumed inside a loop" % self.name)

            def kl(lt, lty, e1):
                if lty[0] != "list":
                    raise Unsupported("%s: %s from %r" % (self.name, f.attr, lty))
                if f.attr == "choice":
                    v = self.fresh("pick")
                    return ("(match %s with\n  | [dv_i] :: %s => (match nth_error %s dv_i with\n  | Some %s => %s\n  | None => MFuel\n  end)\n  | _ => MFuel\n  end)"
                            % (e1.vars[rn][1], rn, lt, v, k(v, lty[1], e1.bind(rn, rn, RNG))))
                v = self.fresh("sample")

                def kk(kt, kty, e2):
                    if kty != INT:
                        raise Unsupported("%s: sample size %r" % (self.name, kty))
                    return ("(match %s with\n  | dv_ix :: %s => (match py_nths %s dv_ix with\n  | Some %s => %s\n  | None => MFuel\n  end)\n  | [] => MFuel\n  end)"
                            % (e2.vars[rn][1], rn, lt, v, k(v, lty, e2.bind(rn, rn, RNG))))
                return self.cexpr(e.args[1], e1, kk)
            return self.cexpr(e.args[0], env, kl)
        # self.__class__(**kwargs): the Node constructor
        if (isinstance(f.value, ast.Name) and f.value.id == "self" and f.attr == "__class__" and self.cls == "Node"
                and not e.args and len(e.keywords) == 1 and e.keywords[0].arg is None
                and isinstance(e.keywords[0].value, ast.Name) and e.keywords[0].value.id == self.kwarg):
            v = self.fresh("new")
            kw = env.vars[self.kwarg][1]
            return ("(let '(%s, s) := (let '(kw_taxon, kw_label, kw_len) := %s in new_node G kw_taxon kw_label kw_len s) in\n  %s)"
                    % (v, kw, k(v, NODE, env.changed())))
        if (f.attr == "get_taxa" and isinstance(f.value, ast.Attribute) and f.value.attr == "taxon_namespace"
                and isinstance(f.value.value, ast.Name) and f.value.value.id == "self" and self.cls == "Tree"
                and not e.args and len(e.keywords) == 1 and e.keywords[0].arg == "labels"):
            self.need_implicit("ns_get_taxa")
            return self.cexpr(e.keywords[0].value, env, lambda at, aty, e1: k(
                "(ns_get_taxa %s)" % self.coerce(at, aty, TList(INT)), TList(TAXON), e1))
        return self.cexpr(f.value, env, lambda rt, rty, e1: self.deref(rt, rty, e1, lambda rt2, rty2, e2:
                          self.method(rt2, rty2, f.attr, e, e2, k), expr=f.value))

    def pure_cond(self, e, env):
        """condition of a comprehension: no reads of the object graph, no raises"""
        if isinstance(e, ast.UnaryOp) and isinstance(e.op, ast.Not):
            return "(negb %s)" % self.pure_cond(e.operand, env)
        if isinstance(e, ast.Call) and isinstance(e.func, ast.Name) and e.func.id in env.vars \
                and env.vars[e.func.id][2] == NFN and len(e.args) == 1 and isinstance(e.args[0], ast.Name) \
                and env.vars.get(e.args[0].id, (None, None, None))[2] == NODE and not e.keywords:
            return "(%s %s)" % (env.vars[e.func.id][1], env.vars[e.args[0].id][1])
        if isinstance(e, ast.Compare) and len(e.ops) == 1 and isinstance(e.ops[0], (ast.In, ast.NotIn)) \
                and isinstance(e.left, ast.Name) and isinstance(e.comparators[0], ast.Name):
            a, b = env.vars.get(e.left.id), env.vars.get(e.comparators[0].id)
            if a and b and a[0] == b[0] == "val" and a[2] == TAXON and b[2] == TList(TAXON):
                r = "(py_in Z.eqb %s %s)" % (a[1], b[1])
                return "(negb %s)" % r if isinstance(e.ops[0], ast.NotIn) else r
        raise Unsupported("%s: comprehension condition %s" % (self.name, ast.unparse(e)))

    def comprehension(self, e, env, k):
        """[x for x in L if c]  with c pure"""
        if len(e.generators) != 1:
            raise Unsupported("%s: nested comprehension" % self.name)
        g = e.generators[0]
        if g.is_async or not isinstance(g.target, ast.Name) or len(g.ifs) > 1 \
                or not (isinstance(e.elt, ast.Name) and e.elt.id == g.target.id):
            raise Unsupported("%s: comprehension form" % self.name)
        x = g.target.id

        def kl(lt, lty, e1):
            if lty[0] != "list":
                raise Unsupported("%s: comprehension over %r" % (self.name, lty))
            if not g.ifs:
                return k(lt, lty, e1)
            c = self.pure_cond(g.ifs[0], e1.bind(x, x, lty[1]))
            return self.let("sel", "(filter (fun %s => %s) %s)" % (x, c, lt), lambda t: k(t, lty, e1))
        return self.cexpr(g.iter, env, kl)

    def method(self, rt, rty, meth, e, env, k):
        if rty[0] == "list":
            if meth == "index" and len(e.args) == 1 and not e.keywords:
                def kk(at, aty, e1):
                    if aty != rty[1] or aty != NODE:
                        raise Unsupported("%s: index of %r in %r" % (self.name, aty, rty))
                    v = self.fresh("ix")
                    return ("(match py_list_index (mg_eqb G) %s %s with\n  | Some %s => %s\n  | None => %s\n  end)"
                            % (at, rt, v, k("(Z.of_nat %s)" % v, INT, e1), self.rz("ValueErr", e1)))
                return self.cexpr(e.args[0], env, kk)
            raise Unsupported("%s: list method %s in an expression" % (self.name, meth))
        if rty[0] not in CLS_OF:
            raise Unsupported("%s: method %s of %r" % (self.name, meth, rty))
        cls = CLS_OF[rty[0]]
        if cls == "Tree" and meth == "postorder_node_iter" and not e.args and not e.keywords:
            # the node list of the traversal, fixed here (see MutPrims.x_postorder_nodes)
            self.gen.check_postorder_wrapper()
            v = self.fresh("nodes")
            return ("(match x_postorder_nodes G s with\n  | Some %s => %s\n  | None => MFuel\n  end)"
                    % (v, k(v, TList(NODE), env)))
        if cls == "Node" and meth == "leaf_iter" and not e.args and not e.keywords:
            v = self.fresh("leaves")
            return ("(match x_leaf_nodes_of G s %s with\n  | Some %s => %s\n  | None => MFuel\n  end)"
                    % (rt, v, k(v, TList(NODE), env)))
        if cls == "Tree" and meth in ("preorder_node_iter", "nodes", "internal_nodes", "postorder_edge_iter") \
                and not e.args and not e.keywords:
            # node sequences of the traversals (property C15 relates the iterators of Tree to these orders:
            # Tree.nodes() = pre-order, internal_nodes() = its non-leaves, postorder_edge_iter = edges of the
            # post-order); read when the call is made
            v = self.fresh("nodes")
            if meth == "postorder_edge_iter":
                return ("(match x_postorder_nodes G s with\n  | Some %s => %s\n  | None => MFuel\n  end)"
                        % (v, self.let("edges", "(map (rd_edge G s) %s)" % v, lambda t: k(t, TList(EDGE), env))))
            if meth == "internal_nodes":
                sig = self.gen.registry[("Node", "is_internal", ())]
                return ("(match x_preorder_nodes G s with\n  | Some %s => %s\n  | None => MFuel\n  end)"
                        % (v, self.let("internal", "(filter (fun dv_n => %s s dv_n) %s)" % (sig["coq"], v),
                                       lambda t: k(t, TList(NODE), env))))
            return ("(match x_preorder_nodes G s with\n  | Some %s => %s\n  | None => MFuel\n  end)"
                    % (v, k(v, TList(NODE), env)))
        if cls == "Tree" and meth == "leaf_node_iter" and not e.args and not e.keywords:
            self.gen.check_wrapper("leaf_node_iter", "return self.seed_node.leaf_iter(filter_fn=filter_fn)")
            v = self.fresh("leaves")
            return ("(match x_leaf_nodes G s with\n  | Some %s => %s\n  | None => MFuel\n  end)"
                    % (v, k(v, TList(NODE), env)))
        cands = {key: v for key, v in self.gen.registry.items() if key[0] == cls and key[1] == meth}
        if not cands and cls == self.cls and meth == self.fn.name and not self.spec:
            # direct recursion: a Fixpoint on the fuel
            self.recursive = True
            self.needs_fuel = True
            cands = {(cls, meth, ()): {"coq": self.name, "params": self.params, "kind": "eff", "ret": self.ret,
                                       "spec": (), "rebinds_kids": True, "needs_fuel": True, "implicit": []}}
            self.gen.registry_tmp = cands
        if not cands:
            raise Unsupported("%s: call of untranslated %s.%s" % (self.name, cls, meth))
        base = cands.get((cls, meth, ())) or list(cands.values())[0]
        if meth in self.use_extern:
            base = self.gen.extern_only.get((cls, meth))
            if base is None:
                raise Unsupported("%s: %s.%s is not an operation of the interface" % (self.name, cls, meth))
        params = base["params"]
        if any(isinstance(a, ast.Starred) for a in e.args) or any(kw.arg is None for kw in e.keywords):
            raise Unsupported("%s: starred call of %s" % (self.name, meth))
        given = {}
        for p, a in zip(params, e.args):
            given[p[0]] = a
        if len(e.args) > len(params):
            raise Unsupported("%s: too many arguments to %s" % (self.name, meth))
        kwparam = [p[0] for p in params if p[1] == KW]
        kwextra = {}
        for kw in e.keywords:
            if kwparam and kw.arg in ("taxon", "label", "edge_length") and kw.arg not in [p[0] for p in params]:
                kwextra[kw.arg] = kw.value
                continue
            if kw.arg in given or kw.arg not in [p[0] for p in params]:
                raise Unsupported("%s: keyword %s to %s" % (self.name, kw.arg, meth))
            given[kw.arg] = kw.value
        if kwparam and kwparam[0] not in given:
            if set(kwextra) - {"edge_length"}:
                raise Unsupported("%s: constructor keywords %s" % (self.name, sorted(kwextra)))
            given[kwparam[0]] = ("kw", kwextra.get("edge_length"))
        actual = []
        for n, ty, dflt in params:
            a = given.get(n, dflt)
            if a is None:
                raise Unsupported("%s: missing argument %s to %s" % (self.name, n, meth))
            actual.append((n, ty, a))
        if base["kind"] == "extern":
            return self.extern_call(base, actual, env, k)
        # constant-flag specialisation
        consts = tuple(sorted((n, a.value) for n, ty, a in actual
                              if ty == BOOL and isinstance(a, ast.Constant) and isinstance(a.value, bool)))
        sig = None
        for r in range(len(consts), -1, -1):
            import itertools
            for sub in itertools.combinations(consts, r):
                if (cls, meth, sub) in self.gen.registry:
                    sig = self.gen.registry[(cls, meth, sub)]
                    break
                if (cls, meth, sub) in cands:
                    sig = cands[(cls, meth, sub)]
                    break
            if sig:
                break
        if sig is None:
            raise Unsupported("%s: no translated variant of %s.%s for this call (recursion?)" % (self.name, cls, meth))
        spec = dict(sig["spec"])
        todo = [(n, ty, a) for n, ty, a in actual if n not in spec]

        def args_k(i, acc, env1):
            if i == len(todo):
                recv = [] if rty == TREE else [rt]
                if sig["kind"] == "pure":
                    return self.let(meth.strip("_").split("_")[0], "(%s s %s)" % (sig["coq"], " ".join(recv + acc)),
                                    lambda t: k(t, sig["ret"], env1))
                for _c, _kh in self.handlers:
                    raise Unsupported("%s: method call inside try" % self.name)
                if sig["rebinds_kids"]:
                    self.rebinds_kids = True
                pre = []
                if sig.get("needs_fuel"):
                    self.needs_fuel = True
                    pre.append("fuel")
                for n in sig.get("implicit", []):
                    self.need_implicit(n)
                    pre.append(n)
                r = self.fresh("r")
                return ("(match %s %s s with\n  | MOk %s s => %s\n  | MErr dv_e s => (MErr dv_e s)\n  | MFuel => MFuel\n  end)"
                        % (sig["coq"], " ".join(pre + recv + acc), r,
                           k(r, sig["ret"], env1.changed(sig["rebinds_kids"]))))
            n, ty, a = todo[i]
            if isinstance(a, tuple) and a[0] == "kw":
                if a[1] is None:
                    return args_k(i + 1, acc + ["(None, None, None)"], env1)
                return self.cexpr(a[1], env1, lambda at, aty, e2: args_k(
                    i + 1, acc + ["(None, None, %s)" % self.coerce(at, aty, LEN)], e2))
            return self.cexpr(a, env1, lambda at, aty, e2: args_k(i + 1, acc + [self.coerce(at, aty, ty)], e2))
        return args_k(0, [], env)

    def extern_call(self, sig, actual, env, k):
        """a Tree method that is an operation of the interface, not compiled code"""
        if self.handlers:
            raise Unsupported("%s: method call inside try" % self.name)
        by = {n: (ty, a) for n, ty, a in actual}
        for n, ty, dflt in sig["params"]:
            if n not in sig["iface"]:
                a = by[n][1]
                if not (isinstance(a, ast.Constant) and dflt is not None and a.value == dflt.value):
                    raise Unsupported("%s: argument %s of %s must keep its default" % (self.name, n, sig["coq"]))
        self.rebinds_kids = True

        def args_k(i, acc, env1):
            if i == len(sig["iface"]):
                return ("(match %s G%s s with\n  | MOk _ s => %s\n  | MErr dv_e s => (MErr dv_e s)\n  | MFuel => MFuel\n  end)"
                        % (sig["coq"], "".join(" " + x for x in acc), k("tt", UNIT, env1.changed(True))))
            n = sig["iface"][i]
            ty, a = by[n]
            return self.cexpr(a, env1, lambda at, aty, e2: args_k(i + 1, acc + [self.coerce(at, aty, ty)], e2))
        return args_k(0, [], env)

    # ------------------------------------------------------------------ conditions (CPS)
    def is_none_test(self, e):
        if (isinstance(e, ast.Compare) and len(e.ops) == 1 and isinstance(e.comparators[0], ast.Constant)
                and e.comparators[0].value is None and isinstance(e.ops[0], (ast.Is, ast.IsNot))):
            return e.left, isinstance(e.ops[0], ast.IsNot)
        return None

    def branch(self, b, env, kt, kf):
        if b == "true":
            return kt(env)
        if b == "false":
            return kf(env)
        return "(if %s\n  then %s\n  else %s)" % (b, kt(env), kf(env))

    def cond(self, e, env, kt, kf, as_value=False):
        if isinstance(e, ast.BoolOp):
            first, rest = e.values[0], e.values[1:]
            rest_e = rest[0] if len(rest) == 1 else ast.BoolOp(op=e.op, values=rest)
            if isinstance(e.op, ast.And):
                return self.cond(first, env, lambda e1: self.cond(rest_e, e1, kt, kf), kf)
            return self.cond(first, env, kt, lambda e1: self.cond(rest_e, e1, kt, kf))
        if isinstance(e, ast.UnaryOp) and isinstance(e.op, ast.Not):
            return self.cond(e.operand, env, kf, kt)
        t = self.is_none_test(e)
        if t:
            x, pos = t

            def kx(xt, xty, e1):
                if xty[0] == "opt" or xty == LEN:
                    inner = xty[1] if xty[0] == "opt" else INT
                    v = x.id if isinstance(x, ast.Name) else self.fresh("v")
                    some = (kt if pos else kf)(e1.narrow(x, v, inner))
                    none = (kf if pos else kt)(e1)
                    return "(match %s with\n  | Some %s => %s\n  | None => %s\n  end)" % (xt, v, some, none)
                if xty == NONE:
                    return (kf if pos else kt)(e1)
                return (kt if pos else kf)(e1)
            return self.cexpr(x, env, kx)
        if isinstance(e, ast.Compare):
            if len(e.ops) != 1:
                raise Unsupported("%s: chained comparison" % self.name)
            op = e.ops[0]
            return self.cexpr(e.left, env, lambda a, ta, e1: self.cexpr(
                e.comparators[0], e1, lambda b, tb, e2: self.branch(self.compare(op, a, ta, b, tb), e2, kt, kf)))

        def kv(vt, vty, e1):
            if vty == TOpt(BOOL):
                return "(match %s with\n  | Some true => %s\n  | _ => %s\n  end)" % (vt, kt(e1), kf(e1))
            if vty[0] == "opt":
                v = e.id if isinstance(e, ast.Name) else self.fresh("v")
                return ("(match %s with\n  | Some %s => %s\n  | None => %s\n  end)"
                        % (vt, v, kt(e1.narrow(e, v, vty[1])), kf(e1)))
            return self.branch(self.truthy(vt, vty), e1, kt, kf)
        return self.cexpr(e, env, kv)

    def compare(self, op, a, ta, b, tb):
        if isinstance(op, (ast.Is, ast.IsNot, ast.Eq, ast.NotEq)):
            neg = isinstance(op, (ast.IsNot, ast.NotEq))
            if ta == NODE and tb == NODE:
                r = "(mg_eqb G %s %s)" % (a, b)
            elif ta == TOpt(NODE) and tb == NODE:
                r = "(match %s with Some dv_x => mg_eqb G dv_x %s | None => false end)" % (a, b)
            elif ta == NODE and tb == TOpt(NODE):
                r = "(match %s with Some dv_x => mg_eqb G %s dv_x | None => false end)" % (b, a)
            elif ta == INT and tb == INT and isinstance(op, (ast.Eq, ast.NotEq)):
                r = "(Z.eqb %s %s)" % (a, b)
            elif ta == LEN and tb == LEN and isinstance(op, (ast.Eq, ast.NotEq)):
                r = "(option_eqb Z.eqb %s %s)" % (a, b)
            else:
                raise Unsupported("%s: comparison of %r and %r" % (self.name, ta, tb))
            return "(negb %s)" % r if neg else r
        if isinstance(op, (ast.In, ast.NotIn)) and tb in DICTS:
            kty, eqb, _vty = DICTS[tb]
            if ta == kty or (kty[0] == "opt" and ta == kty[1]):
                r = "(py_is_some (py_dict_get %s %s %s))" % (eqb, self.coerce(a, ta, kty), b)
            elif kty == NODE and ta in (TAXON, TOpt(TAXON)):
                # a Taxon (or None) looked up among Node keys: Node.__eq__ and Taxon.__eq__ are identity
                # (checked in Generator.run), objects of the two classes are never equal
                r = "false"
            else:
                raise Unsupported("%s: membership of %r in %r" % (self.name, ta, tb))
            return "(negb %s)" % r if isinstance(op, ast.NotIn) else r
        if isinstance(op, (ast.In, ast.NotIn)):
            if ta == NODE and tb == TList(NODE):
                r = "(py_in (mg_eqb G) %s %s)" % (a, b)
                return "(negb %s)" % r if isinstance(op, ast.NotIn) else r
            if ta == TAXON and tb == TList(TAXON):
                r = "(py_in Z.eqb %s %s)" % (a, b)
                return "(negb %s)" % r if isinstance(op, ast.NotIn) else r
            raise Unsupported("%s: membership of %r in %r" % (self.name, ta, tb))
        if ta == INT and tb == INT:
            f = {ast.Gt: "Z.gtb", ast.GtE: "Z.geb", ast.Lt: "Z.ltb", ast.LtE: "Z.leb"}.get(type(op))
            if f:
                return "(%s %s %s)" % (f, a, b)
        raise Unsupported("%s: comparison %s" % (self.name, type(op).__name__))

    # ------------------------------------------------------------------ places
    def list_place(self, e, env, k):
        """e denotes a list object stored in a node's _child_nodes: k(node text, env)"""
        if isinstance(e, ast.Name) and e.id in env.vars and env.vars[e.id][0] == "alias":
            if env.stale:
                raise Unsupported("%s: list alias %s used after a _child_nodes rebinding" % (self.name, e.id))
            return k(env.vars[e.id][1], env)
        if isinstance(e, ast.Attribute) and e.attr == "_child_nodes":
            def kk(vt, vty, e1):
                if vty != NODE:
                    raise Unsupported("%s: _child_nodes of %r" % (self.name, vty))
                return k(vt, e1)
            return self.cexpr(e.value, env, lambda vt, vty, e1: self.deref(vt, vty, e1, kk, expr=e.value))
        return None

    def write_kids(self, node, newlist, env, nxt):
        return "(let s := wr_kids G %s %s s in\n  %s)" % (node, newlist, nxt(env.changed()))

    # ------------------------------------------------------------------ statements
    def block(self, stmts, env, K):
        if not stmts:
            return K(env)
        s, rest = stmts[0], list(stmts[1:])
        nxt = K if not rest else (lambda env1: self.block(rest, env1, K))
        if isinstance(s, ast.Expr) and isinstance(s.value, ast.Constant) and isinstance(s.value.value, str):
            return nxt(env)
        if isinstance(s, ast.Pass):
            return nxt(env)
        if (isinstance(s, ast.Expr) and isinstance(s.value, ast.Call) and isinstance(s.value.func, ast.Attribute)
                and s.value.func.attr == "warn" and isinstance(s.value.func.value, ast.Name)
                and s.value.func.value.id == "warnings"
                and all(isinstance(a, ast.Constant) for a in s.value.args) and not s.value.keywords):
            return nxt(env)          # warnings.warn("literal"): no effect on the object graph
        if isinstance(s, ast.Assert):
            return self.cond(s.test, env, nxt, lambda e1: self.rz("AssertErr", e1))
        if isinstance(s, ast.Raise):
            exc = s.exc.func if isinstance(s.exc, ast.Call) else s.exc
            if s.cause:
                raise Unsupported("%s: raise form" % self.name)
            if isinstance(exc, ast.Name) and exc.id in ERRS:
                return self.rz(ERRS[exc.id], env)
            if (isinstance(exc, ast.Name) and exc.id == "Exception") or \
                    (isinstance(exc, ast.Attribute) and isinstance(exc.value, ast.Name) and exc.value.id == "error"
                     and exc.attr == "SeedNodeDeletionException"):
                return self.rz("OtherErr", env)      # core.exc_enum maps them to OtherErr as well
            raise Unsupported("%s: raise form" % self.name)
        if isinstance(s, ast.Return):
            if self.loop:
                raise Unsupported("%s: return inside a loop" % self.name)
            if self.handlers:
                raise Unsupported("%s: return inside try" % self.name)
            if s.value is None:
                return "(MOk %s s)" % self.none_of_ret()
            return self.cexpr(s.value, env, lambda t, ty, e1: "(MOk %s s)" % self.coerce(t, ty, self.ret))
        if isinstance(s, ast.Break):
            if not self.loop:
                raise Unsupported("%s: break outside a loop" % self.name)
            return "(MOk (LBreak %s) s)" % self.loop_tuple(env)
        if isinstance(s, ast.Continue):
            if not self.loop:
                raise Unsupported("%s: continue outside a loop" % self.name)
            self.dirty_stack[-1].append(env.dirty)
            return "(MOk (LNext %s) s)" % self.loop_tuple(env)
        if isinstance(s, ast.If):
            return self.cond(s.test, env, lambda e1: self.block(list(s.body), e1, nxt),
                             lambda e1: self.block(list(s.orelse), e1, nxt))
        if isinstance(s, ast.Expr) and isinstance(s.value, ast.Call):
            return self.call_stmt(s.value, env, nxt)
        if isinstance(s, ast.Assign):
            return self.assign(s, env, nxt)
        if isinstance(s, ast.AugAssign):
            return self.augassign(s, env, nxt)
        if isinstance(s, ast.Try):
            return self.try_stmt(s, env, nxt)
        if isinstance(s, ast.For):
            return self.for_stmt(s, env, nxt)
        if isinstance(s, ast.While):
            return self.while_stmt(s, env, nxt)
        raise Unsupported("%s: statement %s" % (self.name, type(s).__name__))

    def none_of_ret(self):
        if self.ret == UNIT:
            return "tt"
        if self.ret[0] == "opt":
            return "None"
        raise Unsupported("%s: returns None where %r is declared" % (self.name, self.ret))

    def call_stmt(self, c, env, nxt):
        f = c.func
        if isinstance(f, ast.Attribute) and f.attr in ("append", "remove", "insert", "clear", "reverse", "extend", "sort"):
            def kplace(node, e1):
                def with_list(cur):
                    if f.attr == "append" and len(c.args) == 1:
                        return self.cexpr(c.args[0], e1, lambda at, aty, e2: self.write_kids(
                            node, "(%s ++ [%s])" % (cur, self.coerce(at, aty, NODE)), e2, nxt))
                    if f.attr == "remove" and len(c.args) == 1:
                        def kr(at, aty, e2):
                            v = self.fresh("rest")
                            return ("(match py_remove (mg_eqb G) %s %s with\n  | Some %s => %s\n  | None => %s\n  end)"
                                    % (self.coerce(at, aty, NODE), cur, v, self.write_kids(node, v, e2, nxt),
                                       self.rz("ValueErr", e2)))
                        return self.cexpr(c.args[0], e1, kr)
                    if f.attr == "insert" and len(c.args) == 2:
                        return self.cexpr(c.args[0], e1, lambda it, ity, e2: self.cexpr(
                            c.args[1], e2, lambda at, aty, e3: self.write_kids(
                                node, "(py_insert %s %s %s)" % (cur, self.coerce(it, ity, INT), self.coerce(at, aty, NODE)), e3, nxt)))
                    if f.attr == "clear" and not c.args:
                        return self.write_kids(node, "[]", e1, nxt)
                    if f.attr == "reverse" and not c.args:
                        return self.write_kids(node, "(rev %s)" % cur, e1, nxt)
                    if f.attr == "sort" and not c.args:
                        kw = {x.arg: x.value for x in c.keywords}
                        if set(kw) != {"key", "reverse"}:
                            raise Unsupported("%s: sort form" % self.name)
                        rv = kw["reverse"]
                        if isinstance(rv, ast.UnaryOp) and isinstance(rv.op, ast.Not) and isinstance(rv.operand, ast.Name) \
                                and e1.vars.get(rv.operand.id, (0, 0, 0))[2] == BOOL:
                            rt = "(negb %s)" % e1.vars[rv.operand.id][1]
                        elif isinstance(rv, ast.Name) and e1.vars.get(rv.id, (0, 0, 0))[2] == BOOL:
                            rt = e1.vars[rv.id][1]
                        else:
                            raise Unsupported("%s: sort reverse argument" % self.name)
                        ky = kw["key"]
                        if isinstance(ky, ast.Name) and e1.vars.get(ky.id, (0, 0, 0))[2] == KEYFN:
                            return self.write_kids(node, "(py_sort_by (%s s) %s %s)" % (e1.vars[ky.id][1], rt, cur), e1, nxt)
                        if (isinstance(ky, ast.Attribute) and ky.attr == "__getitem__" and isinstance(ky.value, ast.Name)
                                and e1.vars.get(ky.value.id, (0, 0, 0))[2] == NDICT):
                            dt = e1.vars[ky.value.id][1]
                            return ("(if py_dict_has_all (mg_eqb G) %s %s\n  then %s\n  else %s)"
                                    % (cur, dt, self.write_kids(node, "(py_sort_by (py_dict_key (mg_eqb G) %s) %s %s)" % (dt, rt, cur), e1, nxt),
                                       self.rz("KeyErr", e1)))
                        raise Unsupported("%s: sort key" % self.name)
                    raise Unsupported("%s: list.%s form" % (self.name, f.attr))
                if c.keywords and f.attr != "sort":
                    raise Unsupported("%s: list.%s keywords" % (self.name, f.attr))
                return self.let("kids", "(rd_kids G s %s)" % node, with_list)
            r = self.list_place(f.value, env, kplace)
            if r is not None:
                return r
            # a local list value:  x.append(v)
            if (isinstance(f.value, ast.Name) and f.value.id in env.vars and env.vars[f.value.id][0] == "val"
                    and env.vars[f.value.id][2][0] == "list" and f.attr in ("append", "extend") and len(c.args) == 1
                    and not c.keywords):
                name = f.value.id
                _k, lt, lty = env.vars[name]
                if name in [p[0] for p in self.params] or lty[1] == ("any",):
                    raise Unsupported("%s: %s to %s" % (self.name, f.attr, name))
                if f.attr == "extend":
                    return self.cexpr(c.args[0], env, lambda at, aty, e2: "(let %s := (%s ++ %s) in\n  %s)"
                                      % (name, lt, self.coerce(at, aty, lty), nxt(e2.bind(name, name, lty))))
                return self.cexpr(c.args[0], env, lambda at, aty, e2: "(let %s := (%s ++ [%s]) in\n  %s)"
                                  % (name, lt, self.coerce(at, aty, lty[1]), nxt(e2.bind(name, name, lty))))
        # rng.shuffle(c): the next script entry permutes the local list c
        if (isinstance(f, ast.Attribute) and f.attr == "shuffle" and isinstance(f.value, ast.Name)
                and f.value.id in env.vars and env.vars[f.value.id][2:] == (RNG,) and len(c.args) == 1
                and isinstance(c.args[0], ast.Name) and c.args[0].id in env.vars and not c.keywords):
            rn, ln = f.value.id, c.args[0].id
            lv = env.vars[ln]
            if lv[0] != "val" or lv[2][0] != "list" or ln in [p[0] for p in self.params]:
                raise Unsupported("%s: shuffle of %s" % (self.name, ln))
            return ("(match %s with\n  | dv_pm :: %s => (match py_nths %s dv_pm with\n  | Some %s => %s\n  | None => MFuel\n  end)\n  | [] => MFuel\n  end)"
                    % (env.vars[rn][1], rn, lv[1], ln, nxt(env.bind(rn, rn, RNG).bind(ln, ln, lv[2]))))
        return self.cexpr(c, env, lambda _t, _ty, e1: nxt(e1))

    def store_attr(self, tgt, vt, vty, env, nxt):
        """tgt.attr = value"""
        def kobj(ot, oty, e1):
            if oty[0] not in FIELDS:
                raise Unsupported("%s: store to attribute of %r" % (self.name, oty))
            cls = CLS_OF[oty[0]]
            f = FIELDS[oty[0]].get(tgt.attr)
            if f:
                _rd, wr, ty = f
                if wr is None:
                    raise Unsupported("%s: field %s is read-only in the model" % (self.name, tgt.attr))
                rebinds = tgt.attr == "_child_nodes"
                if rebinds:
                    self.rebinds_kids = True
                arg = "" if oty == TREE else " " + ot
                if wr == "wr_taxon":
                    # not a field of the interface record: a variable of the section (Model/C03ShufflePrims.v)
                    self.gen.uses_wr_taxon = True
                    return "(let s := wr_taxon%s %s s in\n  %s)" % (arg, self.coerce(vt, vty, ty), nxt(e1.changed(rebinds)))
                return "(let s := %s G%s %s s in\n  %s)" % (wr, arg, self.coerce(vt, vty, ty), nxt(e1.changed(rebinds)))
            prop = self.gen.props.get((cls, tgt.attr))
            if prop and prop[1]:
                sig = self.gen.registry.get((cls, prop[1], ()))
                if not sig or sig["kind"] != "eff":
                    raise Unsupported("%s: property %s.%s has no translated setter" % (self.name, cls, tgt.attr))
                if self.handlers:
                    raise Unsupported("%s: property store inside try" % self.name)
                if sig["rebinds_kids"]:
                    self.rebinds_kids = True
                pty = sig["params"][0][1]
                return ("(match %s%s %s s with\n  | MOk _ s => %s\n  | MErr dv_e s => (MErr dv_e s)\n  | MFuel => MFuel\n  end)"
                        % (sig["coq"], "" if oty == TREE else " " + ot, self.coerce(vt, vty, pty),
                           nxt(e1.changed(sig["rebinds_kids"]))))
            raise Unsupported("%s: store to %s.%s" % (self.name, cls, tgt.attr))
        return self.cexpr(tgt.value, env, lambda ot, oty, e1: self.deref(ot, oty, e1, kobj, expr=tgt.value))

    def assign(self, s, env, nxt):
        if len(s.targets) != 1:
            raise Unsupported("%s: chained assignment" % self.name)
        tgt = s.targets[0]
        if isinstance(tgt, ast.Name):
            if tgt.id in self.RESERVED or tgt.id in self.spec or tgt.id == "self" or (
                    tgt.id in [p[0] for p in self.params] and self.loop):
                raise Unsupported("%s: assignment to %s" % (self.name, tgt.id))
            # x = self.preorder_node_iter / self.leaf_node_iter: a bound method, called later as x()
            if (isinstance(s.value, ast.Attribute) and isinstance(s.value.value, ast.Name) and s.value.value.id == "self"
                    and self.cls == "Tree" and s.value.attr in ("preorder_node_iter", "leaf_node_iter")):
                return nxt(env.bind(tgt.id, "<bound method>", ("treemeth", s.value.attr)))
            # alias of a child list object
            if isinstance(s.value, ast.Attribute) and s.value.attr == "_child_nodes":
                return self.list_place(s.value, env, lambda node, e1: nxt(e1.alias(tgt.id, node)))

            def kv(vt, vty, e1):
                if vty == TList(("any",)) and tgt.id in self.ltypes:
                    vty = self.ltypes[tgt.id]
                    vt = "(@nil %s)" % coq_ty(vty[1])
                if vty == NDICT and isinstance(s.value, ast.Dict) and self.ltypes.get(tgt.id) in DICTS:
                    vty = self.ltypes[tgt.id]
                    vt = "(@nil %s)" % coq_ty(vty)[6:-1]
                if tgt.id in self.ltypes and vty != self.ltypes[tgt.id]:
                    vt = self.coerce(vt, vty, self.ltypes[tgt.id])
                    vty = self.ltypes[tgt.id]
                if vty == NONE:
                    return nxt(e1.bind(tgt.id, "None", NONE))
                return "(let %s := %s in\n  %s)" % (tgt.id, vt, nxt(e1.bind(tgt.id, tgt.id, vty)))
            lp = self.local_pop(s.value, env)
            if lp:
                name, lt, lty = lp
                return ("(match py_pop_last %s with\n  | Some (%s, %s) => %s\n  | None => %s\n  end)"
                        % (lt, tgt.id, name, nxt(env.bind(tgt.id, tgt.id, lty[1]).bind(name, name, lty)),
                           self.rz("IndexErr", env)))
            return self.cexpr(s.value, env, kv)
        if isinstance(tgt, ast.Attribute):
            return self.cexpr(s.value, env, lambda vt, vty, e1: self.store_attr(tgt, vt, vty, e1, nxt))
        if isinstance(tgt, ast.Subscript) and isinstance(tgt.value, ast.Name) and tgt.value.id in env.vars \
                and len(env.vars[tgt.value.id]) == 3 and env.vars[tgt.value.id][2] in DICTS:
            dn = tgt.value.id
            dty = env.vars[dn][2]
            dk, deq, dv = DICTS[dty]
            return self.cexpr(tgt.slice, env, lambda kt, kty, e1: self.cexpr(s.value, e1, lambda vt, vty, e2: (
                "(let %s := py_dict_set %s %s %s %s in\n  %s)"
                % (dn, deq, self.coerce(kt, kty, dk), self.coerce(vt, vty, dv), env.vars[dn][1],
                   nxt(e2.bind(dn, dn, dty))))))
        if (isinstance(tgt, ast.Tuple) and isinstance(s.value, ast.Tuple) and len(tgt.elts) == len(s.value.elts) == 2
                and all(self.local_list_slot(t, env) for t in tgt.elts)):
            # l[i], l[j] = (e1, e2) on local lists: both values first, then the stores left to right, each
            # index evaluated when its store is made
            return self.cexpr(s.value.elts[0], env, lambda v0, t0, e1: self.cexpr(
                s.value.elts[1], e1, lambda v1, t1, e2: self.store_local_index(
                    tgt.elts[0], v0, t0, e2, lambda e3: self.store_local_index(tgt.elts[1], v1, t1, e3, nxt))))
        if isinstance(tgt, ast.Subscript):
            def kplace(node, e1):
                def kidx(it, ity, e2):
                    def kval(vt, vty, e3):
                        cur = self.fresh("kids")
                        v = self.fresh("upd")
                        return ("(let %s := (rd_kids G s %s) in\n  (match py_set_index %s %s %s with\n  | Some %s => %s\n  | None => %s\n  end))"
                                % (cur, node, cur, self.coerce(it, ity, INT), self.coerce(vt, vty, NODE), v,
                                   self.write_kids(node, v, e3, nxt), self.rz("IndexErr", e3)))
                    return self.cexpr(s.value, e2, kval)
                return self.cexpr(tgt.slice, e1, kidx)
            r = self.list_place(tgt.value, env, kplace)
            if r is None:
                raise Unsupported("%s: subscript store" % self.name)
            return r
        if isinstance(tgt, ast.Tuple) and len(tgt.elts) == 2 and all(isinstance(t, ast.Name) for t in tgt.elts) \
                and not isinstance(s.value, ast.Tuple):
            # a, b = <list>: ValueError unless the list has exactly two elements
            a, b = tgt.elts[0].id, tgt.elts[1].id
            for n in (a, b):
                if n in self.RESERVED or n in [p[0] for p in self.params] or n == "self":
                    raise Unsupported("%s: assignment to %s" % (self.name, n))

            def kl(lt, lty, e1):
                if lty[0] != "list":
                    raise Unsupported("%s: unpacking of %r" % (self.name, lty))
                return ("(match %s with\n  | [%s; %s] => %s\n  | _ => %s\n  end)"
                        % (lt, a, b, nxt(e1.bind(a, a, lty[1]).bind(b, b, lty[1])), self.rz("ValueErr", e1)))
            return self.cexpr(s.value, env, kl)
        if isinstance(tgt, ast.Tuple) and isinstance(s.value, ast.Tuple) and len(tgt.elts) == len(s.value.elts) == 2 \
                and all(isinstance(t, ast.Attribute) for t in tgt.elts):
            # a.x, b.y = (e1, e2): both values first, then the stores left to right
            return self.cexpr(s.value.elts[0], env, lambda v0, t0, e1: self.cexpr(
                s.value.elts[1], e1, lambda v1, t1, e2: self.store_attr(
                    tgt.elts[0], v0, t0, e2, lambda e3: self.store_attr(tgt.elts[1], v1, t1, e3, nxt))))
        raise Unsupported("%s: assignment target %s" % (self.name, type(tgt).__name__))

    def local_list_slot(self, t, env):
        return (isinstance(t, ast.Subscript) and isinstance(t.value, ast.Name) and t.value.id in env.vars
                and env.vars[t.value.id][0] == "val" and env.vars[t.value.id][2][0] == "list"
                and t.value.id not in [p[0] for p in self.params])

    def store_local_index(self, t, vt, vty, env, nxt):
        """l[i] = v on a local list value: IndexError when i is out of range"""
        name = t.value.id
        _k, lt, lty = env.vars[name]

        def ki(it, ity, e1):
            if ity != INT:
                raise Unsupported("%s: index of type %r" % (self.name, ity))
            return ("(match py_set_index %s %s %s with\n  | Some %s => %s\n  | None => %s\n  end)"
                    % (e1.vars[name][1], it, self.coerce(vt, vty, lty[1]), name, nxt(e1.bind(name, name, lty)),
                       self.rz("IndexErr", e1)))
        return self.cexpr(t.slice, env, ki)

    def local_pop(self, v, env):
        """v is `x.pop()` on a local list value"""
        if (isinstance(v, ast.Call) and isinstance(v.func, ast.Attribute) and v.func.attr == "pop" and not v.args
                and not v.keywords and isinstance(v.func.value, ast.Name) and v.func.value.id in env.vars):
            e = env.vars[v.func.value.id]
            if e[0] == "val" and e[2][0] == "list" and v.func.value.id not in [p[0] for p in self.params]:
                return v.func.value.id, e[1], e[2]
        return None

    def mutated_locals(self, stmts, env):
        out = []
        for n in ast.walk(ast.Module(body=list(stmts), type_ignores=[])):
            if isinstance(n, ast.Name) and isinstance(n.ctx, ast.Store) and n.id not in out:
                out.append(n.id)
            if (isinstance(n, ast.Call) and isinstance(n.func, ast.Attribute)
                    and n.func.attr in ("append", "pop", "shuffle", "sample", "choice", "randrange")
                    and isinstance(n.func.value, ast.Name) and n.func.value.id in env.vars
                    and env.vars[n.func.value.id][0] == "val" and n.func.value.id not in out):
                out.append(n.func.value.id)
        return out

    def while_stmt(self, s, env, nxt):
        if s.orelse or self.handlers:
            raise Unsupported("%s: while form" % self.name)
        self.needs_fuel = True
        assigned = self.mutated_locals(list(s.body), env)
        carried = [n for n in assigned if n in env.vars]
        for n in carried:
            if env.vars[n][0] != "val" or (n in [p[0] for p in self.params] and env.vars[n][2] != RNG) or n == "self":
                raise Unsupported("%s: while loop re-binds %s" % (self.name, n))
        vpat = "_" if not carried else (carried[0] if len(carried) == 1 else "'(%s)" % ", ".join(carried))
        init = "tt" if not carried else (env.vars[carried[0]][1] if len(carried) == 1
                                         else "(%s)" % ", ".join(env.vars[n][1] for n in carried))
        benv = env.copy()
        for n in carried:
            benv = benv.bind(n, n, env.vars[n][2])
        self.loop.append(carried)
        self.dirty_stack.append([])
        outer_rebinds, self.rebinds_kids = self.rebinds_kids, False
        types = {n: env.vars[n][2] for n in carried}
        self.loop_types.append(types)

        def back(kind):
            def k(e2):
                vals = []
                for n in carried:
                    if e2.vars[n][0] != "val":
                        raise Unsupported("%s: loop variable %s becomes an alias" % (self.name, n))
                    try:
                        vals.append(self.coerce(e2.vars[n][1], e2.vars[n][2], types[n]))
                    except Unsupported:
                        raise Unsupported("%s: loop variable %s changes type (%r -> %r); declare it"
                                          % (self.name, n, types[n], e2.vars[n][2]))
                tup = "tt" if not vals else (vals[0] if len(vals) == 1 else "(%s)" % ", ".join(vals))
                return "(MOk (%s %s) s)" % (kind, tup)
            return k
        try:
            body = self.cond(s.test, benv, lambda e1: self.block(list(s.body), e1, back("LNext")), back("LBreak"))
        finally:
            self.loop.pop()
            self.dirty_stack.pop()
            self.loop_types.pop()
            body_rebinds = self.rebinds_kids
            self.rebinds_kids = outer_rebinds or body_rebinds
        after_env = env.changed(body_rebinds)
        for n in carried:
            after_env = after_env.bind(n, n, types[n])
        for n in assigned:
            if n not in carried:
                after_env.vars.pop(n, None)
        bind = "" if not carried else "let %s := dv_v in\n  " % vpat
        return ("(match mwhile fuel (fun %s s =>\n  %s) %s s with\n  | MOk dv_v s => %s%s\n  | MErr dv_e s => (MErr dv_e s)\n  | MFuel => MFuel\n  end)"
                % (vpat, body, init, bind, nxt(after_env)))

    def augassign(self, s, env, nxt):
        if not isinstance(s.op, ast.Add):
            raise Unsupported("%s: augmented assignment operator" % self.name)
        tgt = s.target
        if isinstance(tgt, ast.Name) and tgt.id in env.vars and env.vars[tgt.id][0] == "val" \
                and env.vars[tgt.id][2][0] == "list" and tgt.id not in [p[0] for p in self.params]:
            v = env.vars[tgt.id]
            return self.cexpr(s.value, env, lambda at, aty, e1: "(let %s := (%s ++ %s) in\n  %s)"
                              % (tgt.id, v[1], self.coerce(at, aty, v[2]), nxt(e1.bind(tgt.id, tgt.id, v[2]))))
        if isinstance(tgt, ast.Name):
            v = env.vars.get(tgt.id)
            if not v or v[0] != "val" or v[2] != INT:
                raise Unsupported("%s: += on %s" % (self.name, tgt.id))
            return self.cexpr(s.value, env, lambda at, aty, e1: "(let %s := (Z.add %s %s) in\n  %s)"
                              % (tgt.id, v[1], self.coerce(at, aty, INT), nxt(e1.bind(tgt.id, tgt.id, INT))))
        if isinstance(tgt, ast.Attribute):
            # obj.length += value : read, add (None raises TypeError), store
            def kobj(ot, oty, e1):
                if oty != EDGE or tgt.attr != "length":
                    raise Unsupported("%s: += on attribute %s of %r" % (self.name, tgt.attr, oty))
                cur = self.fresh("len")

                def kval(at, aty, e2):
                    if aty == INT:
                        at, aty = "(Some %s)" % at, LEN
                    if aty not in (LEN, NONE):
                        raise Unsupported("%s: += of %r to a length" % (self.name, aty))
                    return ("(let %s := (rd_length G s %s) in\n  (match %s, %s with\n  | Some dv_x, Some dv_y => (let s := wr_length G %s (Some (Z.add dv_x dv_y)) s in\n  %s)\n  | _, _ => %s\n  end))"
                            % (cur, ot, cur, at, ot, nxt(e2.changed()), self.rz("TypeErr", e2)))
                return self.cexpr(s.value, e1, kval)
            return self.cexpr(tgt.value, env, lambda ot, oty, e1: self.deref(ot, oty, e1, kobj))
        raise Unsupported("%s: augmented assignment target" % self.name)

    def try_stmt(self, s, env, nxt):
        if s.finalbody or len(s.handlers) != 1 or len(s.body) != 1:
            raise Unsupported("%s: try form" % self.name)
        h = s.handlers[0]
        if h.name or not (len(h.body) == 1 and isinstance(h.body[0], (ast.Pass, ast.Return))):
            raise Unsupported("%s: except body" % self.name)
        if h.type is None:
            caught = None
        elif isinstance(h.type, ast.Name) and h.type.id in ERRS:
            caught = {ERRS[h.type.id]}
        else:
            raise Unsupported("%s: except clause" % self.name)
        b = s.body[0]
        if not isinstance(b, (ast.Assign, ast.AugAssign, ast.Expr)):
            raise Unsupported("%s: try body" % self.name)
        self.handlers.append((caught, lambda e1: self.block(list(h.body), env, nxt)))
        try:
            # the protected statement; what follows it (else-part, rest) is compiled unprotected
            depth = len(self.handlers)

            def after(e1):
                saved = self.handlers
                self.handlers = self.handlers[:depth - 1]
                try:
                    return self.block(list(s.orelse), e1, nxt)
                finally:
                    self.handlers = saved
            return self.block([b], env, after)
        finally:
            self.handlers.pop()

    def loop_tuple(self, env):
        names = self.loop[-1]
        if not names:
            return "tt"
        vals = []
        for n in names:
            v = env.vars[n]
            if v[0] != "val":
                raise Unsupported("%s: loop variable %s becomes an alias" % (self.name, n))
            vals.append(self.coerce(v[1], v[2], self.loop_types[-1][n]))
        return vals[0] if len(vals) == 1 else "(%s)" % ", ".join(vals)

    def for_stmt(self, s, env, nxt):
        if self.handlers:
            raise Unsupported("%s: for inside try" % self.name)
        # loop-carried locals: assigned in the body and defined before the loop
        assigned = []
        for n in ast.walk(ast.Module(body=list(s.body), type_ignores=[])):
            if isinstance(n, ast.Name) and isinstance(n.ctx, ast.Store) and n.id not in assigned:
                assigned.append(n.id)
        for n in ast.walk(ast.Module(body=list(s.body), type_ignores=[])):
            if (isinstance(n, ast.Subscript) and isinstance(n.ctx, ast.Store) and isinstance(n.value, ast.Name)
                    and n.value.id in env.vars and len(env.vars[n.value.id]) > 2 and env.vars[n.value.id][2] in DICT_TYS
                    and n.value.id not in assigned):
                assigned.append(n.value.id)
            if (isinstance(n, ast.Call) and isinstance(n.func, ast.Attribute)
                    and n.func.attr in ("append", "shuffle", "sample", "choice", "randrange", "pop")
                    and isinstance(n.func.value, ast.Name) and n.func.value.id in env.vars
                    and env.vars[n.func.value.id][0] == "val" and n.func.value.id not in assigned):
                assigned.append(n.func.value.id)
            if (isinstance(n, ast.Subscript) and isinstance(n.ctx, ast.Store) and self.local_list_slot(n, env)
                    and n.value.id not in assigned):
                assigned.append(n.value.id)
        targets = [n.id for n in ast.walk(s.target) if isinstance(n, ast.Name)]
        carried = [n for n in assigned if n in env.vars and n not in targets]
        for n in carried:
            if env.vars[n][0] != "val":
                raise Unsupported("%s: loop re-binds list alias %s" % (self.name, n))
        escaping = [n for n in assigned if n not in env.vars and n not in targets]

        # a LIVE list object: alias / x._child_nodes / enumerate(of one)
        live_src = s.iter
        live_enum = False
        if (isinstance(live_src, ast.Call) and isinstance(live_src.func, ast.Name) and live_src.func.id == "enumerate"
                and len(live_src.args) == 1 and not live_src.keywords):
            live_src, live_enum = live_src.args[0], True
        live_node = []
        if (isinstance(live_src, ast.Name) and live_src.id in env.vars and env.vars[live_src.id][0] == "alias") \
                or (isinstance(live_src, ast.Attribute) and live_src.attr == "_child_nodes"):
            self.list_place(live_src, env, lambda node, e1: live_node.append(node) or "")
        dirty_next = []

        def kiter(it, ity, e1):
            if ity in DICTS:
                # for k in d: the keys in insertion order (py_dict_set replaces in place / appends); the dict
                # must not be changed by the body
                if isinstance(s.iter, ast.Name) and s.iter.id in assigned:
                    raise Unsupported("%s: dict %s changed while iterated" % (self.name, s.iter.id))
                it, ity = "(map fst %s)" % it, TList(DICTS[ity][0])
            if ity[0] != "list":
                raise Unsupported("%s: for over %r" % (self.name, ity))
            ety = ity[1]
            benv = e1.copy()
            benv.dirty = False
            if isinstance(s.target, ast.Name):
                pat = s.target.id
                benv = benv.bind(pat, pat, ety)
            elif (isinstance(s.target, ast.Tuple) and len(s.target.elts) == 2 and ety[0] == "tup"
                  and all(isinstance(x, ast.Name) for x in s.target.elts)):
                a, b = s.target.elts[0].id, s.target.elts[1].id
                pat = "'(%s, %s)" % (a, b)
                benv = benv.bind(a, a, ety[1]).bind(b, b, ety[2])
            else:
                raise Unsupported("%s: for target" % self.name)
            vpat = "tt" if not carried else (carried[0] if len(carried) == 1 else "'(%s)" % ", ".join(carried))
            vpat_b = "_" if not carried else vpat
            self.loop.append(carried)
            self.dirty_stack.append(dirty_next)
            self.loop_types.append({n: env.vars[n][2] for n in carried})
            outer_rebinds, self.rebinds_kids = self.rebinds_kids, False
            try:
                body = self.block(list(s.body), benv,
                                  lambda e2: (dirty_next.append(e2.dirty), "(MOk (LNext %s) s)" % self.loop_tuple(e2))[1])
            finally:
                self.loop.pop()
                self.dirty_stack.pop()
                self.loop_types.pop()
                body_rebinds = self.rebinds_kids
                self.rebinds_kids = outer_rebinds or body_rebinds
            init = "tt" if not carried else (env.vars[carried[0]][1] if len(carried) == 1
                                             else "(%s)" % ", ".join(env.vars[n][1] for n in carried))
            after_env = e1.changed(body_rebinds)
            for n in carried:
                after_env = after_env.bind(n, n, env.vars[n][2])
            for n in escaping + targets:
                after_env.vars.pop(n, None)
            if live_node and any(dirty_next):
                # some path changes the object graph and goes on iterating the live list: Python's iterator
                if not isinstance(live_src, ast.Name) and live_node[0] not in [v[1] for v in env.vars.values() if v[0] == "val"]:
                    raise Unsupported("%s: live loop over a list whose owner is not a variable" % self.name)
                self.needs_fuel = True
                rd = "(rd_kids G s %s)" % live_node[0]
                if live_enum:
                    rd = "(py_enumerate %s)" % rd
                loop = "mfor_live fuel (fun s => %s) (fun %s %s s =>\n  %s) O %s s" % (rd, pat, vpat_b, body, init)
            else:
                loop = "mfor (fun %s %s s =>\n  %s) %s %s s" % (pat, vpat_b, body, it, init)
            bind = "" if not carried else "let %s := lctl_val dv_c in\n  " % vpat
            if s.orelse or any(isinstance(n, ast.Break) for n in ast.walk(ast.Module(body=list(s.body), type_ignores=[]))):
                bn = "" if not carried else "let %s := dv_v in\n  " % vpat
                return ("(match %s with\n  | MOk (LNext dv_v) s => %s%s\n  | MOk (LBreak dv_v) s => %s%s\n  | MErr dv_e s => (MErr dv_e s)\n  | MFuel => MFuel\n  end)"
                        % (loop, bn, self.block(list(s.orelse), after_env, nxt), bn, nxt(after_env)))
            return ("(match %s with\n  | MOk dv_c s => %s%s\n  | MErr dv_e s => (MErr dv_e s)\n  | MFuel => MFuel\n  end)"
                    % (loop, bind, nxt(after_env)))
        return self.cexpr(s.iter, env, kiter)

    # ------------------------------------------------------------------ whole function
    def compile(self):
        for n in ast.walk(self.fn):
            ident = n.id if isinstance(n, ast.Name) else (n.arg if isinstance(n, ast.arg) else None)
            if ident is not None and (ident in self.RESERVED or not ident.isascii()
                                      or ident.startswith(("Node_", "Edge_", "Tree_", "py_", "rd_", "wr_", "mg_", "kw_", "dv_", "x_"))):
                raise Unsupported("%s: identifier %s clashes with the generated code" % (self.name, ident))
        self.params = self.signature()
        env = Env()
        env.vars["self"] = ("val", "self", self.self_ty())
        for n, ty, _d in self.params:
            if n not in self.spec:
                env.vars[n] = ("val", n, ty)
        body = self.body()
        ptxt = " ".join("(%s : %s)" % (n, coq_ty(t)) for n, t in self.coq_params())
        if self.kind == "pure":
            text = self.pure_body(body, env)
            return "Definition %s (s : mst G) %s : %s :=\n  %s." % (self.name, ptxt, coq_ty(self.ret), text)
        text = self.block(body, env, lambda e1: "(MOk %s s)" % self.none_of_ret())
        fuel = "(fuel : nat) " if self.needs_fuel else ""
        fuel += "".join("(%s : %s) " % (n, coq_ty(t)) for n, t in self.IMPLICIT if n in self.implicit)
        if self.recursive:
            return ("Fixpoint %s %s%s (s : mst G) {struct fuel} : mres (mst G) %s :=\n  match fuel with\n  | O => MFuel\n  | S fuel =>\n  %s\n  end."
                    % (self.name, fuel, ptxt, coq_ty(self.ret), text))
        return "Definition %s %s%s (s : mst G) : mres (mst G) %s :=\n  %s." % (self.name, fuel, ptxt, coq_ty(self.ret), text)

    def pure_body(self, stmts, env):
        """getter: `if c: return e` ... `return e`; no writes, no raises"""
        if not stmts:
            raise Unsupported("%s: getter falls off the end" % self.name)
        s, rest = stmts[0], stmts[1:]
        saved_rz = self.rz
        self.rz = lambda err, e: (_ for _ in ()).throw(Unsupported("%s: getter can raise %s" % (self.name, err)))
        try:
            if isinstance(s, ast.Return) and s.value is not None:
                if isinstance(s.value, ast.Call) and isinstance(s.value.func, ast.Name) and s.value.func.id == "bool":
                    return self.cond(s.value.args[0], env, lambda e1: "true", lambda e1: "false")
                if self.ret == BOOL and (isinstance(s.value, (ast.BoolOp, ast.Compare)) or
                                         (isinstance(s.value, ast.UnaryOp) and isinstance(s.value.op, ast.Not))):
                    # only the truth value of the result is used by the translated callers
                    return self.cond(s.value, env, lambda e1: "true", lambda e1: "false")
                return self.cexpr(s.value, env, lambda t, ty, e1: self.coerce(t, ty, self.ret))
            if isinstance(s, ast.If) and not s.orelse:
                return self.cond(s.test, env, lambda e1: self.pure_body(list(s.body), e1),
                                 lambda e1: self.pure_body(list(rest), e1))
            raise Unsupported("%s: getter statement %s" % (self.name, type(s).__name__))
        finally:
            self.rz = saved_rz


# --------------------------------------------------------------------------------------------------
# (class, method, kind, return type, parameter types, specialisation)
PLAN = [
    ("Node", "is_leaf", "pure", BOOL, {}, None),
    ("Node", "is_internal", "pure", BOOL, {}, None),
    ("Node", "child_nodes", "pure", TList(NODE), {}, None),
    ("Node", "_get_edge", "pure", EDGE, {}, None),
    ("Node", "_get_edge_length", "pure", LEN, {}, None),
    ("Node", "_get_parent_node", "pure", TOpt(NODE), {}, None),
    ("Edge", "_get_head_node", "pure", NODE, {}, None),
    ("Edge", "_get_tail_node", "pure", TOpt(NODE), {}, None),
    ("Edge", "is_internal", "pure", BOOL, {}, None),
    ("Node", "_set_parent_node", "eff", UNIT, {"parent": TOpt(NODE)}, None),
    ("Edge", "_set_tail_node", "eff", UNIT, {"node": TOpt(NODE)}, None),
    ("Node", "add_child", "eff", NODE, {"node": NODE}, None),
    ("Node", "insert_child", "eff", TOpt(NODE), {"index": INT, "node": NODE}, None),
    ("Node", "new_child", "eff", NODE, {"kwargs": KW}, None),
    ("Node", "insert_new_child", "eff", TOpt(NODE), {"index": INT, "kwargs": KW}, None),
    ("Node", "remove_child", "eff", NODE, {"node": NODE, "suppress_unifurcations": BOOL},
     {"suppress_unifurcations": False}),
    ("Node", "remove_child", "eff", NODE, {"node": NODE, "suppress_unifurcations": BOOL}, None),
    ("Node", "clear_child_nodes", "eff", UNIT, {}, None),
    ("Node", "set_child_nodes", "eff", UNIT, {"child_nodes": TList(NODE)}, None),
    ("Edge", "collapse", "eff", UNIT, {"adjust_collapsed_head_children_edge_lengths": BOOL}, None),
    ("Edge", "invert", "eff", UNIT, {"update_bipartitions": BOOL}, None),
    ("Tree", "_get_seed_node", "pure", NODE, {}, None),
    ("Tree", "_set_is_rooted", "eff", UNIT, {"val": TOpt(BOOL)}, None),
    ("Tree", "_set_seed_node", "eff", UNIT, {"node": NODE}, None),
    ("Tree", "collapse_basal_bifurcation", "eff", TOpt(NODE), {"set_as_unrooted_tree": BOOL}, None),
    ("Tree", "deroot", "eff", UNIT, {}, None),
    ("Tree", "to_outgroup_position", "eff", NODE,
     {"outgroup_node": NODE, "update_bipartitions": BOOL, "suppress_unifurcations": BOOL}, None),
    ("Tree", "reroot_at_node", "eff", NODE,
     {"new_root_node": NODE, "update_bipartitions": BOOL, "suppress_unifurcations": BOOL,
      "collapse_unrooted_basal_bifurcation": BOOL}, None),
    ("Tree", "reroot_at_edge", "eff", NODE,
     {"edge": EDGE, "length1": LEN, "length2": LEN, "update_bipartitions": BOOL, "suppress_unifurcations": BOOL}, None),
    ("Tree", "prune_subtree", "eff", UNIT,
     {"node": NODE, "update_bipartitions": BOOL, "suppress_unifurcations": BOOL}, None),
    ("Tree", "suppress_unifurcations", "eff", TList(TTup(NODE, NODE)), {"update_bipartitions": BOOL},
     {"update_bipartitions": False}, {"remapped_nodes": TList(TTup(NODE, NODE))}),
    ("Node", "collapse_clade", "eff", UNIT, {}, None),
    ("Node", "_convert_node_to_root_polytomy", "eff", TList(NODE), {}, None, {"ndl": TList(NODE)}),
    ("Tree", "polytomize_root", "eff", UNIT, {"set_as_unrooted_tree": BOOL}, None),
    ("Tree", "collapse_unweighted_edges", "eff", UNIT, {"threshold": INT, "update_bipartitions": BOOL}, None),
    ("Tree", "randomly_rotate", "eff", UNIT, {"rng": RNG}, None),
    ("Tree", "randomly_reorient", "eff", UNIT, {"rng": RNG, "update_bipartitions": BOOL}, None, None, ("reseed_at",)),
    ("Tree", "reorder", "eff", UNIT, {"ascending": BOOL, "key": KEYFN}, None),
    ("Tree", "ladderize", "eff", UNIT, {"ascending": BOOL}, None),
    ("Tree", "prune_leaves_without_taxa", "eff", TList(NODE),
     {"recursive": BOOL, "update_bipartitions": BOOL, "suppress_unifurcations": BOOL}, None,
     {"nodes_removed": TList(NODE), "nodes_to_remove": TList(NODE)}, ("suppress_unifurcations",)),
    ("Tree", "filter_leaf_nodes", "eff", TList(NODE),
     {"filter_fn": NFN, "recursive": BOOL, "update_bipartitions": BOOL, "suppress_unifurcations": BOOL}, None,
     {"nodes_removed": TList(NODE)}, ("suppress_unifurcations",)),
    ("Tree", "prune_nodes", "eff", UNIT,
     {"nodes": TList(NODE), "prune_leaves_without_taxa": BOOL, "update_bipartitions": BOOL,
      "suppress_unifurcations": BOOL}, None),
    ("Tree", "prune_taxa", "eff", UNIT,
     {"taxa": TList(TAXON), "update_bipartitions": BOOL, "suppress_unifurcations": BOOL,
      "is_apply_filter_to_leaf_nodes": BOOL, "is_apply_filter_to_internal_nodes": BOOL}, None,
     {"nodes_to_remove": TList(NODE)}),
    ("Tree", "prune_taxa_with_labels", "eff", UNIT,
     {"labels": TList(INT), "update_bipartitions": BOOL, "suppress_unifurcations": BOOL,
      "is_apply_filter_to_leaf_nodes": BOOL, "is_apply_filter_to_internal_nodes": BOOL}, None),
    ("Tree", "retain_taxa", "eff", UNIT,
     {"taxa": TList(TAXON), "update_bipartitions": BOOL, "suppress_unifurcations": BOOL}, None),
    ("Tree", "retain_taxa_with_labels", "eff", UNIT,
     {"labels": TList(INT), "update_bipartitions": BOOL, "suppress_unifurcations": BOOL}, None),
    ("Tree", "resolve_polytomies", "eff", UNIT, {"limit": INT, "update_bipartitions": BOOL, "rng": TOpt(RNG)}, None,
     {"polytomies": TList(NODE)}),
    ("Tree", "shuffle_taxa", "eff", OTDICT, {"include_internal_nodes": BOOL, "rng": RNG}, None,
     {"current_node_taxon_map": NTDICT, "node_taxa": TList(TAXON), "current_to_shuffled_taxon_map": OTDICT}),
    # last: until here calls of reseed_at are calls of the interface operation
    ("Tree", "reseed_at", "eff", TOpt(NODE),
     {"new_seed_node": NODE, "update_bipartitions": BOOL, "collapse_unrooted_basal_bifurcation": BOOL,
      "suppress_unifurcations": BOOL}, None,
     {"edges_to_invert": TList(EDGE), "current_node": TOpt(NODE)},
     ("collapse_basal_bifurcation", "suppress_unifurcations")),
]

# interface operations that ALSO have a compiled version (used as a black box only where a PLAN entry says so)
COMPILED_TOO = {"collapse_basal_bifurcation"}

# Tree methods that are operations of the interface (not compiled): name -> (interface field,
# parameters passed on in source order, declared types)
EXTERNS = [
    ("reseed_at", "x_reseed_at",
     ["new_seed_node", "update_bipartitions", "collapse_unrooted_basal_bifurcation", "suppress_unifurcations"],
     {"new_seed_node": NODE, "update_bipartitions": BOOL, "collapse_unrooted_basal_bifurcation": BOOL,
      "suppress_unifurcations": BOOL}),
    ("suppress_unifurcations", "x_suppress_unifurcations", [], {"update_bipartitions": BOOL}),
    ("collapse_basal_bifurcation", "x_collapse_basal_bifurcation", ["set_as_unrooted_tree"],
     {"set_as_unrooted_tree": BOOL}),
    ("encode_bipartitions", "x_encode_bipartitions",
     ["suppress_unifurcations", "collapse_unrooted_basal_bifurcation"],
     {"suppress_unifurcations": BOOL, "collapse_unrooted_basal_bifurcation": BOOL, "suppress_storage": BOOL,
      "is_bipartitions_mutable": BOOL}),
]


# --------------------------------------------------------------------------------------------------
# Statement blocks compiled as functions of their own ("fragments").
#
# Tree.reroot_at_midpoint is not compiled here as a whole (its distance-matrix queries and float
# arithmetic are outside this translator; py/dv/gen_midpoint.py compiles it over rose trees), but the
# statements of it that manipulate the object graph directly - the edge split - are: the maximal run of
# consecutive POINTER STATEMENTS of the method is compiled, statement by statement, with the machinery
# above, as the function  Tree_reroot_at_midpoint__edge_split  whose parameters are the variables the
# block reads before it assigns them (in order of first use in the source text) and whose result is
# the one local variable the block assigns.  Nothing about the number, the order or the shape of the
# statements of the block is checked here: an edit changes the generated function and breaks the
# proofs about it (Props/C03Gen.v midpoint_split_refines, Props/C07Gen.v).  gen_midpoint.py uses the
# same locator and emits ONE operation for the block, with the same parameters in the same order.
def _root_name(e):
    while isinstance(e, ast.Attribute):
        e = e.value
    return e.id if isinstance(e, ast.Name) else None


def is_node_ctor(v):
    return (isinstance(v, ast.Call) and isinstance(v.func, ast.Attribute) and v.func.attr == "Node"
            and isinstance(v.func.value, ast.Name) and v.func.value.id == "_node" and not v.args and not v.keywords)


def is_pointer_stmt(s):
    """a statement that reads / writes the object graph through a LOCAL variable (never through self):
    x.method(...) as a statement, x = _node.Node(), x.attr[.attr] = value"""
    if isinstance(s, ast.Expr) and isinstance(s.value, ast.Call) and isinstance(s.value.func, ast.Attribute):
        r = _root_name(s.value.func.value)
        return r is not None and r not in ("self", "warnings")
    if isinstance(s, ast.Assign) and len(s.targets) == 1:
        t = s.targets[0]
        if isinstance(t, ast.Name) and is_node_ctor(s.value):
            return True
        if isinstance(t, ast.Attribute):
            r = _root_name(t)
            return r is not None and r != "self"
    return False


def pointer_blocks(fn):
    """all maximal runs of consecutive pointer statements in the statement lists of fn"""
    runs = []

    def visit(stmts):
        cur = []
        for s in stmts:
            if is_pointer_stmt(s):
                cur.append(s)
            else:
                if cur:
                    runs.append(cur)
                cur = []
                for field in ("body", "orelse", "finalbody"):
                    sub = getattr(s, field, None)
                    if isinstance(sub, list) and sub and isinstance(sub[0], ast.stmt):
                        visit(sub)
                for h in getattr(s, "handlers", []) or []:
                    visit(h.body)
        if cur:
            runs.append(cur)
    visit(list(fn.body))
    return runs


def pointer_block(fn):
    """(statements, inputs [(name, 'node' | 'len')], output name) of THE pointer block of fn"""
    runs = pointer_blocks(fn)
    if len(runs) != 1:
        raise Unsupported("%s: %d pointer blocks (exactly one expected)" % (fn.name, len(runs)))
    block = runs[0]
    stored, inputs, lens, outs = set(), [], set(), []
    for s in block:
        names = sorted((n for n in ast.walk(s) if isinstance(n, ast.Name)), key=lambda n: (n.lineno, n.col_offset))
        if isinstance(s, ast.Assign) and isinstance(s.targets[0], ast.Attribute) and s.targets[0].attr == "length" \
                and isinstance(s.value, ast.Name):
            lens.add(s.value.id)
        for n in names:
            if isinstance(n.ctx, ast.Load) and n.id not in stored and n.id != "_node" and n.id not in inputs:
                inputs.append(n.id)
        for n in names:
            if isinstance(n.ctx, ast.Store):
                stored.add(n.id)
                if n.id not in outs:
                    outs.append(n.id)
    if len(outs) != 1:
        raise Unsupported("%s: the pointer block assigns %d local variables (one expected)" % (fn.name, len(outs)))
    if "self" in inputs:
        raise Unsupported("%s: the pointer block uses self" % fn.name)
    return block, [(n, "len" if n in lens else "node") for n in inputs], outs[0]


FRAGMENTS = [("Tree", "reroot_at_midpoint", "reroot_at_midpoint__edge_split")]


def fragment_def(cls, meth, name):
    """the pointer block of cls.meth as a FunctionDef of its own + the parameter types"""
    block, inputs, out = pointer_block(find_method(cls, meth))
    args = ast.arguments(posonlyargs=[], args=[ast.arg(arg="self")] + [ast.arg(arg=n) for n, _k in inputs], vararg=None,
                         kwonlyargs=[], kw_defaults=[], kwarg=None, defaults=[])
    fd = ast.FunctionDef(name=name, args=args, decorator_list=[],
                         body=list(block) + [ast.Return(value=ast.Name(id=out, ctx=ast.Load()))])
    return fd, {n: (LEN if k == "len" else NODE) for n, k in inputs}, [n for n, _k in inputs], out


def find_method(cls, name):
    found = [n for n in cls.body if isinstance(n, ast.FunctionDef) and n.name == name]
    if len(found) != 1:
        raise Unsupported("%s.%s: %d definitions" % (cls.name, name, len(found)))
    if found[0].decorator_list:
        raise Unsupported("%s.%s: decorated" % (cls.name, name))
    return found[0]


def identity_eq(cls):
    """def __eq__(self, other): return self is other"""
    f = find_method(cls, "__eq__")
    body = [s for s in f.body if not (isinstance(s, ast.Expr) and isinstance(s.value, ast.Constant))]
    want = ast.parse("return self is other").body[0]
    if len(body) != 1 or dump(body[0]) != dump(want):
        raise Unsupported("%s.__eq__ is not identity" % cls.name)


class Generator:
    def __init__(self, repo):
        self.repo = repo
        base = os.path.join(repo, "src", "dendropy", "datamodel")
        self.mods = {}
        for key, rel in (("Node", "treemodel/_node.py"), ("Tree", "treemodel/_tree.py"),
                         ("Edge", "treemodel/_edge.py"), ("base", "basemodel.py")):
            with open(os.path.join(base, rel)) as f:
                self.mods[key] = ast.parse(f.read())
        self.classes = {k: find_class(self.mods[k], k) for k in ("Node", "Edge", "Tree")}
        self.registry = {}
        self.props = {}
        for cname, c in self.classes.items():
            for n in c.body:
                if (isinstance(n, ast.Assign) and len(n.targets) == 1 and isinstance(n.targets[0], ast.Name)
                        and isinstance(n.value, ast.Call) and isinstance(n.value.func, ast.Name)
                        and n.value.func.id == "property"):
                    args = n.value.args
                    if not all(isinstance(a, ast.Name) for a in args) or n.value.keywords or not args:
                        continue
                    self.props[(cname, n.targets[0].id)] = (args[0].id, args[1].id if len(args) > 1 else None)

    def check_postorder_wrapper(self):
        """Tree.postorder_node_iter(filter_fn=None) is seed_node.postorder_iter(filter_fn=filter_fn)"""
        f = find_method(self.classes["Tree"], "postorder_node_iter")
        body = [x for x in f.body if not (isinstance(x, ast.Expr) and isinstance(x.value, ast.Constant))]
        want = ast.parse("return self.seed_node.postorder_iter(filter_fn=filter_fn)").body[0]
        if len(body) != 1 or dump(body[0]) != dump(want):
            raise Unsupported("Tree.postorder_node_iter is not the plain wrapper")

    def default_key(self, cls, meth, param, lam):
        """key=lambda nd: getattr(getattr(nd, 'taxon', None), 'label', ''): the taxon label, '' without taxon.
        Labels are compared as strings: label_rank maps a taxon to the rank (>= 1) of its label, '' ranks 0."""
        want = ast.parse("lambda nd: getattr(getattr(nd, 'taxon', None), 'label', '')", mode="eval").body
        if dump(lam) != dump(want):
            raise Unsupported("%s.%s: default of %s is not the taxon-label key" % (cls, meth, param))
        self.extra_defs.append(
            "(* default `%s` of %s.%s: %s *)\n"
            "Definition %s_%s__default_%s (label_rank : Z -> Z) (s : mst G) (nd : (mnode G)) : Z :=\n"
            "  (match rd_taxon G s nd with\n  | Some dv_x => label_rank dv_x\n  | None => 0\n  end)."
            % (param, cls, meth, ast.unparse(lam), cls, meth, param))

    def check_wrapper(self, name, stmt):
        f = find_method(self.classes["Tree"], name)
        body = [x for x in f.body if not (isinstance(x, ast.Expr) and isinstance(x.value, ast.Constant))]
        if len(body) != 1 or dump(body[0]) != dump(ast.parse(stmt).body[0]):
            raise Unsupported("Tree.%s is not the plain wrapper" % name)

    def coq_name(self, cls, name, spec):
        base = "%s_%s" % (cls, name)
        for k, v in sorted(spec.items()):
            base += "__%s_%s" % (k, "True" if v else "False")
        return base

    def register_externs(self):
        tree = self.classes["Tree"]
        self.extern_only = {}
        for meth, field, iface, ptypes in EXTERNS:
            f = find_method(tree, meth)
            a = f.args
            if a.vararg or a.kwarg or a.kwonlyargs or a.posonlyargs:
                raise Unsupported("Tree.%s: argument form" % meth)
            names = [x.arg for x in a.args]
            defaults = [None] * (len(names) - len(a.defaults)) + list(a.defaults)
            params = []
            for n, d in zip(names[1:], defaults[1:]):
                if n not in ptypes:
                    raise Unsupported("Tree.%s: parameter %s is not known to the interface" % (meth, n))
                if d is not None and not (isinstance(d, ast.Constant) and d.value in (None, True, False)):
                    raise Unsupported("Tree.%s: default of %s" % (meth, n))
                params.append((n, ptypes[n], d))
            if [n for n in iface if n not in [p[0] for p in params]]:
                raise Unsupported("Tree.%s: signature changed" % meth)
            ent = {"coq": field, "params": params, "kind": "extern", "ret": UNIT,
                   "spec": (), "rebinds_kids": True, "iface": iface}
            self.extern_only[("Tree", meth)] = ent
            if meth not in COMPILED_TOO:
                self.registry[("Tree", meth, ())] = ent
        # update_bipartitions(*args, **kwargs) is encode_bipartitions(*args, **kwargs)
        ub = find_method(tree, "update_bipartitions")
        body = [x for x in ub.body if not (isinstance(x, ast.Expr) and isinstance(x.value, ast.Constant))]
        want = ast.parse("self.encode_bipartitions(*args, **kwargs)").body[0]
        if not (len(body) == 1 and dump(body[0]) == dump(want) and ub.args.vararg and ub.args.vararg.arg == "args"
                and ub.args.kwarg and ub.args.kwarg.arg == "kwargs" and len(ub.args.args) == 1):
            raise Unsupported("Tree.update_bipartitions is not a plain delegation to encode_bipartitions")
        self.registry[("Tree", "update_bipartitions", ())] = self.registry[("Tree", "encode_bipartitions", ())]
        self.extern_only[("Tree", "update_bipartitions")] = self.extern_only[("Tree", "encode_bipartitions")]

    def run(self):
        mods = [self.mods["Node"], self.mods["Edge"], self.mods["base"]]
        check_always_truthy(mods, "Node")
        check_always_truthy(mods, "Edge")
        identity_eq(self.classes["Node"])
        with open(os.path.join(self.repo, "src", "dendropy", "datamodel", "taxonmodel.py")) as f:
            taxmod = ast.parse(f.read())
        check_always_truthy([taxmod, self.mods["base"]], "Taxon")
        identity_eq(find_class(taxmod, "Taxon"))
        out = ["(* GENERATED by py/dv/gen_mutators.py from datamodel/treemodel/_node.py, _edge.py, _tree.py",
               "   -- do not edit.  Meaning of the primitives: coq/Model/MutPrims.v *)",
               "From Coq Require Import ZArith List Bool.",
               "From DV Require Import Model.PyPrims Model.C15Prims Model.MutPrims.",
               "Import ListNotations.",
               "Open Scope Z_scope.",
               "",
               "Section Mutators.",
               "Variable G : mutgraph.",
               "(* x.taxon = v: not a field of the interface record; the definitions that assign taxa (shuffle_taxa)",
               "   are abstracted over it *)",
               "Variable wr_taxon : mnode G -> option Z -> mst G -> mst G.",
               ""]
        self.register_externs()
        for entry in PLAN:
            cls, meth, kind, ret, ptypes, spec = entry[:6]
            ltypes = entry[6] if len(entry) > 6 else None
            use_extern = entry[7] if len(entry) > 7 else ()
            fn = Fn(self, cls, find_method(self.classes[cls], meth), kind, ret, ptypes, spec, ltypes, use_extern)
            self.extra_defs = []
            text = fn.compile()
            for d in self.extra_defs:
                out.append(d)
                out.append("")
            key = (cls, meth, tuple(sorted((spec or {}).items())))
            self.registry[key] = {"coq": fn.name, "params": fn.params, "kind": kind, "ret": ret,
                                  "spec": tuple(sorted((spec or {}).items())), "rebinds_kids": fn.rebinds_kids,
                                  "needs_fuel": fn.needs_fuel, "implicit": list(fn.implicit)}
            out.append("(* %s.%s%s *)" % (cls, meth, (" with " + ", ".join("%s=%s" % kv for kv in spec.items())) if spec else ""))
            out.append(text)
            out.append("")
        for cname, meth, fname in FRAGMENTS:
            fd, ptypes, inputs, outv = fragment_def(self.classes[cname], meth, fname)
            fn = Fn(self, cname, fd, "eff", NODE, ptypes, None)
            self.extra_defs = []
            text = fn.compile()
            if self.extra_defs or fn.needs_fuel or fn.implicit:
                raise Unsupported("%s: fragment needs more than its inputs" % fn.name)
            out.append("(* the pointer block of %s.%s (source lines %d-%d), inputs in order of first use: %s; result: %s *)"
                       % (cname, meth, fd.body[0].lineno, fd.body[-2].end_lineno, ", ".join(inputs), outv))
            out.append(text)
            out.append("")
        out.append("End Mutators.")
        out.append("")
        return "\n".join(out)


def generate(repo):
    try:
        return Generator(repo).run()
    except Unsupported:
        raise
    except Exception as e:       # anything unexpected inside the compiler is a fail-closed condition too
        raise Unsupported("internal: %s: %s" % (type(e).__name__, e))


if __name__ == "__main__":
    import sys
    print(generate(sys.argv[1] if len(sys.argv) > 1 else "/repo"))
