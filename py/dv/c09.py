"""C09 - character matrices survive a round trip through NEXUS, PHYLIP, FASTA and NeXML.

Flow (see notes/AGENT_GUIDE.md):
  0. dump the library's state alphabets to coq/Model/C09Alphabets.v (write-if-changed)
  1. proof stage: coq/Props/C09.v and its cone
  2. correspondence, atomic cases, model evaluated inside Coq:
       write cases  matrix built by a construction route -> text (FASTA, PHYLIP) / tokens (NEXUS)
       read cases   text / tokens -> (labels, states) or the error class
     every write case is also read back by the implementation and judged by the oracle
     "same taxa in same order, same state sequence by symbol"
  3. oracle-only pipelines: NeXML, continuous, conversions through NeXML, data sets with 1-3
     namespaces under the block-title options.
"""
import io
import itertools
import json
import random
import time
import warnings

from dv import core
from dv import c09_alpha
from dv.core import cz, cbool, clist, copt

HEADER = ("From DV Require Import Model.PyPrims Model.C09AlphaTypes Model.C09Alphabets Model.C09Model "
          "Model.C09Nexus Model.C09Dataset Model.C09Cases.\n"
          "From Coq Require Import ZArith List. Import ListNotations. Open Scope Z_scope.")

DISCRETE = ["dna", "rna", "nucleotide", "protein", "standard", "restriction", "infinite"]
FIXED = ["dna", "rna", "nucleotide", "protein", "restriction", "infinite"]
DT_COQ = {"dna": "DtDna", "rna": "DtRna", "nucleotide": "DtNucleotide", "protein": "DtProtein",
          "standard": "DtStandard", "continuous": "DtContinuous", "restriction": "DtRestriction",
          "infinite": "DtInfinite"}
TABS = {}          # data type -> table dumped at start-up (before anything can extend an alphabet)
BASE_COUNTS = {}   # data type -> (n ambiguous, n polymorphic) of the global alphabet at start-up


def matrix_class(dt):
    import dendropy
    return {"dna": dendropy.DnaCharacterMatrix, "rna": dendropy.RnaCharacterMatrix,
            "nucleotide": dendropy.NucleotideCharacterMatrix, "protein": dendropy.ProteinCharacterMatrix,
            "standard": dendropy.StandardCharacterMatrix,
            "restriction": dendropy.RestrictionSitesCharacterMatrix,
            "infinite": dendropy.InfiniteSitesCharacterMatrix,
            "continuous": dendropy.ContinuousCharacterMatrix}[dt]


def init_tables():
    changed, tabs = c09_alpha.write()
    TABS.clear()
    TABS.update(tabs)
    for dt in FIXED:
        a = c09_alpha.alphabet_for(dt)
        BASE_COUNTS[dt] = (len(a._ambiguous_states), len(a._polymorphic_states))
    return changed


def restore_globals():
    """NexusReader adds symbol-less multistates to the *global* fixed alphabets; undo that so
    cases stay independent of each other (the effect itself is reported by the NeXML oracle case
    `polluted-alphabet`)."""
    for dt in FIXED:
        a = c09_alpha.alphabet_for(dt)
        na, np_ = BASE_COUNTS[dt]
        if len(a._ambiguous_states) != na or len(a._polymorphic_states) != np_:
            del a._ambiguous_states[na:]
            del a._polymorphic_states[np_:]
            a.compile_lookup_mappings()


# ----------------------------------------------------------------------------
# alphabets and matrix content as the model sees them
# ----------------------------------------------------------------------------

def fresh_ids(alpha):
    """synthetic index of every symbol-less multistate: 1000+k ambiguous, 2000+k polymorphic,
    k in creation order"""
    ids = {}
    k = 0
    for s in alpha._ambiguous_states:
        if not s.symbol:
            ids[id(s)] = 1000 + k
            k += 1
    k = 0
    for s in alpha._polymorphic_states:
        if not s.symbol:
            ids[id(s)] = 2000 + k
            k += 1
    return ids


def dump_alpha(alpha):
    """table of a live alphabet incl. symbol-less states (raw member_states)"""
    ids = fresh_ids(alpha)
    t = {"states": [], "full": [], "case_sensitive": bool(alpha._is_case_sensitive),
         "gap": None if alpha.gap_state is None else alpha.gap_state.index,
         "missing": None if alpha.no_data_state is None else alpha.no_data_state.index}
    fresh = []
    for s in alpha.state_iter():
        if id(s) in ids:
            fresh.append({"index": ids[id(s)], "symbol": "", "kind": c09_alpha.KIND[s.state_denomination],
                          "members": [m.index for m in s.member_states], "synonyms": []})
        else:
            members = [] if s.state_denomination == 0 else [m.index for m in s.fundamental_states]
            t["states"].append({"index": s.index, "symbol": s.symbol or "", "kind": c09_alpha.KIND[s.state_denomination],
                                "members": members, "synonyms": list(s.symbol_synonyms)})
    t["states"].extend(sorted(fresh, key=lambda x: x["index"]))
    for k, v in alpha.full_symbol_state_map.items():
        if k is not None:
            t["full"].append([k, v.index])
    return t


def coq_alpha(dt, t):
    if dt in TABS and t == TABS[dt]:
        return "alpha_%s" % dt
    return c09_alpha.coq_alphabet(t)


def content(m):
    """(label, [state index]) per row in the matrix's iteration order, by the matrix's default
    alphabet; symbols alongside for the oracle"""
    try:
        ids = fresh_ids(m.default_state_alphabet)
    except TypeError:      # several state alphabets and no default (a NeXML-read standard matrix)
        ids = {}
        for a in m.state_alphabets:
            ids.update(fresh_ids(a))
    rows, syms = [], []
    for t in m:
        cells = []
        for s in m[t]:
            if s is None:                    # a padded cell (NeXML rows that lost their columns)
                cells.append(-1)
            elif id(s) in ids:
                cells.append(ids[id(s)])
            else:
                cells.append(s.index)
        rows.append([t.label, cells])
        syms.append([t.label, [str(s) for s in m[t]]])
    return rows, syms


def ctext(s):
    return clist([cz(ord(c)) for c in s])


def cmatrix(rows):
    return clist(["(%s, %s)" % (ctext(l), clist([cz(i) for i in cells])) for l, cells in rows])


def cres(x, f):
    if isinstance(x, dict) and "err" in x:
        return "(Err %s)" % x["err"]
    return "(Ok %s)" % f(x)


def lowtab(labels):
    """str.lower for the labels that ASCII lowering does not cover"""
    out = []
    seen = set()
    for l in labels:
        if l is None or l in seen:
            continue
        seen.add(l)
        ascii_low = "".join(chr(ord(c) + 32) if "A" <= c <= "Z" else c for c in l)
        if l.lower() != ascii_low:
            out.append("(%s, %s)" % (ctext(l), ctext(l.lower())))
    return clist(out)


def label_variants(labels):
    out = []
    for l in labels:
        for v in (l, l.strip(), l.replace(" ", "_"), l.replace("_", " "), l[:10], l[:10].strip(),
                  l.replace(" ", "_")[:10], l.replace(" ", "_")[:10].replace("_", " ")):
            out.append(v)
    return out


# ----------------------------------------------------------------------------
# construction routes
# ----------------------------------------------------------------------------

def symbols_of(dt, cells):
    return "".join(TABS[dt]["states"][i]["symbol"] for i in cells)


def build_direct(dt, rows):
    m = matrix_class(dt)()
    alpha = m.default_state_alphabet
    for label, cells in rows:
        t = m.taxon_namespace.new_taxon(label=label)
        m[t] = [alpha[i] for i in cells]
    return m


def build_route(route):
    """returns (matrix, stages) ; stages = [(name, symbol content)] for the oracle"""
    import dendropy
    r = route["r"]
    dt = route["dt"]
    cls = matrix_class(dt)
    stages = []
    if r == "direct":
        m = build_direct(dt, route["rows"])
    elif r == "from_dict":
        d = {}
        for label, cells in route["rows"]:
            d[label] = symbols_of(dt, cells)
        m = cls.from_dict(d)
    elif r == "concat":
        tns = dendropy.TaxonNamespace()
        parts = []
        for k, rows in enumerate(route["parts"]):
            d = {}
            for label, cells in rows:
                d[label] = symbols_of(dt, cells)
            pm = cls.from_dict(d, taxon_namespace=tns)
            pm.label = "p%d" % k
            parts.append(pm)
        m = cls.concatenate(parts)
    elif r == "export":
        d = {}
        for label, cells in route["rows"]:
            d[label] = symbols_of(dt, cells)
        m0 = cls.from_dict(d)
        m = m0.export_character_indices(route["indices"])
    elif r == "parse":
        inner, st = build_route(route["inner"])
        stages.extend(st)
        stages.append(("before-%s" % route["fmt"], content(inner)[1]))
        text = inner.as_string(route["fmt"], **route.get("wkw", {}))
        m = cls.get(data=text, schema=route["fmt"], **route.get("rkw", {}))
        stages.append(("after-%s" % route["fmt"], content(m)[1]))
    elif r == "text":
        m = cls.get(data=route["text"], schema=route["fmt"], **route.get("rkw", {}))
    else:
        raise ValueError(r)
    return m, stages


# ----------------------------------------------------------------------------
# NEXUS tokens
# ----------------------------------------------------------------------------

def tokenize(text):
    from dendropy.dataio import nexusprocessing
    t = nexusprocessing.NexusTokenizer(io.StringIO(text))
    t.set_capture_eol(True)
    return [tok for tok in t]


def split_blocks(tokens):
    """[(block name upper, tokens from BEGIN to the ';' after END, plus the ends of line up to the next BEGIN)]"""
    blocks = []
    i = 0
    n = len(tokens)
    while i < n:
        if tokens[i].upper() == "BEGIN":
            j = i + 1
            while j < n and tokens[j] in ("\n", "\r"):
                j += 1
            name = tokens[j].upper() if j < n else ""
            k = j
            while k < n and tokens[k].upper() not in ("END", "ENDBLOCK"):
                k += 1
            while k < n and tokens[k] != ";":
                k += 1
            k += 1
            while k < n and tokens[k] in ("\n", "\r"):
                k += 1
            blocks.append((name, tokens[i:k]))
            i = k
        else:
            i += 1
    return blocks


def ctoks(tokens):
    return clist([ctext(t) for t in tokens])


# ----------------------------------------------------------------------------
# observation of one case
# ----------------------------------------------------------------------------

def err_of(e):
    return {"err": core.exc_enum(e)}


def phylip_rkw(ro):
    return {"strict": ro["strict"], "interleaved": ro["interleaved"],
            "multispace_delimiter": ro["multispace"], "underscores_to_spaces": ro["u2s"]}


def read_back(dt, fmt, text, rkw):
    try:
        m = matrix_class(dt).get(data=text, schema=fmt, **rkw)
    except Exception as e:
        return err_of(e)
    rows, syms = content(m)
    return {"rows": rows, "syms": syms, "ns": [t.label for t in m.taxon_namespace]}


def sym_order_of(m):
    """iteration order of the set NexusWriter._compose_format_terms builds (hash dependent)"""
    fundamental_symbols = set()
    for sa in m.state_alphabets:
        for s in sa.fundamental_state_iter():
            fundamental_symbols.add(s.symbol)
    return list(fundamental_symbols)


def observe(case):
    warnings.simplefilter("ignore")
    try:
        return _observe(case)
    finally:
        restore_globals()


def _observe(case):
    kind = case["kind"]
    if kind == "dsread":
        return observe_dsread(case)
    if kind == "titles":
        return observe_titles(case)
    dt = case["dt"]
    if kind == "write":
        try:
            m, stages = build_route(case["route"])
        except Exception as e:
            return {"route_err": core.exc_enum(e), "msg": str(e)[:200]}
        rows, syms = content(m)
        obs = {"rows": rows, "syms": syms, "stages": stages, "alpha": dump_alpha(m.default_state_alphabet),
               "nalpha": [dump_alpha(a) for a in m.state_alphabets]}
        fmt = case["fmt"]
        try:
            text = m.as_string(fmt, **case.get("wkw", {}))
        except Exception as e:
            obs["text"] = err_of(e)
            return obs
        obs["text"] = text
        if fmt == "nexus":
            toks = tokenize(text)
            blocks = split_blocks(toks)
            cb = [b for n, b in blocks if n in ("CHARACTERS", "DATA")]
            obs["tokens"] = cb[0] if cb else []
            obs["sym_order"] = sym_order_of(m) if dt in ("standard", "restriction", "infinite") else []
        obs["back"] = read_back(case.get("read_dt", dt), fmt, text, case.get("rkw", {}))
        if fmt == "nexus" and dt in ("restriction", "infinite"):
            obs["back_as_standard"] = read_back("standard", fmt, text, case.get("rkw", {}))
        return obs
    if kind == "read":
        if "from" in case:
            m, _st = build_route(case["from"]["route"])
            text = m.as_string(case["fmt"], **case["from"].get("wkw", {}))
        else:
            text = case["text"]
        obs = {"text": text}
        fmt = case["fmt"]
        if fmt in ("fasta", "phylip"):
            obs["parsed"] = read_back(dt, fmt, text, case.get("rkw", {}))
            return obs
        # nexus: the CHARACTERS/DATA block as tokens, the namespace from the TAXA block
        toks = tokenize(text)
        blocks = split_blocks(toks)
        taxa = [b for n, b in blocks if n == "TAXA"]
        cb = [b for n, b in blocks if n in ("CHARACTERS", "DATA")]
        ns, ntax = [], None
        if taxa:
            tb = [t for t in taxa[0] if t not in ("\n", "\r")]
            up = [t.upper() for t in tb]
            if "NTAX" in up:
                ntax = int(tb[up.index("NTAX") + 2])
            if "TAXLABELS" in up:
                i = up.index("TAXLABELS") + 1
                while tb[i] != ";":
                    ns.append(tb[i])
                    i += 1
        obs["ns0"] = ns
        obs["ntax0"] = ntax
        obs["tokens"] = cb[0] if cb else []
        import dendropy
        try:
            ds = dendropy.DataSet.get(data=text, schema="nexus", **case.get("rkw", {}))
        except Exception as e:
            obs["parsed"] = err_of(e)
            return obs
        res = []
        for m in ds.char_matrices:
            rows, syms = content(m)
            a = m.default_state_alphabet
            ids = fresh_ids(a)
            fresh = sorted([[ids[id(s)], [x.index for x in s.member_states]] for s in a.state_iter() if id(s) in ids])
            res.append({"dt": m.data_type, "rows": rows, "syms": syms, "ns": [t.label for t in m.taxon_namespace],
                        "fresh": fresh, "title": m.label})
        obs["parsed"] = res
        return obs
    raise ValueError(kind)


# ----------------------------------------------------------------------------
# Coq terms
# ----------------------------------------------------------------------------

def c_pw(wkw):
    return "(mkPW %s %s)" % (cbool(wkw.get("strict", False)), cbool(wkw.get("spaces_to_underscores", False)))


def c_pr(rkw):
    return "(mkPR %s %s %s %s)" % (cbool(rkw.get("strict", False)), cbool(rkw.get("interleaved", False)),
                                   cbool(rkw.get("multispace_delimiter", False)),
                                   cbool(rkw.get("underscores_to_spaces", False)))


TRIVIAL = "(FastaWrite alpha_dna true 70 [] [])"     # a case the harness could not express (counted)


def nexus_link_of(tokens):
    link = None
    tk = [t for t in tokens if t not in ("\n", "\r")]
    up = [t.upper() for t in tk]
    if "LINK" in up:
        i = up.index("LINK") + 1
        while i + 2 < len(tk) and tk[i] != ";":
            if up[i] == "TAXA" and tk[i + 1] == "=":
                link = tk[i + 2]
            i += 1
    return link


def to_coq(case, obs):
    if case["kind"] == "dsread":
        p = obs["parsed"]
        if isinstance(p, dict):
            return TRIVIAL        # the document as a whole is not readable: judged by the data-set pipeline oracle
        link = nexus_link_of(obs["tokens"])
        tab = clist(["(%s, %s)" % (copt(t, ctext), clist([ctext(l) for l in labs])) for t, labs in obs["tab"]])
        labs = label_variants([l for _t, ls in obs["tab"] for l in ls])
        cobs = clist(["(mkNO %s %s %s [] %s %s)" % (DT_COQ[b["dt"]], cmatrix(b["rows"]), clist([ctext(l) for l in b["ns"]]),
                                                    copt(b["title"], ctext), copt(link, ctext)) for b in p])
        return "(NexusReadIn %s %s (nx_init [] %s false) %s (Ok %s))" % (lowtab(labs), tab, copt(obs["ntax0"], cz), ctoks(obs["tokens"]), cobs)
    if case["kind"] == "titles":
        if not obs["linked"]:
            return TRIVIAL
        et = clist(["(%s, %s)" % (ctext(k), ctext(v)) for k, v in obs["esc"]])
        return "(TitleAssign %s %s (Ok %s))" % (et, ctoks(obs["labels"]), ctoks(obs["titles"]))
    kind, dt, fmt = case["kind"], case["dt"], case["fmt"]
    if kind == "write":
        if "route_err" in obs:
            return TRIVIAL
        a = coq_alpha(dt, obs["alpha"])
        m = cmatrix(obs["rows"])
        if fmt == "fasta":
            wkw = case.get("wkw", {})
            if isinstance(obs["text"], dict):
                return TRIVIAL
            return "(FastaWrite %s %s %s %s %s)" % (a, cbool(wkw.get("wrap", True)), cz(wkw.get("wrap_width", 70)),
                                                    m, ctext(obs["text"]))
        if fmt == "phylip":
            return "(PhylipWrite %s %s %s %s)" % (a, c_pw(case.get("wkw", {})), m, cres(obs["text"], ctext))
        if fmt == "nexus":
            wkw = case.get("wkw", {})
            al = clist([coq_alpha(dt, t) for t in obs["nalpha"]])
            exp = obs["text"] if isinstance(obs["text"], dict) else obs["tokens"]
            return "(NexusWrite %s %s %s (mkNW %s None None) %s %s)" % (
                DT_COQ[dt], al, clist([ctext(s) for s in obs.get("sym_order", [])]),
                cbool(wkw.get("simple", False)), m, cres(exp, ctoks))
    if kind == "read":
        p = obs["parsed"]
        if fmt == "fasta":
            labs = label_variants([l.strip()[1:] for l in obs["text"].split("\n") if l.strip().startswith(">")])
            return "(FastaRead %s %s %s %s)" % (lowtab(labs), "alpha_%s" % dt, ctext(obs["text"]),
                                                cres(p, lambda x: cmatrix(x["rows"])))
        if fmt == "phylip":
            labs = label_variants(case.get("labels", []) + ([r[0] for r in p["rows"]] if "rows" in p else []))
            return "(PhylipRead %s %s %s %s %s)" % (lowtab(labs), "alpha_%s" % dt, c_pr(case.get("rkw", {})),
                                                    ctext(obs["text"]), cres(p, lambda x: cmatrix(x["rows"])))
        if fmt == "nexus":
            if len(set(l.lower() for l in obs["ns0"])) != len(obs["ns0"]):
                return TRIVIAL      # TAXLABELS with repeated labels: the TAXA block is not modelled here (C02)
            labs = label_variants(obs["ns0"] + [t for t in obs["tokens"]])
            st = "(nx_init %s %s %s)" % (clist([ctext(l) for l in obs["ns0"]]), copt(obs["ntax0"], cz),
                                         cbool(case.get("rkw", {}).get("case_sensitive_taxon_labels", False)))

            link = None
            tk = [t for t in obs["tokens"] if t not in ("\n", "\r")]
            up = [t.upper() for t in tk]
            if "LINK" in up:
                i = up.index("LINK") + 1
                while i + 2 < len(tk) and tk[i] != ";":
                    if up[i] == "TAXA" and tk[i + 1] == "=":
                        link = tk[i + 2]
                    i += 1

            def cobs(x):
                return clist(["(mkNO %s %s %s %s %s %s)" % (
                    DT_COQ[b["dt"]], cmatrix(b["rows"]), clist([ctext(l) for l in b["ns"]]),
                    clist(["(%s, %s)" % (cz(i), clist([cz(y) for y in ms])) for i, ms in b["fresh"]]),
                    copt(b["title"], ctext), copt(link, ctext)) for b in x])
            return "(NexusRead %s %s %s %s)" % (lowtab(labs), st, ctoks(obs["tokens"]), cres(p, cobs))
    raise ValueError((kind, fmt))


# ----------------------------------------------------------------------------
# generators
# ----------------------------------------------------------------------------

SAFE = ["a", "b", "c1", "t2", "Homo", "Pan", "x.y", "Zea-m", "q7", "exactly10c", "E", "s|t", "k#1", "été",
        "naïve", "W", "w2", "m+n", "d", "seq00001", "SEQ00002", "u", "v", "r2d2"]
SPACED = ["Homo sapiens", "Pan t", "a b c", "x y", "Mus m.", "g h"]
UNDERSCORED = ["Homo_sapiens", "a_b", "x_1", "t_"]
LONG = ["longlabel11", "a_very_long_taxon_label", "Pan troglodytes verus", "abcdefghijk", "abcdefghijK2"]
ODD = [" lead", "trail ", "two  spaces", "tab\tlab", "A", "a", "B", "b", "it's", ">gt", "x;y", "p[q]", "(r)", "c,d",
       "e=f", "g:h", "i\\j", "vt\x0bx", "nb sp", "1", "12", "dup", "dup", "abcdefghij1", "abcdefghij2", "_u", "u_",
       "İx", "ÉTÉ", "sp em", "semi;", "'q'", "\"dq\""]
NEXUS_SAFE = SAFE + SPACED + ["it's", "c,d", "p[q]", "(r)", "e=f", "g:h", "x;y", "i\\j", "tab\tlab", "two  spaces"]


def pick_labels(rng, n, mode):
    """mode: safe | spaced | long | odd | nexus"""
    pool = {"safe": SAFE, "spaced": SAFE + SPACED, "under": SAFE + UNDERSCORED, "long": SAFE + SPACED + LONG,
            "odd": SAFE + SPACED + UNDERSCORED + LONG + ODD, "nexus": NEXUS_SAFE}[mode]
    if mode == "odd":
        return [rng.choice(pool) for _ in range(n)]
    # distinct up to str.lower
    out, seen = [], set()
    cand = list(pool)
    rng.shuffle(cand)
    for l in cand:
        if l.lower() not in seen:
            out.append(l)
            seen.add(l.lower())
        if len(out) == n:
            break
    k = 0
    while len(out) < n:
        l = "z%d" % k
        k += 1
        if l not in seen:
            out.append(l)
            seen.add(l)
    return out


def gen_rows(rng, dt, ntax, nchar, mode, ragged=False):
    nst = len(TABS[dt]["states"])
    labels = pick_labels(rng, ntax, mode)
    rows = []
    full = list(range(nst))
    for i, l in enumerate(labels):
        n = nchar if not ragged else rng.randint(0, nchar)
        if i == 0 and n >= nst and rng.random() < 0.5:
            cells = full + [rng.randrange(nst) for _ in range(n - nst)]    # every symbol of the type
        else:
            cells = [rng.randrange(nst) for _ in range(n)]
        rows.append([l, cells])
    return rows


def gen_dims(rng, tier):
    r = rng.random()
    if r < 0.12:
        return 1, rng.randint(1, 30)
    if r < 0.24:
        return rng.randint(1, 8), 1
    if r < 0.30:
        return rng.randint(1, 8), rng.choice([69, 70, 71, 140, 141]) if tier == "thorough" or rng.random() < 0.3 else 30
    return rng.randint(1, 8), rng.randint(1, 30)


def gen_route(rng, dt, rows, allow_parse=True):
    r = rng.random()
    distinct = len(set(l.lower() for l, _ in rows)) == len(rows)
    rect = len(set(len(c) for _, c in rows)) == 1
    if not distinct:
        return {"r": "direct", "dt": dt, "rows": rows}
    if r < 0.35:
        return {"r": "from_dict", "dt": dt, "rows": rows}
    if r < 0.45:
        return {"r": "direct", "dt": dt, "rows": rows}
    if r < 0.55 and rect and len(rows[0][1]) >= 2:
        k = rng.randint(1, len(rows[0][1]) - 1)
        return {"r": "concat", "dt": dt, "parts": [[[l, c[:k]] for l, c in rows], [[l, c[k:]] for l, c in rows]]}
    if r < 0.65 and rect:
        n = len(rows[0][1])
        extra = rng.randint(0, 3)
        # a wider matrix from which the wanted columns are exported
        nst = len(TABS[dt]["states"])
        wide, idx = [], sorted(rng.sample(range(n + extra), n))
        for l, c in rows:
            w = [rng.randrange(nst) for _ in range(n + extra)]
            for j, col in enumerate(idx):
                w[col] = c[j]
            wide.append([l, w])
        return {"r": "export", "dt": dt, "rows": wide, "indices": idx}
    if allow_parse and rect and len(rows[0][1]) >= 1:
        fmt = rng.choice(["fasta", "phylip", "nexus", "nexml"])
        labels = [l for l, _ in rows]
        if fmt == "nexml" and dt in ("nucleotide", "infinite"):
            fmt = "fasta"
        if fmt == "nexus" and dt in ("restriction", "infinite"):
            fmt = "fasta"
        wkw, rkw = {}, {}
        if fmt == "phylip":
            wkw, rkw = phylip_variant(rng, labels)
            if wkw is None:
                fmt, wkw, rkw = "fasta", {}, {}
        if fmt == "fasta" and not all(fasta_label_ok(l) for l in labels):
            return {"r": "from_dict", "dt": dt, "rows": rows}
        if fmt == "nexus" and not all(nexus_label_ok(l) for l in labels):
            return {"r": "from_dict", "dt": dt, "rows": rows}
        if fmt == "nexml" and not all(nexml_label_ok(l) for l in labels):
            return {"r": "from_dict", "dt": dt, "rows": rows}
        return {"r": "parse", "dt": dt, "fmt": fmt, "wkw": wkw, "rkw": rkw,
                "inner": {"r": "from_dict", "dt": dt, "rows": rows}}
    return {"r": "from_dict", "dt": dt, "rows": rows}


# ---- admissibility of labels (the boolean predicates of the theorems, in Python) ----

def fasta_label_ok(l):
    return l.strip() == l and "\n" not in l


def phylip_labels_ok(labels, wkw, rkw):
    strict = wkw.get("strict", False)
    if strict != rkw.get("strict", False):
        return False
    out = []
    for l in labels:
        c = l.replace(" ", "_") if wkw.get("spaces_to_underscores") else l
        if c == "" or c.strip() != c or "\n" in c or "\r" in c:
            return False
        if strict:
            if len(c) > 10:
                return False
        elif rkw.get("multispace_delimiter"):
            if any(c[i] in " \t" and c[i + 1] in " \t" for i in range(len(c) - 1)):
                return False
        else:
            if " " in c or "\t" in c:
                return False
        back = c.replace("_", " ") if rkw.get("underscores_to_spaces") else c
        if back != l:
            return False
        out.append(c)
    return len(set(out)) == len(out) and len(set(l.lower() for l in labels)) == len(labels)


def nexus_label_ok(l):
    """labels the NEXUS token layer (property C02) re-reads: non-empty, no surrounding whitespace,
    no line break, not a single structural character"""
    return l != "" and l.strip() == l and "\n" not in l and "\r" not in l and l not in list("(),:;[]=")


def nexml_label_ok(l):
    """what an XML 1.0 attribute value can carry besides the NEXUS rule: no control characters"""
    return nexus_label_ok(l) and all(ord(c) >= 32 for c in l)


def phylip_variant(rng, labels):
    """a writer/reader option pair under which `labels` are admissible, or (None, None)"""
    cands = []
    for strict in (False, True):
        for s2u, u2s in ((False, False), (True, True), (True, False), (False, True)):
            for multi in (False, True):
                for inter in (False, True):
                    wkw = {"strict": strict, "spaces_to_underscores": s2u}
                    rkw = {"strict": strict, "interleaved": inter, "multispace_delimiter": multi,
                           "underscores_to_spaces": u2s}
                    if phylip_labels_ok(labels, wkw, rkw):
                        cands.append((wkw, rkw))
    if not cands:
        return None, None
    return rng.choice(cands)


def all_phylip_variants():
    for strict in (False, True):
        for s2u in (False, True):
            for multi in (False, True):
                for inter in (False, True):
                    for u2s in (False, True):
                        yield ({"strict": strict, "spaces_to_underscores": s2u},
                               {"strict": strict, "interleaved": inter, "multispace_delimiter": multi,
                                "underscores_to_spaces": u2s})


def gen_write_case(rng, tier, fmt=None, dt=None):
    dt = dt or rng.choice(DISCRETE)
    fmt = fmt or rng.choice(["fasta", "phylip", "nexus"])
    ntax, nchar = gen_dims(rng, tier)
    admissible = rng.random() < 0.8
    wkw, rkw = {}, {}
    if fmt == "fasta":
        mode = rng.choice(["safe", "spaced", "long"]) if admissible else "odd"
        rows = gen_rows(rng, dt, ntax, nchar, mode, ragged=(rng.random() < 0.1))
        if rng.random() < 0.5:
            wkw = {"wrap": rng.random() < 0.7, "wrap_width": rng.choice([1, 2, 3, 7, 10, 70, 0])}
    elif fmt == "phylip":
        mode = rng.choice(["safe", "spaced", "under", "long"]) if admissible else "odd"
        rows = gen_rows(rng, dt, ntax, nchar, mode, ragged=(rng.random() < 0.06))
        labels = [l for l, _ in rows]
        if admissible:
            wkw, rkw = phylip_variant(rng, labels)
            if wkw is None:
                wkw, rkw = rng.choice(list(all_phylip_variants()))
        else:
            wkw, rkw = rng.choice(list(all_phylip_variants()))
            if rng.random() < 0.2:
                rkw = dict(rkw, strict=not rkw["strict"])
    else:
        mode = "nexus" if admissible else "odd"
        rows = gen_rows(rng, dt, ntax, nchar, mode, ragged=(rng.random() < 0.05))
        wkw = {"simple": True} if rng.random() < 0.3 else {}
    route = gen_route(rng, dt, rows)
    if fmt == "nexus" and admissible and dt in ("dna", "rna", "protein", "standard") and rng.random() < 0.12 \
            and len(set(len(c) for _, c in rows)) == 1:
        # a matrix parsed from NEXUS text with multistate groups that have no predefined symbol
        st = TABS[dt]["states"]
        fund = [x["symbol"] for x in st if x["kind"] == "Fundamental" and x["symbol"] != "-"]
        lines = []
        labs = ["'%s'" % l.replace("'", "''") for l, _ in rows]
        for (l, cells), lab in zip(rows, labs):
            seg = ""
            for i in cells:
                if rng.random() < 0.25:
                    a_, b_ = rng.sample(fund, 2)
                    seg += rng.choice(["(%s%s)", "(%s,%s)", "{%s%s}"]) % (a_, b_)
                else:
                    seg += st[i]["symbol"]
            lines.append("  %s  %s" % (lab, seg))
        dk = {"dna": "DNA", "rna": "RNA", "protein": "PROTEIN", "standard": "STANDARD"}[dt]
        text = "#NEXUS\nBEGIN DATA;\n DIMENSIONS NTAX=%d NCHAR=%d;\n FORMAT DATATYPE=%s GAP=- MISSING=?;\n MATRIX\n%s\n ;\nEND;\n" % (
            len(rows), len(rows[0][1]), dk, "\n".join(lines))
        route = {"r": "text", "dt": dt, "fmt": "nexus", "text": text, "rows": rows}
    case = {"kind": "write", "dt": dt, "fmt": fmt, "route": route, "wkw": wkw, "rkw": rkw}
    if fmt == "nexus" and dt in ("restriction", "infinite"):
        case["read_dt"] = dt      # reading back "as the same data type"
    return case


def read_case_from(wcase, rng=None, rkw=None):
    c = {"kind": "read", "dt": wcase["dt"], "fmt": wcase["fmt"],
         "from": {"route": wcase["route"], "wkw": wcase.get("wkw", {})},
         "rkw": wcase.get("rkw", {}) if rkw is None else rkw,
         "labels": [l for l, _ in route_rows(wcase["route"])]}
    return c


def route_rows(route):
    if "rows" in route:
        return route["rows"]
    if "parts" in route:
        return route["parts"][0]
    if "inner" in route:
        return route_rows(route["inner"])
    return []


# ---- hand-made texts: interleaved layouts, lower case, blanks, errors ----

def phylip_text(rng, dt, rows, strict, interleaved, sep="  ", lower=False, pages=None, blank_lines=False,
                inner_blanks=False):
    ntax = len(rows)
    nchar = len(rows[0][1])
    strs = [symbols_of(dt, c) for _, c in rows]
    if lower:
        strs = [s.lower() for s in strs]
    labs = [l for l, _ in rows]
    if strict:
        labs = [l[:10].ljust(10) for l in labs]
        sep = ""
    else:
        w = max(len(l) for l in labs)
        labs = [l.ljust(w) for l in labs]

    def chunk(s):
        if inner_blanks and len(s) > 3:
            k = rng.randint(1, len(s) - 1)
            return s[:k] + " " + s[k:]
        return s
    lines = ["%d %d" % (ntax, nchar)]
    if not interleaved:
        for l, s in zip(labs, strs):
            if pages and len(s) > 2:
                k = rng.randint(1, len(s) - 1)
                lines.append(l + sep + chunk(s[:k]))
                lines.append("   " + chunk(s[k:]))
            else:
                lines.append(l + sep + chunk(s))
            if blank_lines:
                lines.append("")
    else:
        cuts = sorted(set([0, nchar] + ([rng.randint(1, nchar - 1) for _ in range(pages or 0)] if nchar > 1 else [])))
        for pi in range(len(cuts) - 1):
            for l, s in zip(labs, strs):
                seg = chunk(s[cuts[pi]:cuts[pi + 1]])
                lines.append((l + sep + seg) if pi == 0 else seg)
            if blank_lines or rng.random() < 0.5:
                lines.append("")
    return "\n".join(lines) + "\n"


def nexus_text(rng, dt, rows, interleave=False, pages=1, multistate=False, matchchar=False, lower=False,
               simple=True, datatype_kw=None):
    """a NEXUS file written by the harness (not by the library): interleaved pages, multistate
    tokens, match characters, lower-case symbols"""
    ntax = len(rows)
    nchar = len(rows[0][1])
    st = TABS[dt]["states"]

    def cell(i, rowi, col):
        s = st[i]
        if matchchar and rowi > 0 and rows[0][1][col] == i and rng.random() < 0.7:
            return "."
        if multistate and s["kind"] != "Fundamental" and rng.random() < 0.6 and s["members"]:
            ms = [st[m]["symbol"] for m in s["members"]]
            if rng.random() < 0.5:
                rng.shuffle(ms)
            return "{" + (",".join(ms) if rng.random() < 0.4 else "".join(ms)) + "}"
        sym = s["symbol"]
        return sym.lower() if lower and rng.random() < 0.5 else sym
    dtk = datatype_kw or {"dna": "DNA", "rna": "RNA", "nucleotide": "NUCLEOTIDE", "protein": "PROTEIN",
                          "standard": "STANDARD", "restriction": "STANDARD", "infinite": "STANDARD"}[dt]
    fmt = "DATATYPE=%s" % dtk
    if dt in ("standard", "restriction", "infinite"):
        fs = "".join(s["symbol"] for s in st if s["kind"] == "Fundamental" and s["symbol"] != "-")
        fmt += ' SYMBOLS="%s"' % (fs if rng.random() < 0.5 else " ".join(fs))
    fmt += " GAP=- MISSING=?"
    if interleave:
        fmt += rng.choice([" INTERLEAVE", " INTERLEAVE=YES", " interleave"])
    labs = ["'%s'" % l.replace("'", "''") if not l.replace(".", "").isalnum() else l for l, _ in rows]
    w = max(len(l) for l in labs)
    out = ["#NEXUS", ""]
    if simple:
        out += ["BEGIN DATA;", "  DIMENSIONS NTAX=%d NCHAR=%d;" % (ntax, nchar)]
    else:
        titled = rng.random() < 0.35
        out += ["BEGIN TAXA;"] + (["  TITLE the_taxa;"] if titled else []) + ["  DIMENSIONS NTAX=%d;" % ntax, "  TAXLABELS " + " ".join(labs) + ";", "END;", "",
                "BEGIN CHARACTERS;"]
        if titled:
            out += ["  TITLE " + rng.choice(["chars1", "'my chars'"]) + ";",
                    rng.choice(["  LINK TAXA = the_taxa;", "  link taxa = The_Taxa;", "  LINK CHARACTERS = zzz TAXA = the_taxa;"])]
        out += ["  DIMENSIONS NCHAR=%d;" % nchar]
    out += ["  FORMAT %s;" % fmt, "  MATRIX"]
    cuts = [0, nchar]
    if interleave and nchar > 1:
        cuts = sorted(set([0, nchar] + [rng.randint(1, nchar - 1) for _ in range(pages)]))
    for pi in range(len(cuts) - 1):
        for ri, (l, c) in enumerate(rows):
            seg = "".join(cell(c[j], ri, j) for j in range(cuts[pi], cuts[pi + 1]))
            if not interleave and len(seg) > 4 and rng.random() < 0.3:
                k = rng.randint(1, len(seg) - 1)
                if "{" not in seg and "(" not in seg:
                    seg = seg[:k] + (" " if rng.random() < 0.5 else "\n      ") + seg[k:]
            out.append("    %s  %s" % (labs[ri].ljust(w), seg))
        if interleave:
            out.append("")
    out += ["  ;", "END;", ""]
    return "\n".join(out)


def gen_text_read_case(rng, tier):
    dt = rng.choice(DISCRETE)
    fmt = rng.choice(["fasta", "phylip", "phylip", "nexus", "nexus"])
    ntax, nchar = gen_dims(rng, tier)
    if fmt == "fasta":
        fmode = rng.choice(["safe", "spaced", "odd"])
        rows = gen_rows(rng, dt, ntax, nchar, fmode)
        lines = []
        for l, c in rows:
            s = symbols_of(dt, c)
            if rng.random() < 0.4:
                s = s.lower()
            lines.append((">" if rng.random() < 0.95 else "> ") + l + ("  " if rng.random() < 0.1 else ""))
            w = rng.choice([3, 5, 60])
            for i in range(0, max(len(s), 1), w):
                seg = s[i:i + w]
                if rng.random() < 0.15 and len(seg) > 1:
                    seg = seg[:1] + " " + seg[1:]
                lines.append(("  " if rng.random() < 0.1 else "") + seg)
            if rng.random() < 0.5:
                lines.append("")
        k = rng.random()
        if k < 0.06 and lines:
            lines.insert(0, "ACGT")                      # sequence before any name
        elif k < 0.12 and len(lines) > 1:
            lines[1] = lines[1] + "!"                    # unknown symbol
        elif k < 0.18:
            lines.append(">" + rows[0][0].upper())       # repeated name (case-insensitively)
        elif k < 0.24:
            lines.append(">lastempty")
        elif k < 0.30 and len(rows) > 1:
            lines.insert(0, ">firstempty")
        c = {"kind": "read", "dt": dt, "fmt": "fasta", "text": "\n".join(lines) + ("\n" if rng.random() < 0.8 else ""),
             "labels": [l for l, _ in rows]}
        if k >= 0.30 and fmode != "odd":
            c["intent"] = rows
            c["layout"] = "wrapped-lines"
        return c
    if fmt == "phylip":
        strict = rng.random() < 0.5
        inter = rng.random() < 0.5
        multi = rng.random() < 0.5
        mode = "safe" if rng.random() < 0.6 else rng.choice(["spaced", "long", "odd"])
        rows = gen_rows(rng, dt, ntax, nchar, mode)
        sep = rng.choice(["  ", " ", "\t", "   "])
        text = phylip_text(rng, dt, rows, strict, inter, sep=sep,
                           lower=rng.random() < 0.3, pages=rng.choice([0, 1, 2, 3]),
                           blank_lines=rng.random() < 0.3, inner_blanks=rng.random() < 0.3)
        k = rng.random()
        lines = text.split("\n")
        if k < 0.05:
            lines[0] = "%d %d" % (ntax + 1, nchar)        # one taxon too few
        elif k < 0.10 and ntax > 1:
            lines[0] = "%d %d" % (ntax - 1, nchar)        # one taxon too many
        elif k < 0.14:
            lines[0] = "  %d   %d  " % (ntax, nchar)
        elif k < 0.17:
            lines[0] = "%d,%d" % (ntax, nchar)
        elif k < 0.21 and len(lines) > 2:
            lines[1] = lines[1] + "!"
        elif k < 0.25:
            lines[0] = "%d %d" % (ntax, nchar + 1)        # short rows (F14 territory: reader behaviour only)
        elif k < 0.28:
            lines = lines[:2]
        elif k < 0.30:
            lines[0] = "0 %d" % nchar
        text = "\n".join(lines)
        if rng.random() < 0.15:
            text = text.replace("\n", "\r\n")
        c = {"kind": "read", "dt": dt, "fmt": "phylip", "text": text, "labels": [l for l, _ in rows],
             "rkw": {"strict": strict, "interleaved": inter, "multispace_delimiter": multi,
                     "underscores_to_spaces": rng.random() < 0.2}}
        if k >= 0.30 and mode == "safe" and (strict or not multi or len(sep) >= 2):
            c["intent"] = rows
            c["layout"] = "%s-%s" % ("strict" if strict else "relaxed", "interleaved" if inter else "sequential")
        return c
    # nexus
    mode = "nexus" if rng.random() < 0.8 else "safe"
    rows = gen_rows(rng, dt, ntax, nchar, mode)
    inter = rng.random() < 0.5
    text = nexus_text(rng, dt, rows, interleave=inter, pages=rng.choice([1, 2, 3]), multistate=rng.random() < 0.4,
                      matchchar=rng.random() < 0.25, lower=rng.random() < 0.3, simple=rng.random() < 0.6)
    k = rng.random()
    if k < 0.05:
        text = text.replace("NCHAR=%d" % nchar, "NCHAR=%d" % (nchar + 1))
    elif k < 0.10 and nchar > 1:
        text = text.replace("NCHAR=%d" % nchar, "NCHAR=%d" % (nchar - 1))
    elif k < 0.13:
        text = text.replace("MATRIX", "MATRIX\n    extra_taxon  " + symbols_of(dt, rows[0][1]), 1)
    c = {"kind": "read", "dt": dt, "fmt": "nexus", "text": text, "labels": [l for l, _ in rows]}
    if k >= 0.13:
        c["intent"] = rows
        c["layout"] = "interleaved" if inter else "sequential"
    return c


# ----------------------------------------------------------------------------
# oracle: "same taxa in same order, each with the same sequence of states by symbol"
# ----------------------------------------------------------------------------

def in_domain(case, obs):
    """None when the case is inside the property's quantifier, else the reason it is not"""
    fmt = case["fmt"]
    syms = obs["syms"]
    labels = [l for l, _ in syms]
    if not syms:
        return "empty matrix"
    lens = [len(s) for _, s in syms]
    if any(l is None for l in labels):
        return "unlabelled taxon"
    if len(set(l.lower() for l in labels)) != len(labels):
        return "labels equal up to case"
    if fmt == "fasta":
        if not all(fasta_label_ok(l) for l in labels):
            return "label not admissible for FASTA"
        if any(n == 0 for n in lens):
            return "empty sequence"
    elif fmt == "phylip":
        if len(set(lens)) != 1 or lens[0] == 0:
            return "not rectangular"
        if not phylip_labels_ok(labels, case.get("wkw", {}), case.get("rkw", {})):
            return "label not admissible for the PHYLIP variant"
    elif fmt in ("nexus", "nexml"):
        if len(set(lens)) != 1 or lens[0] == 0:
            return "not rectangular"
        if not all(nexus_label_ok(l) for l in labels):
            return "label outside the NEXUS token layer's domain (C02)"
        if fmt == "nexml" and not all(nexml_label_ok(l) for l in labels):
            return "label changed by the NeXML attribute escaping (separate finding)"
    return None


def has_fresh(obs):
    return any(i >= 1000 for _, cells in obs["rows"] for i in cells)


def oracle(case, obs):
    if case["kind"] == "dsread":
        return None
    if case["kind"] == "titles":
        t = obs["titles"]
        if not obs["linked"]:
            if t or obs["links"]:
                return ("TITLE / LINK written although block titles are off: %s" % t, "nexus-titles:written-when-off")
            return None
        if len(t) != len(obs["labels"]):
            return ("%d blocks, %d TITLE statements" % (len(obs["labels"]), len(t)), "nexus-titles:count")
        if len(set(t)) != len(t):
            return ("blocks labelled %s are written with TITLEs %s: the same title twice (read back: %s)" % (obs["labels"], t, obs["back"]),
                    "nexus-titles:not-distinct")
        if obs["links"] != [t[i] for i in obs["want_links"]]:
            return ("LINK TAXA statements %s, the blocks' namespaces are titled %s" % (obs["links"], [t[i] for i in obs["want_links"]]),
                    "nexus-titles:link-differs")
        return None
    if case["kind"] == "read":
        intent = case.get("intent")
        if intent is None:
            return None
        p = obs["parsed"]
        want = [[l, [TABS[case["dt"]]["states"][i]["symbol"] for i in c]] for l, c in intent]
        if "err" in p:
            return ("%s text laid out by the harness (%s) is rejected: %s" % (case["fmt"], case.get("layout", ""), p["err"]),
                    "layout-rejected:%s:%s" % (case["fmt"], case.get("layout", "")))
        got = p["syms"] if isinstance(p, dict) else (p[0]["syms"] if p else None)
        if got != want:
            return ("%s text laid out by the harness (%s) is read as %s, intended %s" % (case["fmt"], case.get("layout", ""), str(got)[:200], str(want)[:200]),
                    "layout-misread:%s:%s" % (case["fmt"], case.get("layout", "")))
        return None
    fmt, dt = case["fmt"], case["dt"]
    route = case["route"]
    if "route_err" in obs:
        if route["r"] == "parse":
            return ("building the matrix by writing to %s and parsing it back raised %s: %s" % (route["fmt"], obs["route_err"], obs.get("msg", "")),
                    "route-parse-%s:%s" % (route["fmt"], obs["route_err"]))
        return ("construction route %s raised %s: %s" % (route["r"], obs["route_err"], obs.get("msg", "")), "route-%s" % route["r"])
    for i in range(0, len(obs["stages"]) - 1, 2):
        if obs["stages"][i][1] != obs["stages"][i + 1][1]:
            return ("matrix changed by %s: %s -> %s" % (obs["stages"][i + 1][0], str(obs["stages"][i][1])[:200], str(obs["stages"][i + 1][1])[:200]),
                    "route-changed:%s" % obs["stages"][i + 1][0])
    why = in_domain(case, obs)
    if why:
        return None
    if has_fresh(obs) and fmt in ("fasta", "phylip"):
        return None          # no notation for a symbol-less multistate in these formats
    if isinstance(obs["text"], dict):
        return ("writing %s as %s raised %s" % (dt, fmt, obs["text"]["err"]), "write-%s-%s-%s" % (fmt, dt, obs["text"]["err"]))
    back = obs["back"]
    if "back_as_standard" in obs:
        b2 = obs["back_as_standard"]
        if "err" in b2 or b2["syms"] != obs["syms"]:
            return ("%s matrix written as nexus does not even read back as a standard matrix with the same symbols: %s" % (dt, str(b2)[:300]),
                    "roundtrip-nexus-as-standard-differs")
    suffix = ""
    if has_fresh(obs):
        suffix = ":symbolless-multistate"
    if case.get("read_dt") in ("restriction", "infinite") and fmt == "nexus":
        suffix = ":%s-written-as-standard" % case["read_dt"]
    if "err" in back:
        return ("%s matrix written as %s%s is not read back: %s" % (dt, fmt, " " + json.dumps(case.get("wkw")) if case.get("wkw") else "", back["err"]),
                "roundtrip-%s-unreadable%s" % (fmt, suffix))
    if back["syms"] != obs["syms"]:
        return ("%s matrix written as %s reads back different: %s -> %s" % (dt, fmt, str(obs["syms"])[:300], str(back["syms"])[:300]),
                "roundtrip-%s-differs%s" % (fmt, suffix))
    if back["ns"] != [l for l, _ in obs["syms"]]:
        return ("namespace after reading %s lists %s, the matrix has %s" % (fmt, back["ns"], [l for l, _ in obs["syms"]]),
                "roundtrip-%s-namespace" % fmt)
    return None


def nontrivial(case, obs):
    if case["kind"] == "dsread":
        return isinstance(obs.get("parsed"), list)
    if case["kind"] == "titles":
        return obs["linked"] and len(obs["titles"]) >= 2
    if case["kind"] == "write":
        return "rows" in obs and len(obs["rows"]) >= 1 and not isinstance(obs.get("text"), dict)
    p = obs.get("parsed")
    if isinstance(p, dict):
        return "rows" in p and len(p["rows"]) >= 1
    return bool(p)


def count_case(ctx, case):
    if case["kind"] == "dsread":
        ctx.count("dsread:nexus:%d-namespaces" % len(case["ds"]["spaces"]))
        return
    if case["kind"] == "titles":
        labs = [sp["label"] for sp in case["ds"]["spaces"]]
        named = [l for l in labs if l]
        ctx.count("titles:%d-namespaces" % len(labs))
        if len(set(named)) != len(named):
            ctx.count("titles:equal-namespace-labels")
        return
    ctx.count("%s:%s" % (case["kind"], case["fmt"]))
    ctx.count("dt:%s" % case["dt"])
    if case["kind"] == "write":
        r = case["route"]
        ctx.count("route:%s%s" % (r["r"], ":" + r["fmt"] if r["r"] in ("parse", "text") else ""))
        rows = route_rows(r)
        if rows:
            ctx.count("ntax:%d" % len(rows))
            n = len(rows[0][1])
            ctx.count("nchar:%s" % ("1" if n == 1 else "2-10" if n <= 10 else "11-30" if n <= 30 else ">30"))
        if case["fmt"] == "phylip":
            w, r_ = case["wkw"], case["rkw"]
            ctx.count("phylip:%s/%s" % ("strict" if w.get("strict") else "relaxed", "interleaved" if r_.get("interleaved") else "sequential"))
    else:
        ctx.count("read-source:%s" % ("library-written" if "from" in case else "harness-text"))


def search(ctx, budget_s):
    t0 = time.time()
    rng = random.Random(ctx.seed + 4242)
    n = 0
    while time.time() - t0 < budget_s and n < 5000:
        case = gen_write_case(rng, "thorough")
        obs = observe(case)
        v = oracle(case, obs)
        n += 1
        if v:
            ctx.violation(v[0], {"case": case, "observed": slim(obs)}, key=v[1])
    ctx.notes.append("search: %d further write/read-back cases through the oracle" % n)


def slim(obs):
    o = dict(obs)
    for k in ("alpha", "nalpha", "tokens"):
        o.pop(k, None)
    return o


def exhaustive_cases():
    """thorough tier: every single state of every data type, as a 1x1 and in a 2x2 matrix, through
    every format / variant (labels "t", "a b" and a 10-character label where admissible)"""
    out = []
    for dt in DISCRETE:
        n = len(TABS[dt]["states"])
        for i in range(n):
            mats = [[["t", [i]]], [["a b", [i, (i + 1) % n]], ["exactly10c", [(i + 2) % n, i]]]]
            for rows in mats:
                labels = [l for l, _ in rows]
                route = {"r": "from_dict", "dt": dt, "rows": rows}
                for wkw in ({}, {"wrap": False}, {"wrap": True, "wrap_width": 1}):
                    out.append({"kind": "write", "dt": dt, "fmt": "fasta", "route": route, "wkw": wkw, "rkw": {}})
                for wkw, rkw in all_phylip_variants():
                    if wkw["spaces_to_underscores"] != rkw["underscores_to_spaces"]:
                        continue
                    if phylip_labels_ok(labels, wkw, rkw):
                        out.append({"kind": "write", "dt": dt, "fmt": "phylip", "route": route, "wkw": wkw, "rkw": rkw})
                for wkw in ({}, {"simple": True}):
                    c = {"kind": "write", "dt": dt, "fmt": "nexus", "route": route, "wkw": wkw, "rkw": {}}
                    if dt in ("restriction", "infinite"):
                        c["read_dt"] = dt
                    out.append(c)
    return out


def gen_cases(rng, tier):
    n_write = 330 if tier == "quick" else 4000
    n_text = 170 if tier == "quick" else 2500
    cases = []
    # every data type x format at least once, all symbols
    for dt in DISCRETE:
        for fmt in ("fasta", "phylip", "nexus"):
            cases.append(gen_write_case(rng, tier, fmt=fmt, dt=dt))
    while len(cases) < n_write:
        cases.append(gen_write_case(rng, tier))
    reads = []
    for c in cases:
        if rng.random() < (0.5 if tier == "quick" else 0.7):
            reads.append(read_case_from(c))
            if c["fmt"] == "phylip" and rng.random() < 0.5:
                # same text under another reader variant
                _w, rk = rng.choice(list(all_phylip_variants()))
                reads.append(read_case_from(c, rkw=rk))
    texts = [gen_text_read_case(rng, tier) for _ in range(n_text)]
    dsreads = []
    while len(dsreads) < (30 if tier == "quick" else 400):
        pc = gen_pipeline(rng, tier)
        if pc["p"] == "dataset" and pc["fmt"] == "nexus" and pc["wkw"].get("suppress_block_titles") is not True \
                and any(sp["mats"] for sp in pc["spaces"]) \
                and all(md["dt"] != "standard" or True for sp in pc["spaces"] for md in sp["mats"]):
            dsreads.append({"kind": "dsread", "ds": pc, "block": rng.randrange(6)})
    titles = fixed_title_cases()
    while len(titles) < (60 if tier == "quick" else 600):
        pc = gen_pipeline(rng, tier)
        if pc["p"] == "dataset" and pc["fmt"] == "nexus" and pc["wkw"].get("suppress_block_titles") is not True:
            if rng.random() < 0.15:
                pc["wkw"][rng.choice(["preserve_spaces", "unquoted_underscores"])] = True
            titles.append({"kind": "titles", "ds": pc})
    texts = texts + dsreads + titles
    if tier == "thorough":
        ex = exhaustive_cases()
        cases = cases + ex
        reads = reads + [read_case_from(c) for c in ex if rng.random() < 0.25]
    return cases + reads + texts


def run(tier, seed, replay=None):
    ctx = core.Ctx("C09", tier, seed)
    ctx.assumptions = [
        "models coq/Model/C09Model.v (FASTA, PHYLIP: characters and lines) and C09Nexus.v (CHARACTERS/DATA block: tokens) are hand transcriptions; tied by this correspondence run",
        "state alphabets coq/Model/C09Alphabets.v are dumped from the imported library on every run",
        "the NEXUS token layer (tokenizer, escape_nexus_token) is property C02's; here tokens are what the real tokenizer returns, and escape_nexus_token is a function parameter of the title model (the harness tabulates the real function on the candidate titles of a case)",
        "str(id(block)) (title of an unlabelled block) is an input of the title model",
        "NeXML and the XML text layer: exercised against the oracle only",
        "readers get a fresh TaxonNamespace; str.lower is an uninterpreted function in the theorems",
    ]
    changed = init_tables()
    if changed:
        ctx.notes.append("coq/Model/C09Alphabets.v was rewritten: the library's state alphabets differ from the committed dump")
    if replay:
        r = json.load(open(replay))["replay"]
        case = r["case"]
        if case.get("kind") == "pipeline":
            obs = observe_pipeline(case)
            print("observed:", json.dumps(obs, default=str)[:3000])
            print("oracle:", oracle_pipeline(case, obs))
            return 0
        obs = observe(case)
        print("observed:", json.dumps(slim(obs), default=str)[:3000])
        print("oracle:", oracle(case, obs))
        return 0
    ok = core.proof_stage(ctx, ["Props/C09.vo", "Model/C09Cases.vo"], gen_needed=("__none__",))
    if not ok:
        core.broken_proof(ctx, search)
    # translator tie: coq/Gen/CharIO.v is regenerated from the source on every run; the generated
    # writers / readers are proved equal to the hand model in Props/C09Gen.v
    ok_gen = core.proof_stage(ctx, ["Props/C09Gen.vo"], props_file="Props/C09Gen.v", gen_needed=("CharIO",))
    if not ok_gen:
        core.broken_proof(ctx, search)
    cases = gen_cases(ctx.rng, tier)
    for c in cases:
        count_case(ctx, c)
    core.corr_stage(ctx, cases, observe, to_coq, HEADER, "case_ok", oracle=oracle, show_fn="case_show",
                    nontrivial=nontrivial, search=search, shard=70,
                    sample_fn=lambda c, o: {"case": {k: v for k, v in c.items() if k not in ("route", "ds")}, "observed": str(slim(o))[:600]})
    run_pipelines(ctx, tier)
    return ctx.finish(
        level="proof",
        rule=("atomic cases: (1) WRITE - a matrix over the full state set of a data type (dna, rna, nucleotide, protein, "
              "standard, restriction, infinite; 1..8 taxa x 1..30 (..141) characters incl. 1xN and Nx1; labels from pools with "
              "spaces, underscores, >10 characters, punctuation, case variants, non-ASCII) built by from_dict / new_taxon / "
              "concatenate / export_character_indices / parsing FASTA, PHYLIP, NEXUS or NeXML, written as FASTA (wrap on/off, "
              "widths), PHYLIP (strict/relaxed x space-underscore conversion) or NEXUS (CHARACTERS or DATA block): the text "
              "(NEXUS: the token list from the real tokenizer) must equal the writer model's; the implementation also reads "
              "it back and the oracle demands the same taxa in the same order with the same symbols when the labels are "
              "admissible for the variant; (2) READ - the same texts, the same texts under other reader variants, and texts "
              "laid out by the harness (wrapped / interleaved pages / continuation lines / lower case / inner blanks / "
              "multistate tokens / MATCHCHAR / CRLF / wrong counts / unknown symbols / repeated names): parsed (labels, states) "
              "or the error class must equal the reader model's; (2b) TITLES - data sets with 1-3 namespaces whose TAXA / CHARACTERS / "
              "TREES blocks carry no label, EQUAL labels, labels escape_nexus_token alters (spaces, hyphens, quotes, brackets, "
              "underscores; also with preserve_spaces / unquoted_underscores) or labels equal up to case: the TITLE statements "
              "written must equal the model's assign_titles over the escaped-title map, be pairwise different, and every "
              "LINK TAXA must name its namespace's TITLE; (3) oracle-only pipelines: NeXML (cells or seq markup), "
              "continuous matrices through NEXUS/PHYLIP/NeXML, data sets with 1-3 namespaces x matrices x tree lists written "
              "to NEXUS (suppress_block_titles default / False) and NeXML, symbol-less multistates. A case is non-trivial when "
              "it has at least one row and (write) the writer succeeded / (read) the reader delivered a matrix; distinct by full case content."))


# ----------------------------------------------------------------------------
# oracle-only pipelines: NeXML, continuous characters, data sets with several namespaces
# ----------------------------------------------------------------------------

NEXML_TYPES = ["dna", "rna", "protein", "standard", "restriction"]
CONT_VALUES = [0.0, 1.0, -1.0, 1.5, -2.25, 0.1, 1e-07, 1e+22, 123456.789, 3.0, 2.5e-300, -7.125, 1.0 / 3.0, 6.02e23]
SAFE_ASCII = [l for l in SAFE + SPACED if all(ord(c) < 128 for c in l)]


def pick_ascii_labels(rng, n, spaced=True):
    pool = [l for l in (SAFE_ASCII if spaced else SAFE) if all(ord(c) < 128 for c in l) and nexml_label_ok(l)]
    out, seen = [], set()
    rng.shuffle(pool)
    for l in pool:
        if l.lower() not in seen:
            out.append(l)
            seen.add(l.lower())
        if len(out) == n:
            break
    return out


# labels of TAXA / CHARACTERS / TREES blocks: plain ones, ones escape_nexus_token alters (spaces ->
# underscores; hyphens, quotes, brackets, underscores -> quoted), and case variants of each other
BLOCK_LABELS = ["ns", "NS", "field taxa", "Field Taxa", "in-group", "In-Group", "it's", "a_b", "A_B", "a b", "x (1)", "p.1", "p",
                "out group;", "q:r", "TAXA", "taxa"]


def pick_block_label(rng, i, plain, prior):
    """a block label: none, a plain one, one of the pool, or (often) the label of an earlier block"""
    k = rng.random()
    if prior and k < 0.35:
        return rng.choice(prior)
    if k < 0.5:
        return rng.choice(BLOCK_LABELS)
    if k < 0.65:
        return None
    return rng.choice(plain)


def gen_pipeline(rng, tier):
    k = rng.random()
    ntax, nchar = gen_dims(rng, tier)
    if k < 0.40:
        dt = rng.choice(NEXML_TYPES)
        labels = pick_ascii_labels(rng, ntax)
        rows = gen_rows(rng, dt, len(labels), nchar, "safe")
        rows = [[l, c] for l, (_x, c) in zip(labels, rows)]
        route = gen_route(rng, dt, rows)
        return {"kind": "pipeline", "p": "nexml", "dt": dt, "fmt": "nexml", "route": route,
                "wkw": {"markup_as_sequences": rng.random() < 0.4}}
    if k < 0.50:
        dt = rng.choice(["nucleotide", "infinite"])
        rows = gen_rows(rng, dt, ntax, nchar, "safe")
        return {"kind": "pipeline", "p": "nexml-unsupported", "dt": dt, "fmt": "nexml",
                "route": {"r": "from_dict", "dt": dt, "rows": rows}, "wkw": {}}
    if k < 0.72:
        fmt = rng.choice(["nexus", "phylip", "nexml"])
        via = rng.choice([None, None, "nexus", "phylip", "nexml"])
        labels = pick_ascii_labels(rng, ntax, spaced=(fmt != "phylip" and via != "phylip"))
        vals = [[l, [rng.choice(CONT_VALUES) if rng.random() < 0.6 else round(rng.uniform(-50, 50), rng.randint(0, 6))
                     for _ in range(nchar)]] for l in labels]
        wkw, rkw = {}, {}
        if fmt == "phylip":
            wkw, rkw = phylip_variant(rng, labels)
        return {"kind": "pipeline", "p": "continuous", "dt": "continuous", "fmt": fmt, "rows": vals, "wkw": wkw, "rkw": rkw,
                "via": via}
    if k < 0.92:
        # a data set: 1-3 namespaces, each with matrices and tree lists
        nns = rng.randint(1, 3)
        spaces = []
        prior = []
        hard = rng.random() < 0.5        # block labels that collide / that escaping alters
        for i in range(nns):
            labs = [l for l in pick_ascii_labels(rng, rng.randint(2, 6)) if True]
            mats = []
            for j in range(rng.randint(0, 2) if nns > 1 else rng.randint(1, 2)):
                dt = rng.choice(["dna", "rna", "protein", "standard"])
                nch = rng.randint(1, 12)
                rows = gen_rows(rng, dt, len(labs), nch, "safe")
                mats.append({"dt": dt, "rows": [[l, c] for l, (_x, c) in zip(labs, rows)],
                             "label": (pick_block_label(rng, i, ["m%d_%d" % (i, j), "matrix %d" % j], prior) if hard
                                       else rng.choice([None, "m%d_%d" % (i, j), "matrix %d" % j]))})
                if mats[-1]["label"]:
                    prior.append(mats[-1]["label"])
            trees = rng.random() < 0.5 and len(labs) >= 2
            nl = (pick_block_label(rng, i, ["ns%d" % i, "taxa %d" % i], prior) if hard
                  else rng.choice([None, "ns%d" % i, "taxa %d" % i, "TAXA"]))
            tl = (pick_block_label(rng, i, ["trees%d" % i], prior + ([nl] if nl else [])) if hard
                  else rng.choice([None, "trees%d" % i]))
            prior += [x for x in (nl, tl) if x]
            spaces.append({"label": nl, "labels": labs, "mats": mats, "trees": trees, "tree_label": tl})
        fmt = rng.choice(["nexus", "nexus", "nexml"])
        wkw = {}
        if fmt == "nexus":
            # the settings documented to keep titles when they are needed: default (None) and False ("always written")
            sbt = rng.choice([None, None, False, False, True])
            if sbt is not None:
                wkw["suppress_block_titles"] = sbt
        return {"kind": "pipeline", "p": "dataset", "dt": "dna", "fmt": fmt, "spaces": spaces, "wkw": wkw}
    if k < 0.97:
        dt = rng.choice(["dna", "standard", "protein"])
        return {"kind": "pipeline", "p": "fresh-multistate", "dt": dt, "fmt": rng.choice(["nexus", "nexml"]),
                "poly": rng.random() < 0.5, "wkw": {}}
    return {"kind": "pipeline", "p": "nexml-label", "dt": "dna", "fmt": "nexml",
            "label": rng.choice(["naïve", "a\"b", "back\\slash", "été", "x<y", "p&q", "tab\tlab"]), "wkw": {}}


def cont_content(m):
    return [[t.label, [float(v) for v in m[t]]] for t in m]


def newick_of(tree):
    return tree.as_string("newick", suppress_rooting=True, suppress_edge_lengths=True).strip()


def build_dataset(case):
    import dendropy
    ds = dendropy.DataSet()
    for sp in case["spaces"]:
        tns = ds.new_taxon_namespace(label=sp["label"])
        for l in sp["labels"]:
            tns.new_taxon(label=l)
        for md in sp["mats"]:
            cls = matrix_class(md["dt"])
            m = cls(taxon_namespace=tns, label=md["label"])
            for l, cells in md["rows"]:
                m[tns.get_taxon(label=l)] = [m.default_state_alphabet[i] for i in cells]
            ds.add_char_matrix(m)
        if sp["trees"]:
            nw = "(" + ",".join(l.replace(" ", "_") for l in sp["labels"]) + ");"
            tl = dendropy.TreeList.get(data=nw, schema="newick", taxon_namespace=tns)
            tl.label = sp["tree_label"]
            ds.add_tree_list(tl)
    return ds


def observe_dsread(case):
    """one CHARACTERS block of a written multi-namespace NEXUS document, as tokens, with the reader's
    namespace table taken from the TAXA blocks' tokens"""
    import dendropy
    ds = build_dataset(case["ds"])
    text = ds.as_string("nexus", **case["ds"]["wkw"])
    blocks = split_blocks(tokenize(text))
    tab, ntax = [], None
    for name, b in blocks:
        if name != "TAXA":
            continue
        tb = [t for t in b if t not in ("\n", "\r")]
        up = [t.upper() for t in tb]
        title = tb[up.index("TITLE") + 1] if "TITLE" in up else None
        ntax = int(tb[up.index("NTAX") + 2])
        labs = []
        i = up.index("TAXLABELS") + 1
        while tb[i] != ";":
            labs.append(tb[i])
            i += 1
        tab.append([title, labs])
    cbs = [b for n, b in blocks if n in ("CHARACTERS", "DATA")]
    k = case["block"] % len(cbs)
    obs = {"text": text[:4000], "tab": tab, "ntax0": ntax, "tokens": cbs[k]}
    try:
        d2 = dendropy.DataSet.get(data=text, schema="nexus")
    except Exception as e:
        obs["parsed"] = err_of(e)
        return obs
    m = d2.char_matrices[k]
    rows, syms = content(m)
    obs["parsed"] = [{"dt": m.data_type, "rows": rows, "syms": syms, "ns": [t.label for t in m.taxon_namespace],
                      "fresh": [], "title": m.label}]
    return obs


def title_lines(text, kw):
    out = []
    for l in text.split("\n"):
        l = l.strip()
        if l.upper().startswith(kw) and l.endswith(";"):
            out.append(l[len(kw):-1])
    return out


def observe_titles(case):
    """the TITLE / LINK statements of a written data set, as text, next to what _get_block_title is asked:
    the labels of the blocks in the order they request a title (TAXA blocks, CHARACTERS blocks, TREES blocks;
    an unlabelled block goes by str(id(block)), an input), and escape_nexus_token (C02's layer) on the candidates"""
    from dendropy.dataio import nexusprocessing
    dsc = case["ds"]
    ds = build_dataset(dsc)
    wkw = dsc["wkw"]
    blocks = list(ds.taxon_namespaces) + list(ds.char_matrices) + list(ds.tree_lists)
    labels = [b.label if b.label else str(id(b)) for b in blocks]
    esc = {}
    for l in labels:
        for cand in [l] + ["%s.%d" % (l, i) for i in range(1, len(labels) + 2)]:
            e = nexusprocessing.escape_nexus_token(cand, preserve_spaces=bool(wkw.get("preserve_spaces", False)),
                                                   quote_underscores=not wkw.get("unquoted_underscores", False))
            if e != cand:
                esc[cand] = e
    text = ds.as_string("nexus", **wkw)
    nns = len(ds.taxon_namespaces)
    sbt = wkw.get("suppress_block_titles")
    obs = {"labels": labels, "esc": sorted(esc.items()), "text": text[:4000], "nns": nns,
           "linked": (nns > 1) if sbt is None else (not sbt),
           "titles": title_lines(text, "TITLE "), "links": title_lines(text, "LINK TAXA = "),
           "want_links": [blocks.index(b.taxon_namespace) for b in blocks[nns:]]}
    try:
        import dendropy
        dendropy.DataSet.get(data=text, schema="nexus")
        obs["back"] = "ok"
    except Exception as e:
        obs["back"] = "%s: %s" % (type(e).__name__, str(e)[:200])
    return obs


def observe_pipeline(case):
    import dendropy
    warnings.simplefilter("ignore")
    p = case["p"]
    try:
        if p in ("nexml", "nexml-unsupported"):
            m, stages = build_route(case["route"])
            rows, syms = content(m)
            obs = {"syms": syms, "rows": rows, "stages": stages}
            own = set(id(x) for a in m.state_alphabets for x in a.state_iter())
            obs["foreign_states"] = any(id(x) not in own for t in m for x in m[t])
            try:
                text = m.as_string("nexml", **case["wkw"])
            except Exception as e:
                obs["text"] = {"err": core.exc_enum(e), "msg": str(e)[:200]}
                return obs
            obs["text"] = text if len(text) < 4000 else text[:4000]
            obs["back"] = read_back(case["dt"], "nexml", text, {})
            return obs
        if p == "continuous":
            cls = dendropy.ContinuousCharacterMatrix
            m = cls.from_dict({l: v for l, v in case["rows"]})
            if case.get("via"):
                vt = m.as_string(case["via"])
                m = cls.get(data=vt, schema=case["via"])
            obs = {"content": cont_content(m)}
            text = m.as_string(case["fmt"], **case["wkw"])
            obs["text"] = text[:3000]
            try:
                m2 = cls.get(data=text, schema=case["fmt"], **case["rkw"])
                obs["back"] = {"content": cont_content(m2), "ns": [t.label for t in m2.taxon_namespace]}
            except Exception as e:
                obs["back"] = err_of(e)
            return obs
        if p == "dataset":
            ds = dendropy.DataSet()
            want = []
            for sp in case["spaces"]:
                tns = ds.new_taxon_namespace(label=sp["label"])
                for l in sp["labels"]:
                    tns.new_taxon(label=l)
                for md in sp["mats"]:
                    cls = matrix_class(md["dt"])
                    m = cls(taxon_namespace=tns, label=md["label"])
                    for l, cells in md["rows"]:
                        m[tns.get_taxon(label=l)] = [m.default_state_alphabet[i] for i in cells]
                    ds.add_char_matrix(m)
                if sp["trees"]:
                    nw = "(" + ",".join(l.replace(" ", "_") for l in sp["labels"]) + ");"
                    tl = dendropy.TreeList.get(data=nw, schema="newick", taxon_namespace=tns)
                    tl.label = sp["tree_label"]
                    ds.add_tree_list(tl)
            want_m = [{"ns": [t.label for t in m.taxon_namespace], "syms": content(m)[1]} for m in ds.char_matrices]
            want_t = [{"ns": [t.label for t in tl.taxon_namespace], "leaves": [sorted(nd.taxon.label for nd in tr.leaf_node_iter()) for tr in tl]}
                      for tl in ds.tree_lists]
            obs = {"want_m": want_m, "want_t": want_t, "want_ns": [[t.label for t in tns] for tns in ds.taxon_namespaces]}
            with warnings.catch_warnings(record=True) as wlist:
                warnings.simplefilter("always")
                text = ds.as_string(case["fmt"], **case["wkw"])
            obs["warned"] = any("block titles are suppressed" in str(w.message) for w in wlist)
            warnings.simplefilter("ignore")
            obs["n_title"] = sum(1 for l in text.split("\n") if l.strip().upper().startswith("TITLE "))
            obs["n_link"] = sum(1 for l in text.split("\n") if l.strip().upper().startswith("LINK "))
            obs["n_blocks"] = sum(1 for l in text.split("\n") if l.strip().upper().startswith("BEGIN "))
            obs["text"] = text[:6000]
            if case["fmt"] == "nexus":
                # the TAXA blocks' titles as the reader's tokenizer delivers them
                obs["taxa_titles"] = [(tokenize(x) or [""])[0] for x in title_lines(text, "TITLE ")[:len(case["spaces"])]]
            try:
                d2 = dendropy.DataSet.get(data=text, schema=case["fmt"])
            except Exception as e:
                obs["back"] = {"err": core.exc_enum(e), "msg": "%s: %s" % (type(e).__name__, str(e)[:200])}
                return obs
            obs["back"] = {
                "m": [{"ns": [t.label for t in m.taxon_namespace], "syms": content(m)[1]} for m in d2.char_matrices],
                "t": [{"ns": [t.label for t in tl.taxon_namespace], "leaves": [sorted(nd.taxon.label for nd in tr.leaf_node_iter()) for tr in tl]}
                      for tl in d2.tree_lists],
                "ns": [[t.label for t in tns] for tns in d2.taxon_namespaces]}
            return obs
        if p == "fresh-multistate":
            dt = case["dt"]
            st = TABS[dt]["states"]
            f = [s["symbol"] for s in st if s["kind"] == "Fundamental" and s["symbol"] != "-"]
            grp = ("(%s%s)" if case["poly"] else "{%s%s}") % (f[0], f[-1])
            if dt != "standard" and not case["poly"]:
                grp = "{%s%s%s}" % (f[0], f[1], "")       # for the fixed types {AC} is the existing state M / B ...
                grp = "(%s%s)" % (f[0], f[1])              # ... so use a polymorphic group, which is never predefined
            dk = {"dna": "DNA", "protein": "PROTEIN", "standard": "STANDARD"}[dt]
            extra = ' SYMBOLS="0123456789"' if dt == "standard" else ""
            src = "#NEXUS\nBEGIN DATA;\n DIMENSIONS NTAX=2 NCHAR=3;\n FORMAT DATATYPE=%s%s GAP=- MISSING=?;\n MATRIX\n  a %s%s%s\n  b %s%s%s\n ;\nEND;\n" % (
                dk, extra, f[0], grp, f[1], f[1], f[0], grp)
            m = matrix_class(dt).get(data=src, schema="nexus")
            rows, syms = content(m)
            obs = {"source": src, "syms": syms}
            try:
                text = m.as_string(case["fmt"])
            except Exception as e:
                obs["text"] = {"err": core.exc_enum(e), "msg": str(e)[:200]}
                return obs
            obs["text"] = text[:3000]
            obs["back"] = read_back(dt, case["fmt"], text, {})
            return obs
        if p == "nexml-label":
            m = dendropy.DnaCharacterMatrix.from_dict({"a": "AC", case["label"]: "GT"})
            rows, syms = content(m)
            text = m.as_string("nexml")
            return {"syms": syms, "text": text[:2500], "back": read_back("dna", "nexml", text, {})}
        raise ValueError(p)
    finally:
        restore_globals()


def oracle_pipeline(case, obs):
    p = case["p"]
    if p == "nexml":
        for i in range(0, len(obs["stages"]) - 1, 2):
            if obs["stages"][i][1] != obs["stages"][i + 1][1]:
                return ("matrix changed by %s" % obs["stages"][i + 1][0], "route-changed:%s" % obs["stages"][i + 1][0])
        lens = set(len(s) for _, s in obs["syms"])
        if len(lens) != 1 or 0 in lens:
            return None
        if isinstance(obs["text"], dict):
            if obs.get("foreign_states"):
                return ("a %s matrix built by %s holds states of another matrix's state alphabet (its own state_alphabets lists a fresh one); writing it as NeXML raised %s: %s"
                        % (case["dt"], case["route"]["r"], obs["text"]["err"], obs["text"].get("msg")),
                        "write-nexml-%s:states-foreign-to-own-alphabets" % case["dt"])
            return ("writing a %s matrix built by %s as NeXML raised %s: %s" % (case["dt"], case["route"]["r"], obs["text"]["err"], obs["text"].get("msg")),
                    "write-nexml-%s:%s" % (case["dt"], case["route"]["r"]))
        b = obs["back"]
        if "err" in b:
            return ("%s matrix (%s) written as NeXML%s is not read back: %s" % (case["dt"], case["route"]["r"], " as sequences" if case["wkw"].get("markup_as_sequences") else "", b["err"]),
                    "roundtrip-nexml-unreadable")
        if b["syms"] != obs["syms"]:
            return ("%s matrix (%s) written as NeXML reads back different: %s -> %s" % (case["dt"], case["route"]["r"], str(obs["syms"])[:300], str(b["syms"])[:300]),
                    "roundtrip-nexml-differs")
        return None
    if p == "nexml-unsupported":
        # the writer refuses these data types loudly: outside "data types that the target format supports"
        if not isinstance(obs["text"], dict):
            b = obs["back"]
            if "err" in b or b["syms"] != obs["syms"]:
                return ("%s matrix written as NeXML does not read back" % case["dt"], "roundtrip-nexml-%s" % case["dt"])
        return None
    if p == "continuous":
        b = obs["back"]
        if "err" in b:
            return ("continuous matrix written as %s is not read back: %s" % (case["fmt"], b["err"]), "roundtrip-%s-continuous-unreadable" % case["fmt"])
        if b["content"] != obs["content"]:
            return ("continuous matrix written as %s reads back different: %s -> %s" % (case["fmt"], str(obs["content"])[:300], str(b["content"])[:300]),
                    "roundtrip-%s-continuous-differs" % case["fmt"])
        return None
    if p == "dataset":
        b = obs["back"]
        nns = len(case["spaces"])
        tag = "%s%s" % (case["fmt"], ":suppress_block_titles=%s" % case["wkw"]["suppress_block_titles"] if "suppress_block_titles" in case["wkw"] else "")
        if case["fmt"] == "nexus":
            sbt = case["wkw"].get("suppress_block_titles")
            # the option as documented (repaired in /repo 3376328c: a regression is a violation)
            if sbt is False and (obs["n_title"] != obs["n_blocks"] or obs["n_link"] != obs["n_blocks"] - nns):
                return ("suppress_block_titles=False is documented to always write TITLE: %d TITLE / %d LINK statements for %d blocks (%d TAXA)"
                        % (obs["n_title"], obs["n_link"], obs["n_blocks"], nns), "nexus-block-titles:False-not-written")
            if sbt is True and (obs["n_title"] or obs["n_link"]):
                return ("suppress_block_titles=True wrote %d TITLE / %d LINK statements" % (obs["n_title"], obs["n_link"]),
                        "nexus-block-titles:True-written")
            if sbt is None and nns == 1 and (obs["n_title"] or obs["n_link"]):
                return ("default suppress_block_titles wrote TITLE/LINK for a single namespace", "nexus-block-titles:default-single")
            if sbt is True and nns > 1:
                # documented: "this may make the file impossible to parse if there are multiple taxon namespaces";
                # the writer must say so (it warns); the file is outside the property's quantifier
                if not obs["warned"]:
                    return ("suppress_block_titles=True with %d namespaces wrote an uninterpretable file without the documented warning" % nns,
                            "nexus-block-titles:True-multi-no-warning")
                return None
        if "err" in b:
            labels = [sp["label"] for sp in case["spaces"]]
            tt = obs.get("taxa_titles") or []
            if case["fmt"] == "nexus" and len(set(tt)) != len(tt):
                return ("data set whose namespaces are labelled %s is written with TAXA titles %s (the same title twice) and is not read back: %s"
                        % (labels, tt, b.get("msg")), "dataset-nexus-unreadable:same-title-twice")
            if case["fmt"] == "nexus" and len(set(x.upper() for x in tt)) != len(tt):
                return ("data set whose namespaces are labelled %s (TAXA titles %s: different, equal up to case) is not read back: %s" % (labels, tt, b.get("msg")),
                        "dataset-nexus-unreadable:namespace-titles-equal-up-to-case")
            return ("data set with %d namespace(s) written as %s is not read back: %s" % (nns, tag, b.get("msg")),
                    "dataset-%s-unreadable:%s" % (tag, "multi" if nns > 1 else "single"))
        if b["m"] != obs["want_m"]:
            return ("data set (%d namespaces) via %s: matrices re-attach to %s, expected %s" % (nns, tag, str(b["m"])[:300], str(obs["want_m"])[:300]),
                    "dataset-%s-matrices" % tag)
        if b["t"] != obs["want_t"]:
            return ("data set (%d namespaces) via %s: tree lists re-attach to %s, expected %s" % (nns, tag, str(b["t"])[:300], str(obs["want_t"])[:300]),
                    "dataset-%s-trees" % tag)
        if b["ns"] != obs["want_ns"]:
            return ("data set (%d namespaces) via %s: namespaces %s, expected %s" % (nns, tag, str(b["ns"])[:300], str(obs["want_ns"])[:300]),
                    "dataset-%s-namespaces" % tag)
        return None
    if p == "fresh-multistate":
        if isinstance(obs["text"], dict):
            return ("a matrix parsed from NEXUS with a multistate token without predefined symbol cannot be written as %s: %s" % (case["fmt"], obs["text"]["msg"]),
                    "roundtrip-%s-unwritable:symbolless-multistate" % case["fmt"])
        b = obs["back"]
        if "err" in b:
            return ("a matrix parsed from NEXUS with a multistate token without predefined symbol, written as %s, is not read back (%s)" % (case["fmt"], b["err"]),
                    "roundtrip-%s-unreadable:symbolless-multistate" % case["fmt"])
        if b["syms"] != obs["syms"]:
            return ("symbol-less multistate through %s: %s -> %s" % (case["fmt"], obs["syms"], b["syms"]), "roundtrip-%s-differs:symbolless-multistate" % case["fmt"])
        return None
    if p == "nexml-label":
        b = obs["back"]
        if "err" in b or b["syms"] != obs["syms"]:
            return ("label %r written to NeXML reads back as %s" % (case["label"], str(b)[:200]), "nexml-label-escaping")
        return None
    raise ValueError(p)


EQUAL_LABEL_PROBES = ["ns", "field taxa", "in-group", "it's", "a_b", "x (1)", "TAXA"]


def title_probe(labels, mat_labels=None, tree_labels=None, wkw=None):
    """a data set whose namespaces (and matrices / tree lists) carry the given labels"""
    spaces = []
    for i, l in enumerate(labels):
        labs = ["a%d" % i, "b%d" % i]
        spaces.append({"label": l, "labels": labs, "trees": bool(tree_labels), "tree_label": tree_labels[i] if tree_labels else None,
                       "mats": [{"dt": "dna", "label": mat_labels[i] if mat_labels else "m%d" % i,
                                 "rows": [[x, [k % 4, (k + 1) % 4]] for k, x in enumerate(labs)]}]})
    return {"kind": "titles", "ds": {"kind": "pipeline", "p": "dataset", "dt": "dna", "fmt": "nexus", "spaces": spaces,
                                     "wkw": dict(wkw or {})}}


def fixed_title_cases():
    out = []
    for lab in EQUAL_LABEL_PROBES:
        out.append(title_probe([lab, lab]))
        out.append(title_probe([lab, lab, lab], mat_labels=[lab, None, lab + ".1"], tree_labels=[lab, "t", None]))
        out.append(title_probe([lab, lab], wkw={"suppress_block_titles": False}))
    out.append(title_probe(["field taxa", "field taxa"], wkw={"preserve_spaces": True}))
    out.append(title_probe(["a_b", "a_b", "a b"], wkw={"unquoted_underscores": True}))
    out.append(title_probe(["a b", "a_b", "'a b'"]))
    out.append(title_probe(["p", "p", "p.1", "p.1"]))
    out.append(title_probe([None, None, "ns"], mat_labels=[None, None, None]))
    out.append(title_probe(["ns", "NS", "Ns"]))
    out.append(title_probe(["only"], wkw={"suppress_block_titles": False}))
    return out


def fixed_pipelines():
    """one deterministic probe per family, so that a listed finding reproduces on every run"""
    out = []
    for dt in ("dna", "standard"):
        for fmt in ("nexus", "nexml"):
            out.append({"kind": "pipeline", "p": "fresh-multistate", "dt": dt, "fmt": fmt, "poly": True, "wkw": {}})
    sp = lambda i, labs: {"label": "ns%d" % i, "labels": labs, "trees": True, "tree_label": "t%d" % i,
                          "mats": [{"dt": "dna", "label": "m%d" % i, "rows": [[l, [k % 4, (k + 1) % 4]] for k, l in enumerate(labs)]}]}
    for sbt in (None, False, True):
        for nns in (1, 2, 3):
            spaces = [sp(i, ["a%d" % i, "b%d" % i, "c%d" % i][:2 + (i % 2)]) for i in range(nns)]
            wkw = {} if sbt is None else {"suppress_block_titles": sbt}
            out.append({"kind": "pipeline", "p": "dataset", "dt": "dna", "fmt": "nexus", "spaces": spaces, "wkw": wkw})
    for nns in (1, 2, 3):
        out.append({"kind": "pipeline", "p": "dataset", "dt": "dna", "fmt": "nexml", "wkw": {},
                    "spaces": [sp(i, ["a%d" % i, "b%d" % i, "c%d" % i]) for i in range(nns)]})
    rows = [["x", [0, 1, 2]], ["y", [2, 1, 0]]]
    for dt in NEXML_TYPES:
        nst = len(TABS[dt]["states"])
        r = [[l, [c % nst for c in cs]] for l, cs in rows]
        out.append({"kind": "pipeline", "p": "nexml", "dt": dt, "fmt": "nexml", "wkw": {"markup_as_sequences": False},
                    "route": {"r": "from_dict", "dt": dt, "rows": r}})
        out.append({"kind": "pipeline", "p": "nexml", "dt": dt, "fmt": "nexml", "wkw": {"markup_as_sequences": False},
                    "route": {"r": "concat", "dt": dt, "parts": [[[l, c[:1]] for l, c in r], [[l, c[1:]] for l, c in r]]}})
    for l1, l2 in (("ns", "NS"), ("taxa 1", "Taxa_1")):
        out.append({"kind": "pipeline", "p": "dataset", "dt": "dna", "fmt": "nexus", "wkw": {}, "title_case": True,
                    "spaces": [dict(sp(0, ["a0", "b0"]), label=l1), dict(sp(1, ["a1", "b1", "c1"]), label=l2)]})
    # namespaces with EQUAL labels: plain, and such that escape_nexus_token alters them
    for lab in EQUAL_LABEL_PROBES:
        for nns in (2, 3):
            for sbt in (None, False):
                out.append({"kind": "pipeline", "p": "dataset", "dt": "dna", "fmt": "nexus",
                            "wkw": {} if sbt is None else {"suppress_block_titles": sbt},
                            "spaces": [dict(sp(i, ["a%d" % i, "b%d" % i, "c%d" % i][:2 + (i % 2)]), label=lab,
                                            **({"tree_label": lab} if i == 1 else {})) for i in range(nns)]})
    for lab in ("naïve", "a\"b", "x<y"):
        out.append({"kind": "pipeline", "p": "nexml-label", "dt": "dna", "fmt": "nexml", "label": lab, "wkw": {}})
    return out


def run_pipelines(ctx, tier):
    n = 170 if tier == "quick" else 3000
    t0 = time.time()
    fixed = fixed_pipelines()
    for i in range(n + len(fixed)):
        case = fixed[i] if i < len(fixed) else gen_pipeline(ctx.rng, tier)
        ctx.count("pipeline:%s%s" % (case["p"], ":" + case["fmt"] if case["p"] in ("continuous", "dataset", "fresh-multistate") else ""))
        try:
            obs = observe_pipeline(case)
        except Exception as e:
            ctx.violation("harness could not run a pipeline case: %s: %s" % (type(e).__name__, e), {"case": case}, no_input=True)
            continue
        ctx.evaluations += 1
        v = oracle_pipeline(case, obs)
        if v:
            ctx.violation(v[0], {"case": case, "observed": obs}, key=v[1])
    ctx.notes.append("oracle-only pipelines: %d cases in %.1fs" % (n, time.time() - t0))
