"""C13 - all ways of reading the same source deliver the same data.

Model (coq/Model/C13Model.v): the route drivers above the Newick tree-statement parser
(TreeList.get / .read, Tree.get with offsets, Tree.yield_from_files incl. the NEXUS yielder's own
block loops, TreeArray.read, DataSet.get) over the token sequence the library's own NexusTokenizer
produces for the document.  `case_ok` compares what every route delivered on the implementation
(trees in a skeleton form: label, rooting, tree comments, bracket/label/length sequence with taxon
indices, node comments; or the exception class; for the yielder the delivered prefix) with the
model drivers instantiated with a skeleton statement parser.

Oracle (independent, implementation only): all routes pairwise equal (rich canonical form incl.
weights, annotations, taxon identity classes), Tree.get(c, k) = blocks[c][k] with Python index
semantics, TreeList.get(collection_offset, tree_offset) = blocks[c][k:], concatenation of
DataSet.get's lists = TreeList.get, TreeArray.read = an array filled from TreeList.get,
CharacterMatrix.get = the matrix inside DataSet.get, data= / file= / path= identical (the temp file holds exactly
the document's characters; a fifth of the documents carries carriage returns inside quoted tokens, inside comments
or as line terminators; the path= deviation is the finding source-dispatch:path-universal-newlines only when the
universal-newline translation of the document explains it exactly).
Interleaved histories (py/dv/c13_interleave.py): two or three readers alive at once, each on its own document and
namespace - lazy Tree.yield_from_files iterators stepped alternately, eager reads between two next() steps; every reader
= the same reader run alone = (iterators) its eager TreeList.get; no container object shared by two live symbol mappers;
keys interleaved-iterators:*.
Shared-namespace histories (py/dv/c13_shared.py, wave 8): one text, one option set and ONE TaxonNamespace object, empty
(falsy) or pre-populated at the first call, handed to a sequence of routes incl. the incremental DataSet.read into
unattached / attached / already filled data sets; every delivered container is attached to that object, every node / row
refers to a member object of it, and the same tree / row delivered by two routes refers to the same Taxon OBJECTS;
keys shared-namespace:*.
"""
import io
import json
import os
import random
import tempfile
import time

from dv import core
from dv import trees as dvtrees
from dv import c13_interleave as interleave
from dv import c13_shared as shared
from dv.core import cz, clist, copt, cbool

HEADER = ("From DV Require Import Model.PyPrims Model.C13Model Model.C13CharsCase.\n"
          "From Coq Require Import ZArith. From Coq Require String. Import String.StringSyntax. Open Scope Z_scope.")

TMPDIR = "/var/tmp/dv-C13"

MODEL_KW = {"extract_comment_metadata": False}
SETS_BLOCK_KEYWORDS = "BEGIN SETS;\n  CHARSET both = begin trees;\n  CHARSET again = tree begin;\nEND;\n"
SETS_KEYWORDS_DOC = ("#NEXUS\nBEGIN TAXA; DIMENSIONS NTAX=2; TAXLABELS a b; END;\n" + SETS_BLOCK_KEYWORDS
                     + "BEGIN TREES; TREE t = (a,b); END;\n")
# characters, a SETS block whose LAST character set is ALL, then trees with `-` inside unquoted tokens
# (scientific notation, a negative length, a hyphenated name): whatever the SETS parser does to the shared
# tokenizer's delimiters must be undone before the TREES block
CHARS_SETS_HYPHEN_DOC = ("#NEXUS\nBEGIN TAXA;\n  DIMENSIONS NTAX=3;\n  TAXLABELS Aus-bus c d;\nEND;\n"
                         "BEGIN CHARACTERS;\n  DIMENSIONS NCHAR=4;\n  FORMAT DATATYPE=DNA MISSING=? GAP=-;\n  MATRIX\n"
                         "    Aus-bus AC-T\n    c ACGT\n    d A?GT\n  ;\nEND;\n"
                         "BEGIN SETS;\n  CHARSET first = 1-2;\n  CHARSET whole = ALL;\nEND;\n"
                         "BEGIN TREES;\n  TREE one = [&R] ((Aus-bus:1.5e-05,c:0.25):0.5,d:-0.125);\n"
                         "  TREE two = (Aus-bus:0.5,(c:2.5e-07,d:1.0));\nEND;\n")
ALARM_S = 10

# ----------------------------------------------------------------------------------------------
# document generation
# ----------------------------------------------------------------------------------------------

LABEL_POOLS = [
    ["t%d" % i for i in range(12)],
    ["Alpha", "beta", "GAMMA", "delta_x", "e f", "it's", "z-1", "O.tau", "q9", "R2D2", "uu", "vv"],
    ["a", "b", "c", "d", "e", "f", "g", "h", "i", "j", "k", "l"],
    ["1x", "x1", "A b", "c_d", "E'f", "g.h", "I-J", "k+l", "m#n", "o!p", "q|r", "été"],
    ["Aus-bus", "C-d", "e-f-g", "x-1", "h2", "i-9", "j-k", "l", "m-", "n-o", "p", "q-r-s"],
]

# edge lengths whose text is what repr(float(text)) gives back: scientific notation with a negative
# exponent, negative lengths (a `-` inside an unquoted token)
EXOTIC_LENGTHS = [1e-05, 2.5e-07, 1.5e-10, 3e-06, -0.5, -0.125, -2.5e-05, 12.0]


def raw_hyphen_ok(s):
    """a label that may be written unquoted although it contains `-`"""
    return "-" in s and re.fullmatch(r"[A-Za-z0-9.\-]+", s) is not None and not s.startswith("-")

TREE_COMMENTS = ["[&R] ", "[&U] ", "[&r]", "[&u] ", "", "", "", "[&W 0.5] ", "[&W 1/4] ", "[note] ",
                 "[&foo=1,bar=\"x\"] ", "[&R][&W 0.25] ", "[&U] [c1][c2] ", "[ &R ] ", "[&!color=#ff0000] "]
NODE_COMMENTS = ["", "", "", "", "[nc]", "[&x=2]", "[&&NHX:S=h]"]


# ---- carriage returns ------------------------------------------------------------------------
# A fraction of the Newick / NEXUS documents carries '\r\n' or a lone '\r' (a) inside a quoted token, (b) inside a
# comment, (c) as line terminator (whitespace: must make no difference on any route).  The temp file is written
# with newline='' (bytes on disk = document); the path= routes open it in text mode with universal newlines.

TOK_WS = " \t\n\r"
TOK_CAPTURED = "{}(),;:=\\\""


def scan_regions(doc):
    """quoted tokens and comments of a text as the NexusTokenizer (default delimiter sets) sees them:
    [(kind, start, end)], kind "q" / "c", doc[start:end] the text between the quotes / brackets"""
    out = []
    n = len(doc)

    def comment(i):         # doc[i] == "["; returns the index after the comment
        depth = 1
        j = i + 1
        while j < n and depth:
            if doc[j] == "[":
                depth += 1
            elif doc[j] == "]":
                depth -= 1
            j += 1
        out.append(("c", i + 1, j - 1 if depth == 0 else n))
        return j
    i = 0
    while i < n:
        ch = doc[i]
        if ch in TOK_WS or ch in TOK_CAPTURED:
            i += 1
        elif ch == "'":
            j = i + 1
            while j < n:
                if doc[j] == "'":
                    if j + 1 < n and doc[j + 1] == "'":
                        j += 2
                        continue
                    break
                j += 1
            out.append(("q", i + 1, min(j, n)))
            i = j + 1
        else:
            while i < n and doc[i] not in TOK_WS and doc[i] not in TOK_CAPTURED:
                i = comment(i) if doc[i] == "[" else i + 1
    return out


def cr_inside(doc):
    """does the text have a carriage return inside a quoted token or a comment?"""
    return "\r" in doc and any("\r" in doc[a:b] for _, a, b in scan_regions(doc))


def universal_newlines(doc):
    """what a text-mode stream with newline=None delivers for these characters"""
    return doc.replace("\r\n", "\n").replace("\r", "\n")


def add_carriage_returns(rng, doc, feats):
    """put carriage returns into a generated document (modes may combine); records what was done in feats"""
    mode = rng.choice(["eol", "eol", "quoted", "quoted", "comment", "comment", "eol+quoted", "eol+comment", "quoted+comment",
                       "eol+quoted+comment"])
    if "quoted" in mode:
        contents = sorted({doc[a:b] for kind, a, b in scan_regions(doc) if kind == "q" and b - a >= 2})
        rng.shuffle(contents)
        for content in contents[:rng.choice([1, 1, 2])]:
            # every occurrence of the quoted token gets the same new text (TAXLABELS, TRANSLATE, tree statements)
            cuts = [p for p in range(1, len(content)) if content[p - 1] != "'" and content[p] != "'"]
            if not cuts:
                continue
            p = rng.choice(cuts)
            new = content[:p] + rng.choice(["\r\n", "\r\n", "\r", "\r \r\n"]) + content[p:]
            doc = doc.replace("'" + content + "'", "'" + new + "'")
            feats["cr_quoted"] = True
    if "comment" in mode:
        regions = [(a, b) for kind, a, b in scan_regions(doc) if kind == "c"]
        picked = sorted(rng.sample(regions, min(len(regions), rng.choice([1, 2, 3]))), reverse=True)
        for a, b in picked:
            p = rng.randint(a, b)
            doc = doc[:p] + rng.choice(["\r\n", "\r\n", "\r"]) + doc[p:]
            feats["cr_comment"] = True
    if "eol" in mode:
        style = rng.choice(["crlf", "crlf", "cr", "mixed"])
        inside = [(a, b) for _, a, b in scan_regions(doc)]
        out = []
        for i, ch in enumerate(doc):
            if ch == "\n" and (i == 0 or doc[i - 1] != "\r") and not any(a <= i < b for a, b in inside):
                out.append({"crlf": "\r\n", "cr": "\r"}.get(style) or rng.choice(["\n", "\r\n", "\r", "\r\r\n"]))
                feats["cr_eol"] = True
            else:
                out.append(ch)
        doc = "".join(out)
    return doc


def spec_newick(rng, t, labels, token_of=None, with_len=True, node_comments=False, internal_labels=False,
                raw_hyphen=False, exotic=False):
    """newick text of a dv.trees spec tree with the given leaf labels (escaped by the library)"""
    from dendropy.dataio import nexusprocessing

    def esc(s):
        if raw_hyphen and raw_hyphen_ok(s):
            return s
        return nexusprocessing.escape_nexus_token(s, preserve_spaces=False, quote_underscores=True)

    def f(n, root):
        s = ""
        if n["kids"]:
            s = "(" + ",".join(f(k, False) for k in n["kids"]) + ")"
            if internal_labels and rng.random() < 0.3:
                s += esc("n%d" % n["id"])
        else:
            lab = labels[n["taxon"]]
            s += token_of[lab] if token_of and lab in token_of else esc(lab)
        if node_comments:
            s += rng.choice(NODE_COMMENTS)
        if with_len and n["len"] is not None:
            if exotic and rng.random() < 0.4:
                s += ":%r" % rng.choice(EXOTIC_LENGTHS)
            else:
                s += ":%r" % (n["len"] * dvtrees.UNIT)
        return s
    return f(t, True)


def library_statement(rng, t, labels):
    """the statement as written by the library's own NewickWriter (no rooting token)"""
    import dendropy
    ns = dendropy.TaxonNamespace()
    objs = [ns.new_taxon(l) for l in labels]
    tree, _ = dvtrees.build_dendropy(t, objs, namespace=ns)
    return tree.as_string("newick", suppress_rooting=True).strip().rstrip(";")


def gen_statements(rng, n, pool, ntaxa, token_of=None, raw_hyphen=False, exotic=False):
    out = []
    for _ in range(n):
        nl = rng.randint(1, min(5, ntaxa))
        taxa = rng.sample(range(ntaxa), nl)
        t = dvtrees.gen_tree(rng, nl, lengths=rng.choice(["dyadic", "dyadic", "none", "mixed"]), taxa=taxa,
                             unifurcations=rng.choice([0.0, 0.0, 0.15]))
        if token_of is None and rng.random() < (0.2 if (raw_hyphen or exotic) else 0.5):
            body = library_statement(rng, t, pool)
        else:
            body = spec_newick(rng, t, pool, token_of, node_comments=rng.random() < 0.3,
                               internal_labels=rng.random() < 0.3, raw_hyphen=raw_hyphen, exotic=exotic)
        out.append(body)
    return out


def gen_newick_doc(rng):
    pool = rng.choice(LABEL_POOLS)
    ntaxa = rng.randint(2, 8)
    n = rng.choice([0, 1, 1, 2, 2, 3, 4, 5, 6])
    stmts = gen_statements(rng, n, pool, ntaxa, raw_hyphen=rng.random() < 0.3, exotic=rng.random() < 0.3)
    doc = rng.choice(["", "", "", "\n", "[lead] ", ";", " ; "])
    missing = False
    for i, s in enumerate(stmts):
        doc += rng.choice(TREE_COMMENTS) + s
        last = i == len(stmts) - 1
        if last and rng.random() < 0.08:
            doc += rng.choice(["", "\n"])
            missing = True
        else:
            doc += rng.choice([";", ";\n", ";\n", " ;\n", ";;\n", "; [after]\n", ";\n\n"])
    doc += rng.choice(["", "", "\n", "[trail]", " [trail]\n", ";"])
    feats = {"schema": "newick", "nstmts": n}
    if missing:
        feats["missing_semicolon"] = True
    return doc, feats


KW_CASE = [str.upper, str.lower, str.title, lambda s: s]


def gen_nexus_doc(rng):
    pool = rng.choice(LABEL_POOLS)
    ntaxa = rng.randint(2, 8)
    from dendropy.dataio import nexusprocessing

    raw_hyphen = rng.random() < 0.35
    exotic = rng.random() < 0.35
    multiline = rng.random() < 0.25          # tree statements that continue on the next line

    def esc(s):
        if raw_hyphen and raw_hyphen_ok(s):
            return s
        return nexusprocessing.escape_nexus_token(s, preserve_spaces=False, quote_underscores=True)
    kc = rng.choice(KW_CASE)
    feats = {"schema": "nexus"}
    if multiline:
        feats["multiline"] = True
    if raw_hyphen:
        feats["raw_hyphen"] = True
    if exotic:
        feats["exotic_lengths"] = True
    doc = rng.choice(["#NEXUS\n", "#NEXUS\n", "#nexus\n", "#NEXUS [file comment]\n", "[pre]#NEXUS\n"])
    if rng.random() < 0.04:
        doc = rng.choice(["", "#NEXU\n", "(a,b);\n"])
        feats["bad_header"] = True
    taxa_titles = []
    block_labels = {}
    ntaxa_blocks = rng.choice([0, 0, 1, 1, 1, 1, 2]) if rng.random() < 0.9 else 0
    feats["taxa_blocks"] = ntaxa_blocks
    for b in range(ntaxa_blocks):
        title = None
        if ntaxa_blocks == 2 or rng.random() < 0.3:
            title = "Taxa%d" % (b + 1)
        taxa_titles.append(title)
        doc += kc("BEGIN") + " " + kc("TAXA") + ";\n"
        if title:
            doc += "  " + kc("TITLE") + " " + title + ";\n"
        declared = ntaxa
        if rng.random() < 0.05:
            declared = ntaxa - 1
            feats["ntax_short"] = True
        if rng.random() < 0.95:
            doc += "  " + kc("DIMENSIONS") + " " + kc("NTAX") + "=%d;\n" % declared
        else:
            feats["no_dimensions"] = True
        labs = pool[:ntaxa]
        if ntaxa_blocks == 2 and b == 1 and rng.random() < 0.5 and len(pool) >= 12:
            labs = pool[12 - ntaxa:]
        block_labels[title] = labs
        doc += "  " + kc("TAXLABELS") + " " + " ".join(esc(l) + rng.choice(["", "", "", "[tc]"]) for l in labs) + " ;\n"
        doc += rng.choice([kc("END"), kc("ENDBLOCK")]) + ";\n"
    if rng.random() < 0.15:
        doc += "BEGIN PAUP;\n  set autoclose=yes;\n  log file=x.log;\nEND;\n"
        feats["unknown_block"] = True
    if rng.random() < 0.16:
        nch = rng.choice([4, 4, 6])
        char_labels = pool[:ntaxa]
        char_link = ""
        if ntaxa_blocks == 2:
            lt = rng.choice([t for t in taxa_titles if t])
            char_link = "  LINK TAXA = %s;\n" % lt
            char_labels = block_labels[lt]
            feats["chars_linked"] = True
        doc += "BEGIN CHARACTERS;\n%s  DIMENSIONS%s NCHAR=%d;\n  FORMAT DATATYPE=DNA MISSING=? GAP=-;\n  MATRIX\n" % (
            char_link, "" if ntaxa_blocks else " NEWTAXA NTAX=%d" % ntaxa, nch)
        for l in char_labels:
            doc += "    %s %s\n" % (esc(l), "".join(rng.choice("ACGT-?") for _ in range(nch)))
        doc += "  ;\nEND;\n"
        feats["chars"] = True
        if feats.get("no_dimensions"):
            feats["chars_without_ntax"] = True      # the MATRIX command needs NTAX: not a valid document for DataSet.get
        if rng.random() < 0.6:
            # character sets: single positions, ranges, ranges with a step, ALL (any capitalisation);
            # the statement that comes last matters for what the block leaves behind in the tokenizer
            forms = ["1-2", "1-%d" % nch, "2 4", "1-%d\\2" % nch, "2-3 1", "ALL", "all", "All", "1 - 3", "3-."]
            k = rng.choice([1, 1, 2, 2, 3])
            chosen = [rng.choice(forms) for _ in range(k)]
            if rng.random() < 0.5:
                chosen[-1] = rng.choice(["ALL", "all", "All"])
            doc += kc("BEGIN") + " " + kc("SETS") + ";\n"
            for i, f in enumerate(chosen):
                doc += "  " + kc("CHARSET") + " cs%d = %s;\n" % (i + 1, f)
            doc += kc("END") + ";\n"
            feats["sets"] = True
            if chosen[-1].upper() == "ALL":
                feats["sets_last_all"] = True
    if not feats.get("chars") and rng.random() < 0.03:
        doc += SETS_BLOCK_KEYWORDS       # set names that are the words begin / trees / tree (legal identifiers)
        feats["sets_keywords"] = True
    nblocks = rng.choice([1, 1, 1, 2, 2, 3])
    feats["trees_blocks"] = nblocks
    counter = 0
    total = 0
    for b in range(nblocks):
        doc += rng.choice(["", "", "[between]\n"])
        doc += kc("BEGIN") + " " + kc("TREES") + rng.choice(["", "", " [bc]"]) + ";\n"
        if rng.random() < 0.2:
            doc += "  " + kc("TITLE") + " Trees%d;\n" % (b + 1)
        linked = None
        if taxa_titles and (ntaxa_blocks == 2 or rng.random() < 0.3):
            cands = [t for t in taxa_titles if t]
            if cands and rng.random() < 0.85:
                linked = rng.choice(cands)
                extra = rng.choice(["", "", "", kc("CHARACTERS") + " = c1 ", "Foo = bar ", "x "])
                if extra and rng.random() < 0.5:
                    doc += "  " + kc("LINK") + " " + kc("TAXA") + " = " + linked + " " + extra.strip() + ";\n"
                else:
                    doc += "  " + kc("LINK") + " " + extra + kc("TAXA") + " = " + linked + ";\n"
                if extra:
                    feats["link_other_target"] = True
                feats["link"] = True
            elif ntaxa_blocks == 2:
                feats["missing_link"] = True
        token_of = None
        ntrees = rng.choice([0, 1, 1, 2, 2, 3, 4])
        full_pool = pool
        if linked is not None:
            pool = block_labels[linked] + [l for l in full_pool if l not in block_labels[linked]]
        if rng.random() < 0.4:
            k = rng.randint(1, ntaxa)
            order = list(range(ntaxa))
            if rng.random() < 0.5:
                rng.shuffle(order)
            chosen = order[:k]
            names = ["%d" % (i + 1) for i in range(k)] if rng.random() < 0.8 else ["tk%d" % i for i in range(k)]
            token_of = {pool[t]: nm for t, nm in zip(chosen, names)}
            doc += "  " + kc("TRANSLATE") + "\n" + ",\n".join("    %s %s" % (nm, esc(pool[t])) for t, nm in zip(chosen, names))
            if rng.random() < 0.03:
                doc += ",;\n"
                feats["translate_trailing_comma"] = True
            else:
                doc += rng.choice([";\n", "\n  ;\n", ";\n"])
            feats["translate"] = True
        if token_of is None and ntaxa_blocks >= 1 and (linked is not None or ntaxa_blocks == 1) and rng.random() < 0.12:
            # taxa referenced by their NUMBER in the (linked) TAXA block, as NEXUS allows
            token_of = {pool[t]: "%d" % (t + 1) for t in range(ntaxa)}
            feats["numeric_refs"] = True
        stmts = gen_statements(rng, ntrees, pool, ntaxa, token_of, raw_hyphen=raw_hyphen, exotic=exotic)
        if multiline:
            stmts = [x.replace(",(", ",\n      (") for x in stmts]
        for s in stmts:
            counter += 1
            total += 1
            name = rng.choice(["tree%d" % counter, "T_%d" % counter, "'my tree %d'" % counter, "%d" % counter])
            doc += rng.choice(["  ", "  ", "  [pre-tree] "]) + kc("TREE") + rng.choice([" ", " ", " * "]) + name
            doc += rng.choice([" = ", " = ", "=", " [nm] = "]) + rng.choice(TREE_COMMENTS) + s + rng.choice([";\n", ";\n", " ;\n", ";;\n"])
        pool = full_pool
        r = rng.random()
        if r < 0.04 and ntrees:
            doc += "  " + kc("TITLE") + " Late;\n"          # token after the last TREE statement: neither TREE nor END
            feats["late_statement"] = True
        end = rng.choice([kc("END"), kc("END"), kc("ENDBLOCK")]) + rng.choice([";\n", ";\n", " ;\n", ";"])
        if b == nblocks - 1 and rng.random() < 0.05:
            end = rng.choice(["", "\n", kc("END")])
            feats["no_end"] = True
        doc += end
    if rng.random() < 0.03:
        doc += "BEGIN TREES;\n  TREE broken ="
        feats["ends_after_eq"] = True
    doc += rng.choice(["", "\n", "[trailing]\n"])
    feats["nstmts"] = total
    return doc, feats


def gen_nexml_doc(rng):
    """NeXML written by the library from a DataSet with 1-2 tree lists (oracle only)"""
    import dendropy
    pool = rng.choice(LABEL_POOLS[:3])
    ntaxa = rng.randint(2, 6)
    ds = dendropy.DataSet()
    ns = ds.new_taxon_namespace()
    objs = [ns.new_taxon(l) for l in pool[:ntaxa]]
    total = 0
    for _ in range(rng.choice([1, 1, 2])):
        tl = ds.new_tree_list(taxon_namespace=ns)
        for _ in range(rng.randint(1, 3)):
            nl = rng.randint(2, ntaxa)
            t = dvtrees.gen_tree(rng, nl, lengths="dyadic", taxa=rng.sample(range(ntaxa), nl))
            tree, _ = dvtrees.build_dendropy(t, objs, is_rooted=rng.choice([True, False]), namespace=ns)
            tree.label = "tr%d" % total
            total += 1
            tl.append(tree)
    return ds.as_string("nexml"), {"schema": "nexml", "nstmts": total}


# store_ignored_blocks=True (keep the text of unknown blocks): exercised once the defect found with it is
# either listed (key SIB_KEY in known_findings.txt) or repaired - see sib_defect()
SIB = {"enabled": False}
SIB_KEY = "store-ignored-blocks-delimiters"
SIB_DOC = "#NEXUS\nBEGIN PAUP;\n  set autoclose=yes;\nEND;\nBEGIN TREES;\n  TREE t1 = (a,\n    (b,c));\nEND;\n"
_SIB_DEFECT = []


def sib_defect():
    """NexusReader._read_block_without_processing saves ALIASES of the tokenizer's delimiter sets, changes the
    sets in place and "restores" the same objects: after an unknown block line ends stay captured delimiters,
    so a tree statement that continues on the next line is malformed for the reader (not for the iterator)"""
    if not _SIB_DEFECT:
        import dendropy
        try:
            dendropy.TreeList.get(data=SIB_DOC, schema="nexus", store_ignored_blocks=True)
            _SIB_DEFECT.append(False)
        except Exception:
            _SIB_DEFECT.append(True)
    return _SIB_DEFECT[0]


def gen_case(rng, schema=None):
    schema = schema or rng.choice(["newick", "nexus", "nexus", "nexus"])
    if schema == "newick":
        doc, feats = gen_newick_doc(rng)
    elif schema == "nexus":
        doc, feats = gen_nexus_doc(rng)
    else:
        doc, feats = gen_nexml_doc(rng)
    if schema != "nexml" and rng.random() < 0.2:
        doc = add_carriage_returns(rng, doc, feats)
    kw2 = {}
    if schema != "nexml":
        if rng.random() < 0.6:
            kw2["store_tree_weights"] = True
        if rng.random() < 0.5:
            kw2["extract_comment_metadata"] = rng.random() < 0.7
        if rng.random() < 0.3:
            kw2["rooting"] = rng.choice(["default-rooted", "default-unrooted", "force-rooted", "force-unrooted"])
        if rng.random() < 0.15:
            kw2["preserve_underscores"] = True
        if rng.random() < 0.1:
            kw2["suppress_edge_lengths"] = True
        if schema == "nexus" and SIB["enabled"] and rng.random() < 0.15:
            kw2["store_ignored_blocks"] = True
    ns0 = []
    if rng.random() < 0.5:
        pool = rng.choice(LABEL_POOLS)
        ns0 = rng.sample(pool, rng.randint(1, 4))
    return {"schema": schema, "doc": doc, "feats": feats, "kw2": kw2, "ns0": ns0,
            "array_offset": rng.choice([0, 0, 1, 2, -1])}


# ----------------------------------------------------------------------------------------------
# implementation side
# ----------------------------------------------------------------------------------------------

def tokenize(doc):
    """run the library's NexusTokenizer: [(text, quoted, comments, eof_after)], end"""
    from dendropy.dataio import nexusprocessing
    tk = nexusprocessing.NexusTokenizer(io.StringIO(doc))
    toks = []
    while True:
        try:
            t = tk.__next__()
        except StopIteration:
            return toks, ["eof", list(tk.captured_comments)]
        except Exception as e:
            return toks, ["err", core.exc_enum(e)]
        toks.append([t, bool(tk.is_token_quoted), list(tk.captured_comments), bool(tk.is_eof())])
        del tk.captured_comments[:]


def sk_tree(tree, ns_index):
    """skeleton form of a delivered tree (what the model's skeleton statement parser predicts)"""
    items = []
    ncs = []

    def f(n):
        kids = n.child_nodes()
        if kids:
            items.append("(")
            for i, k in enumerate(kids):
                if i:
                    items.append(",")
                f(k)
            items.append(")")
        if n.taxon is not None:
            items.append(["T", ns_index.get(id(n.taxon), -1)])
        elif n.label is not None:
            items.append(["L", n.label])
        if n.edge.length is not None:
            items.append(["N", repr(n.edge.length)])
        ncs.extend(n.comments)
        ncs.extend(n.edge.comments)
    f(tree.seed_node)
    return {"label": tree.label, "rooted": tree.is_rooted, "comments": list(tree.comments), "items": items,
            "ncs": sorted(ncs)}


def rich_tree(tree):
    """canonical form for the oracle"""
    def ann(x):
        return sorted((str(a.name), str(a.value)) for a in x.annotations)
    nodes = []
    for n in tree.preorder_node_iter():
        nodes.append([None if n.taxon is None else n.taxon.label, n.label,
                      None if n.edge.length is None else repr(n.edge.length),
                      sorted(n.comments), ann(n), ann(n.edge), len(n.child_nodes())])
    return {"label": tree.label, "rooted": tree.is_rooted,
            "weight": None if tree.weight is None else repr(float(tree.weight)),
            "comments": sorted(tree.comments), "annotations": ann(tree),
            "newick": tree.as_string("newick", suppress_rooting=True, suppress_annotations=True,
                                     suppress_item_comments=True).strip(),
            "nodes": nodes}


def taxa_classes(trees, ns):
    """for every leaf (tree order, preorder) the position of its taxon in the namespace"""
    idx = {id(t): i for i, t in enumerate(ns)}
    out = []
    for t in trees:
        out.append([idx.get(id(n.taxon), -1) for n in t.preorder_node_iter() if n.taxon is not None])
    return out


class Runner:
    """runs every route on one document with one set of reader options"""

    def __init__(self, case, kw, path):
        self.case = case
        self.kw = kw
        self.schema = case["schema"]
        self.doc = case["doc"]
        self.path = path

    def src(self, how):
        if how == "data":
            return {"data": self.doc}
        if how == "file":
            return {"file": io.StringIO(self.doc)}
        return {"path": self.path}

    def guard(self, fn):
        try:
            with core.alarm(ALARM_S):
                return fn()
        except Exception as e:
            return {"err": core.exc_enum(e), "msg": "%s: %s" % (type(e).__name__, str(e)[:150])}

    def treelist(self, how="data", c=None, k=None):
        import dendropy

        def fn():
            kw = dict(self.kw)
            if c is not None:
                kw["collection_offset"] = c
            if k is not None:
                kw["tree_offset"] = k
            tl = dendropy.TreeList.get(schema=self.schema, **self.src(how), **kw)
            return pack(list(tl), tl.taxon_namespace)
        return self.guard(fn)

    def tree(self, c, k, how="data"):
        import dendropy

        def fn():
            kw = dict(self.kw)
            if c is not None:
                kw["collection_offset"] = c
            if k is not None:
                kw["tree_offset"] = k
            t = dendropy.Tree.get(schema=self.schema, **self.src(how), **kw)
            if t is None:
                return {"none": True}
            return pack([t], t.taxon_namespace)
        return self.guard(fn)

    def read(self, ns0, how="data", twice=False):
        import dendropy

        def fn():
            ns = dendropy.TaxonNamespace()
            for l in ns0:
                ns.new_taxon(l)
            tl = dendropy.TreeList(taxon_namespace=ns)
            n0 = 0
            first = None
            if twice:
                tl.read(schema=self.schema, **self.src(how), **self.kw)
                n0 = len(tl)
                first = list(tl)
            n = tl.read(schema=self.schema, **self.src(how), **self.kw)
            r = pack(list(tl)[n0:], ns)
            r["returned"] = n
            if twice:
                r["first"] = pack(first, ns)
            return r
        return self.guard(fn)

    def yielder(self, ns0, how="path"):
        import dendropy
        out = []
        ns = dendropy.TaxonNamespace()
        for l in ns0:
            ns.new_taxon(l)
        err = None
        try:
            with core.alarm(ALARM_S):
                src = self.path if how == "path" else io.StringIO(self.doc)
                for t in dendropy.Tree.yield_from_files([src], self.schema, taxon_namespace=ns, **self.kw):
                    out.append(t)
        except Exception as e:
            err = {"err": core.exc_enum(e), "msg": "%s: %s" % (type(e).__name__, str(e)[:150])}
        r = pack(out, ns)
        r["end"] = err
        return r

    def array(self, k, how="data"):
        import dendropy

        def fn():
            ta = dendropy.TreeArray()
            kw = dict(self.kw)
            if k:
                kw["tree_offset"] = k
            ta.read(schema=self.schema, **self.src(how), **kw)
            return dump_array(ta)
        return self.guard(fn)

    def dataset(self, attached, how="data"):
        import dendropy

        def fn():
            kw = dict(self.kw)
            if attached:
                kw["taxon_namespace"] = dendropy.TaxonNamespace()
                if self.schema == "nexus":
                    kw["exclude_chars"] = True
            ds = dendropy.DataSet.get(schema=self.schema, **self.src(how), **kw)
            blocks = []
            for tl in ds.tree_lists:
                blocks.append(pack(list(tl), tl.taxon_namespace))
            mats = []
            for cm in ds.char_matrices:
                mats.append(dump_matrix(cm))
            return {"blocks": blocks, "mats": mats, "n_ns": len(ds.taxon_namespaces)}
        return self.guard(fn)

    def matcount(self, exclude_trees):
        """number of character matrices DataSet.get(taxon_namespace=fresh[, exclude_trees=True]) delivers (None: error)"""
        import dendropy
        try:
            with core.alarm(ALARM_S):
                kw = dict(self.kw)
                if exclude_trees:
                    kw["exclude_trees"] = True
                ds = dendropy.DataSet.get(data=self.doc, schema=self.schema, taxon_namespace=dendropy.TaxonNamespace(), **kw)
                return len(ds.char_matrices)
        except Exception:
            return None

    def matrix(self, how="data", ns0=None):
        import dendropy

        def fn():
            kw = dict(self.kw)
            if ns0 is not None:
                kw["taxon_namespace"] = dendropy.TaxonNamespace(list(ns0))
            cm = dendropy.DnaCharacterMatrix.get(schema=self.schema, **self.src(how), **kw)
            return dump_matrix(cm)
        return self.guard(fn)


def dump_matrix(cm):
    return {"label": cm.label, "type": type(cm).__name__,
            "rows": [[t.label, "".join(str(s) for s in cm[t])] for t in cm],
            "subsets": sorted((k, list(v.character_indices)) for k, v in cm.character_subsets.items())}


def dump_array(ta):
    return {"n": len(ta), "rooted": ta.is_rooted_trees,
            "splits": [sorted(x) for x in ta._tree_split_bitmasks],
            "lens": [sorted((None if e is None else repr(e)) for e in x) if x is not None else None
                     for x in ta._tree_edge_lengths],
            "weights": [None if w is None else repr(w) for w in ta._tree_weights],
            "ns": [t.label for t in ta.taxon_namespace]}


def pack(trees, ns):
    idx = {id(t): i for i, t in enumerate(ns)}
    return {"sk": [sk_tree(t, idx) for t in trees], "rich": [rich_tree(t) for t in trees],
            "taxa": taxa_classes(trees, ns), "ns": [t.label for t in ns]}


def offsets_for(nblocks, sizes, rng):
    """(collection_offset, tree_offset) pairs incl. None defaults, negatives and out of range"""
    out = [(None, None), (0, 0), (None, 0)]
    for c in range(-1, nblocks + 1):
        n = sizes[c] if 0 <= c < nblocks else (sizes[-1] if c == -1 and nblocks else 0)
        ks = list(range(-1, n + 1)) + [None]
        if len(ks) > 4:
            ks = rng.sample(ks, 4)
        for k in ks:
            out.append((c, k))
    if len(out) > 10:
        out = out[:3] + rng.sample(out[3:], 7)
    seen = []
    for o in out:
        if o not in seen:
            seen.append(o)
    return seen


def observe(case):
    os.makedirs(TMPDIR, exist_ok=True)
    fd, path = tempfile.mkstemp(suffix=".txt", dir=TMPDIR)
    with os.fdopen(fd, "w", newline="") as f:       # no newline translation: the bytes on disk are the document
        f.write(case["doc"])
    try:
        rng = random.Random(hash(case["doc"]) & 0xffffff)
        obs = {"tokens": None, "runs": []}
        if case["schema"] != "nexml":
            obs["tokens"] = tokenize(case["doc"])
        # documents with a carriage return inside a quoted token / comment: the routes compared with the model read
        # the string or a StringIO; every path= route is observed beside its data= twin and beside the data= route
        # on the universal-newline translation of the document (oracle clause source-dispatch)
        inside = cr_inside(case["doc"])
        hows = ["data", "file"] if inside else ["data", "file", "path"]
        if "\r" in case["doc"]:
            with open(path) as f:
                obs["text_mode_reads_translation"] = f.read() == universal_newlines(case["doc"])
        kws = [dict(MODEL_KW)] if case["schema"] != "nexml" else [{}]
        if case["kw2"]:
            kws.append(case["kw2"])
        for kw in kws:
            R = Runner(case, kw, path)
            run = {"kw": kw}
            run["dataset"] = R.dataset(False)
            run["dataset_attached"] = R.dataset(True)
            run["list"] = R.treelist()
            run["list_file"] = R.treelist("file")
            run["list_path"] = R.treelist("path")
            blocks = run["dataset_attached"].get("blocks") if isinstance(run["dataset_attached"], dict) else None
            if blocks is None:
                blocks = run["dataset"].get("blocks") or []
            sizes = [len(b["sk"]) for b in blocks]
            if case["schema"] == "newick" and "sk" in run["list"]:
                sizes = [len(run["list"]["sk"])]
            offs = offsets_for(len(sizes), sizes, rng)
            run["tree"] = [[c, k, R.tree(c, k, how=rng.choice(hows))] for c, k in offs]
            run["list_off"] = [[c, k, R.treelist(rng.choice(hows), c, k)] for c, k in offs if (c, k) != (None, None)]
            run["read"] = R.read(case["ns0"], how=rng.choice(hows))
            run["read_twice"] = R.read(case["ns0"], twice=True)
            run["yield"] = R.yielder(case["ns0"])
            run["yield_file"] = R.yielder(case["ns0"], how="file")
            run["array"] = R.array(case["array_offset"])
            run["array_path"] = R.array(case["array_offset"], how="path")
            if case["schema"] == "nexus":
                run["matcount"] = [[et, R.matcount(et)] for et in (False, True)]
            if case["feats"].get("chars"):
                run["matrix"] = R.matrix()
                run["matrix_path"] = R.matrix("path")
            # [route, data= (or file=) result, path= result, data= result on the translated document or None]
            src = [["TreeList.get(file=)", run["list"], run["list_file"], None],
                   ["TreeList.get", run["list"], run["list_path"], None],
                   ["Tree.yield_from_files", run["yield_file"], run["yield"], None],
                   ["TreeArray.read", run["array"], run["array_path"], None]]
            if "matrix" in run:
                src.append(["CharacterMatrix.get", run["matrix"], run["matrix_path"], None])
            if inside:
                RT = Runner(dict(case, doc=universal_newlines(case["doc"])), kw, None)
                src[1][3] = RT.treelist()
                src[2][3] = RT.yielder(case["ns0"], how="file")
                src[3][3] = RT.array(case["array_offset"])
                if "matrix" in run:
                    src[4][3] = RT.matrix()
                for c, k in offs[:3]:
                    src.append(["Tree.get(collection_offset=%s, tree_offset=%s)" % (c, k), R.tree(c, k), R.tree(c, k, how="path"), RT.tree(c, k)])
                src.append(["TreeList.read", R.read(case["ns0"]), R.read(case["ns0"], how="path"), RT.read(case["ns0"])])
                src.append(["DataSet.get", run["dataset"], R.dataset(False, how="path"), RT.dataset(False)])
            run["src"] = src

            obs["runs"].append(run)
        return obs
    finally:
        try:
            os.unlink(path)
        except OSError:
            pass


# ----------------------------------------------------------------------------------------------
# oracle: the property stated naively on the implementation's observations
# ----------------------------------------------------------------------------------------------

ASPECTS = ["label", "rooted", "weight", "newick", "comments", "annotations", "nodes"]


def diff_trees(a, b):
    """aspects in which two rich trees differ"""
    return [k for k in ASPECTS if a[k] != b[k]]


def diff_lists(A, B):
    """aspects in which two lists of rich trees differ ("count" when the lengths differ)"""
    if len(A) != len(B):
        return ["count"]
    out = []
    for a, b in zip(A, B):
        for d in diff_trees(a, b):
            if d not in out:
                out.append(d)
    return out


def is_err(x):
    return isinstance(x, dict) and "err" in x


PATH_NEWLINES_KEY = "source-dispatch:path-universal-newlines"


def strip_msgs(x):
    """an observation without the exception texts (they may name the source)"""
    if isinstance(x, dict):
        return {k: strip_msgs(v) for k, v in x.items() if k != "msg"}
    if isinstance(x, (list, tuple)):
        return [strip_msgs(v) for v in x]
    return x


def same_result(a, b):
    return strip_msgs(a) == strip_msgs(b)


def first_diff(a, b, where=""):
    """(a's, b's) first differing part of two observations, for messages"""
    a, b = strip_msgs(a), strip_msgs(b)
    if isinstance(a, dict) and isinstance(b, dict) and set(a) == set(b):
        for k in a:
            if a[k] != b[k]:
                return first_diff(a[k], b[k], "%s.%s" % (where, k))
    if isinstance(a, list) and isinstance(b, list) and len(a) == len(b):
        for i, (x, y) in enumerate(zip(a, b)):
            if x != y:
                return first_diff(x, y, "%s[%d]" % (where, i))
    return "%s %r" % (where, a), "%s %r" % (where, b)


UNATTACHED_ERRORS = ("TooManyTaxaError", "UndefinedBlockError", "MultipleBlockWithSameTitleError", "LinkRequiredError")
INVALID_FEATURES = ("ntax_short", "bad_header", "ends_after_eq", "no_end", "late_statement",
                    "missing_semicolon", "missing_link", "translate_trailing_comma", "chars_without_ntax", "fixed")


import re
LINK_2ND_CLAUSE_NOT_UPPER = re.compile(r"(?i:link)\s+\S+\s*=\s*\S+\s+(?!TAXA\b|CHARACTERS\b)(?i:taxa|characters)\b")


def is_valid_doc(case):
    return not any(case["feats"].get(k) for k in INVALID_FEATURES)


def oracle(case, obs):
    """first violation (what, key) or None; oracle_all gives every one"""
    v = oracle_all(case, obs)
    return v[0] if v else None


def oracle_all(case, obs):
    out = []
    seen = set()
    if obs.get("text_mode_reads_translation") is False:
        out.append(("harness: reading the temp file in text mode does not give the universal-newline translation of the document %r"
                     % case["doc"][:200], "harness:text-mode-translation"))
    for run in obs["runs"]:
        for what, key in oracle_run(case, run):
            if key not in seen:
                seen.add(key)
                out.append((what, key))
    return out


def py_get(lst, i):
    try:
        return lst[i], None
    except IndexError:
        return None, "IndexErr"


def err_class(x):
    """the exception class name of an error observation, for narrow keys"""
    return x["msg"].split(":")[0]


def oracle_run(case, run):
    """Every route is compared with ONE reference parse: DataSet.get(taxon_namespace=ns) (one tree list per
    collection; for Newick the single list of TreeList.get).  On documents outside the property's quantifier
    (hand-made invalid ones) only the contents of routes that succeed are compared."""
    kw = run["kw"]
    tag = " (options %s)" % json.dumps(kw, sort_keys=True) if kw else ""
    valid = is_valid_doc(case)
    V = []

    def viol(what, key):
        if kw.get("store_ignored_blocks") and case["feats"].get("unknown_block") and sib_defect():
            key = SIB_KEY
        V.append((what + tag + "; document: %r" % case["doc"][:400], key))

    def err_mismatch(route, got, want_desc, want_err):
        """route failed although the reference delivers / fails differently"""
        if not valid:
            return
        if case["feats"].get("sets_keywords") and is_err(got) and err_class(got) == "NexusReaderError":
            viol("%s fails with %s although %s: a SETS block is left unconsumed when characters are excluded and its "
                 "tokens are scanned for BEGIN" % (route, got["msg"], want_desc), "sets-block-unconsumed")
        elif is_err(got) and err_class(got) in ("LinkRequiredError", "UndefinedBlockError") and want_err is None \
                and LINK_2ND_CLAUSE_NOT_UPPER.search(case["doc"]):
            # _parse_link_statement upper-cases only the first keyword of a LINK statement
            viol("%s fails with %s although %s: the second clause of the LINK statement is matched case-sensitively"
                 % (route, got["msg"], want_desc), "link-clause-case-sensitive")
        elif is_err(got) and err_class(got) in UNATTACHED_ERRORS and want_err is None:
            # TreeList / Tree routes coerce every TAXA block into one namespace without attaching it to the reader
            viol("%s fails with %s although %s" % (route, got["msg"], want_desc), "reader-not-attached:" + err_class(got))
        else:
            viol("%s gives %s although %s" % (route, brief(got), want_desc),
                 "%s:error:%s" % (route.split("(")[0].split(" ")[0], err_class(got) if is_err(got) else "none"))

    if case["schema"] == "newick":
        REF = run["list"]
        ref_blocks = None if is_err(REF) else [REF]
        ref_name = "TreeList.get"
    else:
        REF = run["dataset_attached"]
        ref_blocks = None if is_err(REF) else REF["blocks"]
        ref_name = "DataSet.get(taxon_namespace=ns)"
    if ref_blocks is None:
        ref_err = REF["err"]
        flat = None
    else:
        ref_err = None
        flat = {"rich": [t for b in ref_blocks for t in b["rich"]], "taxa": [x for b in ref_blocks for x in b["taxa"]],
                "ns": ref_blocks[0]["ns"] if ref_blocks else None}

    def cmp_flat(route, got, want, taxa):
        """got: packed result or error; want: {"rich","taxa","ns"} or None (reference failed with ref_err)"""
        if want is None:
            if not is_err(got):
                if valid:
                    viol("%s fails with %s but %s delivers %s" % (ref_name, REF["msg"], route, brief(got)), "sets-block-unconsumed" if case["feats"].get("sets_keywords") else "ref-error-vs-%s" % route.split("(")[0])
            elif got["err"] != ref_err and valid:
                viol("%s fails with %s, %s with %s" % (ref_name, REF["msg"], route, got["msg"]), "error-class:" + route.split("(")[0])
            return
        if is_err(got):
            err_mismatch(route, got, "%s delivers %d trees" % (ref_name, len(want["rich"])), None)
            return
        for d in diff_lists(want["rich"], got["rich"]):
            if d in ("newick", "nodes") and case["feats"].get("numeric_refs"):
                # taxon numbers are resolved against the whole target namespace, not the document's TAXA block
                viol("%s differs from %s in %s: taxa referenced by number resolve to other taxa (target namespace %s)"
                     % (route, ref_name, d, got.get("ns")), "taxon-number-resolution")
            else:
                viol("%s differs from %s in %s (%d / %d trees)" % (route, ref_name, d, len(got["rich"]), len(want["rich"])),
                     "%s:%s" % (route.split("(")[0], d))
        if taxa and want["ns"] is not None and len(want["rich"]) == len(got["rich"]) and (got["taxa"] != want["taxa"] or got["ns"] != want["ns"]):
            viol("%s and %s attach different taxa: %s in %s vs %s in %s" % (route, ref_name, got["taxa"], got["ns"], want["taxa"], want["ns"]),
                 "%s:taxa" % route.split("(")[0])

    # string = stream = path.  A difference between the path= and the data= result is the listed finding
    # PATH_NEWLINES_KEY only if the document has a carriage return inside a quoted token or a comment AND the path=
    # result is what data= gives for the universal-newline translation of the document; anything else is reported
    # under the route's own key
    explained = set()
    doc_cr_inside = cr_inside(case["doc"])
    for name, d, p, t in run.get("src", []):
        if same_result(d, p):
            continue
        if doc_cr_inside and t is not None and same_result(p, t):
            viol("%s: path= delivers %s where data= / file= deliver %s: the path is opened in text mode with universal newlines, "
                 "which rewrites carriage returns inside quoted tokens and comments" % (name, first_diff(d, p)[1], first_diff(d, p)[0]),
                 PATH_NEWLINES_KEY)
            explained.add(name)
        else:
            viol("%s: %s and data= differ: %s vs %s" % (name, "file=" if "file=" in name else "path=", first_diff(d, p)[1], first_diff(d, p)[0]),
                 "source-dispatch:" + name.split("(")[0])
    # whole-list routes
    cmp_flat("TreeList.get", run["list"], flat, True)
    cmp_flat("TreeList.get(file=)", run["list_file"], flat, True)
    if "TreeList.get" not in explained:
        cmp_flat("TreeList.get(path=)", run["list_path"], flat, True)
    same_ns = not case["ns0"]
    Rd = run["read"]
    cmp_flat("TreeList.read", Rd, flat, same_ns)
    if not is_err(Rd) and Rd["returned"] != len(Rd["rich"]):
        viol("TreeList.read returned %d for %d trees added" % (Rd["returned"], len(Rd["rich"])), "read-count")
    # the one-at-a-time iterator (namespace pre-populated with ns0, like TreeList.read)
    for name in ("yield", "yield_file"):
        if name == "yield" and "Tree.yield_from_files" in explained:
            continue
        Y = run[name]
        route = "Tree.yield_from_files" + ("(file object)" if name == "yield_file" else "")
        if Y["end"] is None:
            if flat is not None:
                cmp_flat(route, Y, flat, same_ns)
            elif valid:
                viol("%s fails with %s but %s delivers %d trees" % (ref_name, REF["msg"], route, len(Y["rich"])), "sets-block-unconsumed" if case["feats"].get("sets_keywords") else "ref-error-vs-yield")
            if is_err(Rd):
                err_mismatch("TreeList.read", Rd, "%s into the same namespace delivers %d trees" % (route, len(Y["rich"])), None)
            else:
                for d in diff_lists(Rd["rich"], Y["rich"]):
                    viol("TreeList.read and %s, given the same namespace, differ in %s" % (route, d), "read-vs-yield:" + d)
                if (Rd["taxa"] != Y["taxa"] or Rd["ns"] != Y["ns"]) and len(Rd["rich"]) == len(Y["rich"]):
                    viol("TreeList.read and the iterator, given the same namespace, attach different taxa: %s in %s vs %s in %s"
                         % (Rd["taxa"], Rd["ns"], Y["taxa"], Y["ns"]),
                         "reader-not-attached:nexml-taxa" if case["schema"] == "nexml" else "read-vs-yield:taxa")
        else:
            if flat is not None:
                err_mismatch(route, Y["end"], "%s delivers %d trees" % (ref_name, len(flat["rich"])), None)
                if diff_lists(flat["rich"][:len(Y["rich"])], Y["rich"]):
                    viol("the trees delivered by the iterator before its error are not a prefix of the list", "yield:prefix")
            elif Y["end"]["err"] != ref_err and valid:
                viol("%s fails with %s, the iterator with %s" % (ref_name, REF["msg"], Y["end"]["msg"]), "error-class:yield")
    R2 = run["read_twice"]
    if not is_err(Rd):
        if is_err(R2):
            viol("second TreeList.read of the same text into the same list fails: %s" % R2["msg"], "read-twice:error:" + err_class(R2))
        else:
            for d in diff_lists(R2["first"]["rich"], R2["rich"]):
                viol("two reads of the same text into one list differ in %s" % d, "read-twice:" + d)
            if R2["first"]["taxa"] != R2["taxa"]:
                viol("two reads into one namespace attach equal labels to different taxa: %s vs %s (namespace %s)"
                     % (R2["first"]["taxa"], R2["taxa"], R2["ns"]),
                     "reader-not-attached:nexml-taxa" if case["schema"] == "nexml" else "read-twice:taxa")
    # DataSet.get without a namespace: one namespace per TAXA block, so taxa are compared by label only
    D = run["dataset"]
    if case["feats"].get("sets_keywords"):
        pass        # a SETS block without a CHARACTERS block: DataSet.get (which reads characters) has nothing to attach the sets to
    elif case["schema"] != "newick":
        if is_err(D):
            cmp_flat("DataSet.get", D, flat, False)
        else:
            got = {"rich": [t for b in D["blocks"] for t in b["rich"]], "taxa": None, "ns": None}
            cmp_flat("DataSet.get", got, flat, False)
            if flat is not None and [len(b["rich"]) for b in D["blocks"]] != [len(b["rich"]) for b in ref_blocks]:
                viol("DataSet.get groups the trees as %s, %s as %s" % ([len(b["rich"]) for b in D["blocks"]], ref_name,
                                                                       [len(b["rich"]) for b in ref_blocks]), "dataset:grouping")
    else:
        for name in ("dataset", "dataset_attached"):
            Dn = run[name]
            if is_err(Dn):
                cmp_flat("DataSet.get", Dn, flat, False)
            else:
                cmp_flat("DataSet.get", {"rich": [t for b in Dn["blocks"] for t in b["rich"]], "taxa": None, "ns": None}, flat, False)
    # offsets: Tree.get(c, k) = blocks[c][k]; TreeList.get(c, k) = blocks[c][k:]
    blocks = None if ref_blocks is None else [b["rich"] for b in ref_blocks]
    for c, k, o in run["tree"]:
        route = "Tree.get(collection_offset=%s, tree_offset=%s)" % (c, k)
        if blocks is None:
            cmp_flat(route, o, None, False)
            continue
        cc = 0 if c is None else c
        kk = 0 if k is None else k
        want = None
        experr = None
        if not blocks:
            experr = "ValueErr"
        else:
            b, experr = py_get(blocks, cc)
            if experr is None:
                if not b:
                    experr = "ValueErr"
                else:
                    want, experr = py_get(b, kk)
        if experr:
            if not is_err(o):
                viol("%s returns a tree, expected %s (collections %s)" % (route, experr, [len(b) for b in blocks]), "tree-get:out-of-range")
            elif o["err"] != experr:
                if err_class(o) in UNATTACHED_ERRORS:
                    err_mismatch(route, o, "%s delivers collections %s" % (ref_name, [len(b) for b in blocks]), None)
                elif valid:
                    viol("%s gives %s, expected %s (collections %s)" % (route, brief(o), experr, [len(b) for b in blocks]), "tree-get:out-of-range")
            continue
        if is_err(o) or "none" in o:
            err_mismatch(route, o, "%s delivers collections %s" % (ref_name, [len(b) for b in blocks]), None)
            continue
        for d in diff_trees(want, o["rich"][0]):
            viol("%s differs from tree %s of collection %s in %s: %r vs %r" % (route, kk, cc, d, o["rich"][0][d], want[d]), "tree-get:" + d)
    for c, k, o in run["list_off"]:
        route = "TreeList.get(collection_offset=%s, tree_offset=%s)" % (c, k)
        if blocks is None:
            cmp_flat(route, o, None, False)
            continue
        cc = 0 if c is None else c
        b = None
        if cc >= len(blocks):
            experr = "IndexErr"
        else:
            b, experr = py_get(blocks, cc)
        want = None
        if experr is None:
            if k is not None and k >= len(b):
                experr = "IndexErr"
            else:
                want = b if k is None else b[k:]
        if experr:
            if not is_err(o):
                viol("%s succeeds, expected %s (collections %s)" % (route, experr, [len(b) for b in blocks]), "list-offset:out-of-range")
            elif o["err"] != experr:
                if err_class(o) in UNATTACHED_ERRORS:
                    err_mismatch(route, o, "%s delivers collections %s" % (ref_name, [len(b) for b in blocks]), None)
                elif valid:
                    viol("%s gives %s, expected %s" % (route, brief(o), experr), "list-offset:out-of-range")
            continue
        if is_err(o):
            err_mismatch(route, o, "%s delivers collections %s" % (ref_name, [len(b) for b in blocks]), None)
            continue
        for d in diff_lists(want, o["rich"]):
            viol("%s differs from blocks[c][k:] in %s" % (route, d), "list-offset:" + d)
    # tree array
    oracle_array(case, run, viol, flat, valid)
    # character matrix alone vs in data set
    if "matrix" in run:
        D0 = run["dataset"]
        for name in ("matrix", "matrix_path"):
            if name == "matrix_path" and "CharacterMatrix.get" in explained:
                continue
            M = run[name]
            what = "CharacterMatrix.get" + ("(taxon_namespace=<namespace holding %s>)" % case["ns0"] if name == "matrix_ns0" else "")
            if is_err(D0) != is_err(M):
                if valid and is_err(M) and err_class(M) in UNATTACHED_ERRORS:
                    # CharacterMatrix.get hands its namespace to the reader through a factory without attaching it
                    viol("DataSet.get reads the matrix but %s fails with %s" % (what, M["msg"]),
                         "matrix-reader-not-attached:" + err_class(M))
                elif valid:
                    viol("DataSet.get gives %s, %s gives %s" % (brief(D0), what, brief(M)), "matrix:error")
            elif not is_err(M) and (len(D0["mats"]) != 1 or D0["mats"][0] != M):
                viol("%s %s differs from the matrix in DataSet.get %s" % (what, M, D0["mats"]), "matrix:content")
    return V


def oracle_array(case, run, viol, flat, valid):
    """TreeArray.read = an array filled tree by tree from the reference trees (re-read through the attached
    DataSet route so that the Tree objects are available)"""
    import dendropy
    A = run["array"]         # data= vs path=: clause source-dispatch of oracle_run
    kw = dict(run["kw"])
    k = case["array_offset"]
    try:
        with core.alarm(ALARM_S):
            ns = dendropy.TaxonNamespace()
            if case["schema"] == "newick":
                trees = list(dendropy.TreeList.get(data=case["doc"], schema=case["schema"], taxon_namespace=ns, **kw))
            else:
                if case["schema"] == "nexus":
                    kw["exclude_chars"] = True
                ds = dendropy.DataSet.get(data=case["doc"], schema=case["schema"], taxon_namespace=ns, **kw)
                trees = [t for tl in ds.tree_lists for t in tl]
            ta = dendropy.TreeArray(taxon_namespace=ns)
            for i, t in enumerate(trees):
                if i >= k:
                    ta.add_tree(t)
            want = dump_array(ta)
    except Exception as e:
        want = {"err": core.exc_enum(e), "msg": "%s: %s" % (type(e).__name__, str(e)[:100])}
    if is_err(want) != is_err(A):
        if valid or not is_err(A):
            viol("TreeArray.read gives %s; filling an array from the reference trees gives %s" % (brief(A), brief(want)),
                 "sets-block-unconsumed" if case["feats"].get("sets_keywords") else "array:error:" + err_class(A if is_err(A) else want))
        return
    if is_err(A):
        return
    for f in ("n", "rooted", "splits", "lens", "weights", "ns"):
        if A[f] != want[f]:
            viol("TreeArray.read differs from an array filled from the reference trees in %s: %s vs %s" % (f, A[f], want[f]), "array:" + f)


def brief(x):
    if is_err(x):
        return x["msg"]
    if isinstance(x, dict) and "rich" in x:
        return "%d trees" % len(x["rich"])
    if isinstance(x, dict) and "blocks" in x:
        return "blocks %s" % [len(b["rich"]) for b in x["blocks"]]
    return str(x)[:80]


# ----------------------------------------------------------------------------------------------
# Coq terms
# ----------------------------------------------------------------------------------------------

def cs(s):
    """Python str -> Coq term of type str (list Z)"""
    if s == "":
        return "[]"
    if all(32 <= ord(ch) < 127 and ch != '"' for ch in s):
        return '(q "%s")' % s
    return "[" + ";".join(str(ord(ch)) for ch in s) + "]"


def cstrs(l):
    return "[" + ";".join(cs(x) for x in l) + "]"


def c_token(t):
    text, quoted, comments, eof = t
    if not quoted and not eof:
        if not comments:
            return "(w %s)" % cs(text)
        return "(wc %s %s)" % (cs(text), cstrs(comments))
    return "(mkTok %s %s %s %s)" % (cs(text), cbool(quoted), cstrs(comments), cbool(eof))


def c_end(e):
    if e[0] == "eof":
        return "(EndEof %s)" % cstrs(e[1])
    return "(EndErr %s)" % e[1]


def c_item(it):
    if it == "(":
        return "IOpen"
    if it == ")":
        return "IClose"
    if it == ",":
        return "IComma"
    if it[0] == "T":
        return "(ITaxon %d%%nat)" % it[1]
    if it[0] == "L":
        return "(ILabel %s)" % cs(it[1])
    return "(ILen %s)" % cs(it[1])


_SK_NAMES = {}


def c_sk(t):
    """a tree term; identical trees of one case are bound once by a `let` (see to_coq)"""
    term = "(mkSk (Some %s) %s %s [%s] %s)" % (copt(t["label"], cs), copt(t["rooted"], cbool), cstrs(t["comments"]),
                                                ";".join(c_item(i) for i in t["items"]), cstrs(t["ncs"]))
    if term not in _SK_NAMES:
        _SK_NAMES[term] = "a%d" % len(_SK_NAMES)
    return _SK_NAMES[term]


def c_sks(l):
    return "[" + ";".join(c_sk(t) for t in l) + "]"


def c_oz(x):
    return copt(x, cz)


def c_err(o):
    return "(Err %s)" % o["err"]


def lower_pairs(strings):
    tbl = {}
    for s in strings:
        for ch in s:
            if ord(ch) > 127:
                lo, up = ch.lower(), ch.upper()
                if len(lo) != 1 or len(up) != 1:
                    raise RuntimeError("case mapping of %r is not one character" % ch)
                if lo != up:
                    tbl[ord(up)] = ord(lo)
    return sorted(tbl.items())


_VARIANTS = {}
LINK_CASE_DOC = ("#NEXUS\nBEGIN TAXA; TITLE T1; DIMENSIONS NTAX=2; TAXLABELS a b; END;\n"
                 "BEGIN TAXA; TITLE T2; DIMENSIONS NTAX=2; TAXLABELS c d; END;\n"
                 "BEGIN TREES; LINK CHARACTERS = c1 taxa = T1; TREE x = (a,b); END;\n")


def variants():
    """which form of the sites with a recorded finding the working tree has (Model/C13Model.v:
    v_attach, v_keep_label, v_link_ucase, v_sets_consume) - decided by replaying the findings on the implementation"""
    if not _VARIANTS:
        import dendropy
        doc = FIXED_DOCS[1][1]          # two TAXA blocks, LINKed TREES blocks
        try:
            dendropy.TreeList.get(data=doc, schema="nexus")
            _VARIANTS["attach"] = True
        except Exception:
            _VARIANTS["attach"] = False
        t = dendropy.Tree.get(data=FIXED_DOCS[0][1], schema="nexus")
        _VARIANTS["keep_label"] = t.label == "foo"
        try:        # is the keyword of a second LINK clause matched case-insensitively?
            dendropy.DataSet.get(data=LINK_CASE_DOC, schema="nexus")
            _VARIANTS["link_ucase"] = True
        except Exception:
            _VARIANTS["link_ucase"] = False
        try:        # does the reader skip a SETS block when characters are excluded?
            dendropy.TreeList.get(data=SETS_KEYWORDS_DOC, schema="nexus")
            _VARIANTS["sets_consume"] = True
        except Exception:
            _VARIANTS["sets_consume"] = False
    return _VARIANTS["attach"], _VARIANTS["keep_label"], _VARIANTS["link_ucase"], _VARIANTS["sets_consume"]


def to_coq(case, obs):
    _SK_NAMES.clear()
    body = to_coq_body(case, obs)
    lets = "".join("let %s := %s in " % (name, term) for term, name in _SK_NAMES.items())
    counts = [(et, n) for et, n in obs["runs"][0].get("matcount", []) if n is not None]
    return "(mkCase2 (%s%s) [%s])" % (lets, body, ";".join("(%s, %d%%nat)" % (cbool(et), n) for et, n in counts))


def to_coq_body(case, obs):
    toks, end = obs["tokens"]
    run = obs["runs"][0]
    routes = []
    L = run["list"]
    routes.append(("RList", "(OList %s)" % (c_err(L) if is_err(L) else "(Ok (%s, %s))" % (c_sks(L["sk"]), cstrs(L["ns"])))))
    for c, k, o in run["list_off"]:
        routes.append(("(RListOff %s %s)" % (c_oz(c), c_oz(k)), "(OTrees %s)" % (c_err(o) if is_err(o) else "(Ok %s)" % c_sks(o["sk"]))))
    for c, k, o in run["tree"]:
        routes.append(("(RTree %s %s)" % (c_oz(c), c_oz(k)), "(OTree %s)" % (c_err(o) if is_err(o) else "(Ok %s)" % c_sk(o["sk"][0]))))
    Rd = run["read"]
    routes.append(("(RRead %s)" % cstrs(case["ns0"]), "(OList %s)" % (c_err(Rd) if is_err(Rd) else "(Ok (%s, %s))" % (c_sks(Rd["sk"]), cstrs(Rd["ns"])))))
    R2 = run["read_twice"]
    routes.append(("(RReadTwice %s)" % cstrs(case["ns0"]), "(OList %s)" % (c_err(R2) if is_err(R2) else "(Ok (%s, %s))" % (c_sks(R2["sk"]), cstrs(R2["ns"])))))
    Y = run["yield_file"] if cr_inside(case["doc"]) else run["yield"]      # path= rewrites such a document, see oracle
    routes.append(("(RYield %s)" % cstrs(case["ns0"]), "(OYield %s %s)" % (c_sks(Y["sk"]), c_err(Y["end"]) if Y["end"] else "(Ok %s)" % cstrs(Y["ns"]))))
    for attached, name in ((False, "dataset"), (True, "dataset_attached")):
        D = run[name]
        if case["feats"].get("chars") and not attached and not is_err(D):
            continue        # DataSet.get reads the characters (not modelled); the attached variant is compared
        if case["feats"].get("chars"):
            continue
        if not attached and re.search(r"BEGIN\s+(SETS|ASSUMPTIONS|CODONS)", case["doc"].upper()):
            continue        # DataSet.get reads such a block (characters are not excluded): not modelled
        routes.append(("(RDataset %s)" % cbool(attached),
                       "(OBlocks %s)" % (c_err(D) if is_err(D) else "(Ok [%s])" % ";".join(c_sks(b["sk"]) for b in D["blocks"]))))
    strings = [t[0] for t in toks] + list(case["ns0"])
    low = "[" + ";".join("(%d,%d)" % p for p in lower_pairs(strings)) + "]"
    va, vk, vl, vs = variants()
    return "(mkCase %s %s %s %s %s %s [%s] %s [%s])" % (cbool(va), cbool(vk), cbool(vl), cbool(vs), cbool(case["schema"] == "nexus"), low, ";".join(c_token(t) for t in toks),
                                            c_end(end), ";".join("(%s, %s)" % r for r in routes))


def nontrivial(case, obs):
    return case["feats"].get("nstmts", 0) >= 2


def sample_fn(case, obs):
    run = obs["runs"][0]
    return {"doc": case["doc"][:400], "list": brief(run["list"]), "yield": brief(run["yield"]),
            "tree_get": [[c, k, brief(o)] for c, k, o in run["tree"][:4]]}


# ----------------------------------------------------------------------------------------------

def count_case(ctx, case, obs):
    f = case["feats"]
    ctx.count("schema:" + case["schema"])
    ctx.count("statements:%d" % min(f.get("nstmts", 0), 7))
    for k in ("taxa_blocks", "trees_blocks"):
        if k in f:
            ctx.count("%s:%d" % (k, f[k]))
    for k in ("translate", "numeric_refs", "sets_keywords", "chars_linked", "link", "link_other_target", "unknown_block", "chars", "sets", "late_statement", "no_end", "ends_after_eq",
              "bad_header", "ntax_short", "no_dimensions", "cr_eol", "cr_quoted", "cr_comment"):
        if f.get(k):
            ctx.count("feature:" + k)
    if "\r" in case["doc"]:
        ctx.count("carriage returns:%s" % ("inside a quoted token or comment" if cr_inside(case["doc"]) else "as whitespace only"))
    run = obs["runs"][0]
    ctx.count("list outcome:%s" % (run["list"]["err"] if is_err(run["list"]) else "ok"))
    ctx.count("yield outcome:%s" % (run["yield"]["end"]["err"] if run["yield"]["end"] else "ok"))
    for c, k, o in run["tree"]:
        ctx.count("Tree.get outcome:%s" % (o["err"] if is_err(o) else "ok"))
    for kw in case["kw2"]:
        ctx.count("option:" + kw)


FIXED_DOCS = [
    ("nexus", "#NEXUS\nBEGIN TREES;\nTREE foo = [&R] (a,b);\nTREE bar = (a,(b,c));\nEND;\n"),
    ("nexus", "#NEXUS\nBEGIN TAXA; TITLE T1; DIMENSIONS NTAX=2; TAXLABELS a b; END;\n"
              "BEGIN TAXA; TITLE T2; DIMENSIONS NTAX=2; TAXLABELS c d; END;\n"
              "BEGIN TREES; LINK TAXA = T1; TREE x = (a,b); END;\nBEGIN TREES; LINK TAXA = T2; TREE y = (c,d); END;\n"),
    ("nexus", "#NEXUS\nBEGIN TREES; TRANSLATE 1 a, 2 b; TREE x = (1,2); END;\nBEGIN TREES; TREE y = (1,2,c); END;\n"),
    ("nexus", "#NEXUS\nBEGIN TREES; TREE x = (a,b); TRANSLATE 1 a, 2 b; TREE y = (1,2); END;\n"),
    ("nexus", "#NEXUS\nBEGIN TREES; END;\nBEGIN TREES; TREE y = (a,b); END;\n"),
    ("nexus", "#NEXUS\nBEGIN TREES;\n  TREE t ="),
    ("nexus", "#NEXUS\nBEGIN TREES;\n  TRANSLATE 1 A; TREE t = (1,A,b);\nEND;\nBEGIN TREES; TREE u = (A,b); END;"),
    ("nexus", "#NEXUS\nBEGIN TAXA; TAXLABELS a b; END;\nBEGIN TREES; LINK FOO = x; TREE t = (a,b); END;\n"),
    ("nexus", "#NEXUS\nBEGIN TREES; LINK TAXA = x"),
    ("nexus", "#NEXUS\nBEGIN TAXA; TAXLABELS a b"),
    ("nexus", " \n"),
    ("nexus", "#NEXUS\nBEGIN TAXA; TITLE T1; DIMENSIONS NTAX=2; TAXLABELS a b; END;\nBEGIN TAXA; TITLE T2; DIMENSIONS NTAX=2; TAXLABELS c d; END;\n"
              "BEGIN TREES; LINK TAXA = T2; TREE y = (1,2); END;\n"),
    ("nexus", SETS_KEYWORDS_DOC),
    ("nexus", CHARS_SETS_HYPHEN_DOC),
    ("nexus", CHARS_SETS_HYPHEN_DOC.replace("CHARSET whole = ALL;", "CHARSET part = 2-3;")),
    ("newick", "(a,b);(c,d);"),
    ("newick", ""),
    ("newick", "(a,b)"),
    ("newick", "[&R](a:1.0,b:2.0):0.5;\n[&U] (a,(b,c));;\n"),
    # carriage returns: inside a quoted label (finding PATH_NEWLINES_KEY: path= delivers 'a\nb'), inside comments,
    # as line terminators only (no route may see a difference)
    ("newick", "('a\r\nb',c,d);\n"),
    ("newick", "[&R] (a[x\r\ny],c,d)[top\rcomment];\r\n"),
    ("newick", "(a,b);\r\n(c,d);\r(a,(b,c));\r\n"),
    ("nexus", "#NEXUS\r\nBEGIN TAXA;\r\n  DIMENSIONS NTAX=2;\r\n  TAXLABELS 'a\rb' c;\r\nEND;\r\n"
              "BEGIN TREES;\r\n  TREE 'my\r\ntree' = [&R] ('a\rb',c);\r\nEND;\r\n"),
    ("nexus", "#NEXUS\rBEGIN TAXA;\r  DIMENSIONS NTAX=3;\r  TAXLABELS a b c;\rEND;\r"
              "BEGIN TREES;\r  TRANSLATE 1 a,\r 2 b,\r 3 c;\r  TREE t1 = [&R] (1,\r    (2,3));\r\nEND;\r"),
]


def fixed_cases():
    out = []
    for schema, doc in FIXED_DOCS:
        # "fixed" marks a hand-made document that may lie outside the property's quantifier (only contents of
        # routes that succeed are compared); the characters + SETS documents are valid ones
        out.append({"schema": schema, "doc": doc, "feats": {"schema": schema, "nstmts": doc.count("(") and 2,
                                                           "fixed": "BEGIN CHARACTERS" not in doc,
                                                           "numeric_refs": "(1,2" in doc, "sets_keywords": "CHARSET both" in doc,
                                                           "chars": "BEGIN CHARACTERS" in doc, "sets": "BEGIN SETS" in doc and "BEGIN CHARACTERS" in doc,
                                                           "taxa_blocks": doc.upper().count("BEGIN TAXA")},
                    "kw2": {"store_tree_weights": True}, "ns0": ["b", "zz"], "array_offset": 0})
    return out


def exhaustive_cases():
    """small scopes, every combination:
    Newick: every sequence of <= 3 statements over 3 statement forms x 3 separators, x 2 document endings;
    NEXUS: TAXA block (absent / plain / titled + LINK) x first TREES block (0-2 trees, TRANSLATE or not,
    rooting comment or not) x second TREES block (absent or the same choices)"""
    import itertools
    out = []

    def mk(schema, doc, nst, **feats):
        f = {"schema": schema, "nstmts": nst, "exhaustive": True}
        f.update(feats)
        out.append({"schema": schema, "doc": doc, "feats": f, "kw2": {}, "ns0": [], "array_offset": 0})

    stm = ["(a,b)", "[&R] ((a:1.0,b:2.0)x:0.5,c)", "[&U][w] a"]
    seps = [";", ";\n", ";; [c]\n"]
    for n in range(0, 4):
        for combo in itertools.product(itertools.product(stm, seps), repeat=n):
            for end in ("", "\n"):
                mk("newick", "".join(a + b for a, b in combo) + end, n)
    taxa_opts = [None, "plain", "titled"]
    block_opts = [(nt, tr, rc) for nt in (0, 1, 2) for tr in (False, True) for rc in (False, True)]

    def block(opt, title, start):
        nt, tr, rc = opt
        s = "BEGIN TREES;\n"
        if title:
            s += "  LINK TAXA = %s;\n" % title
        names = {"a": "a", "b": "b", "c": "c"}
        if tr:
            s += "  TRANSLATE 1 a, 2 b, 3 c;\n"
            names = {"a": "1", "b": "2", "c": "3"}
        for i in range(nt):
            body = "(%s,(%s,%s))" % (names["a"], names["b"], names["c"]) if i == 0 else "(%s:1.0,%s:2.5)" % (names["c"], names["a"])
            s += "  TREE t%d = %s%s;\n" % (start + i, "[&R] " if (rc and i == 0) else "", body)
        return s + "END;\n", nt
    for tx in taxa_opts:
        for b1 in block_opts:
            for b2 in [None] + block_opts:
                doc = "#NEXUS\n"
                title = None
                if tx:
                    title = "Tx" if tx == "titled" else None
                    doc += "BEGIN TAXA;\n%s  DIMENSIONS NTAX=3;\n  TAXLABELS a b c;\nEND;\n" % ("  TITLE Tx;\n" if title else "")
                t1, n1 = block(b1, title, 1)
                doc += t1
                n2 = 0
                if b2 is not None:
                    t2, n2 = block(b2, title, n1 + 1)
                    doc += t2
                mk("nexus", doc, n1 + n2, taxa_blocks=1 if tx else 0, trees_blocks=1 if b2 is None else 2,
                   translate=b1[1] or bool(b2 and b2[1]), link=bool(title))
    return out


def search(ctx, budget_s):
    t0 = time.time()
    rng = random.Random(ctx.seed + 1313)
    n = 0
    import sys
    base = sys.modules[__name__]
    pending = interleave.fixed_cases()
    pending_shared = shared.fixed_cases()
    while time.time() - t0 < budget_s and n < 5000:
        if pending_shared or n % 3 == 1:
            # shared-namespace histories: one text, one namespace object (empty or pre-populated) handed to a sequence of routes
            case = pending_shared.pop(0) if pending_shared else shared.gen_case(rng, base)
            vs = shared.oracle_all(case, shared.observe(case, base), base)
        elif pending or n % 3 == 2:
            # interleaved route histories: readers alive at once, each on its own document and namespace
            case = pending.pop(0) if pending else interleave.gen_case(rng, base)
            vs = interleave.oracle_all(case, interleave.observe(case, base), base)
        else:
            case = gen_case(rng, rng.choice(["newick", "nexus", "nexus", "nexml"]))
            vs = oracle_all(case, observe(case))
        n += 1
        for v in vs:
            ctx.violation(v[0], {"case": case}, key=v[1])
        if ctx.violations:
            return
    ctx.notes.append("search: %d further documents / interleaved histories / shared-namespace histories through the oracle, no unlisted violation" % n)


def run(tier, seed, replay=None):
    ctx = core.Ctx("C13", tier, seed)
    ctx.assumptions = [
        "model coq/Model/C13Model.v is a hand transcription of the route drivers; tied by this correspondence run",
        "the Newick statement parser is an arbitrary function in the theorems; the correspondence run instantiates it with a skeleton parser (statement boundaries, comments, rooting tokens, taxon symbol resolution)",
        "string / stream / path dispatch (beyond the characters handed to the tokenizer, Model/C13Newlines.v: path= = universal-newline translation, a hand transcription checked against a text-mode read of the temp file), NeXML routes, character matrices: implementation-side oracle only",
        "symbol mapper (wave 6): class NexusTaxonSymbolMapper is compiled by py/dv/gen_routes_mapper.py into Gen/RoutesMapper.v over coq/Model/C13MapPrims.v (dicts as association lists, CaseInsensitiveDict = lower-cased keys; trusted: these stated semantics, TaxonNamespace.label_taxon_map / new_taxon, case_sensitive=False folded) and proved equal to the model's mapper; the operations of C13GenPrims.v through which the block drivers use the mapper (construction, add_translate_token, lookup_taxon_symbol) are proved to be the compiled methods; bool defaults of compiled reader methods are read off the AST",
        "readers alive at once (wave 7): py/dv/gen_routes_mapper_obj.py compiles the mapper class a second time over a store of container objects (coq/Model/C13MapObjPrims.v: which container each statement allocates / rebinds / mutates in place / reads; an attribute bound in the class body and not rebound by __init__ resolves to one container shared by all instances; the value-level translator fails closed on such an attribute); Proofs/C13MapObj.v proves the object-level methods refine the value-level ones with a frame, Proofs/C13MapObjSys.v that two mappers built in one store share no table and that any interleaving of two readers' mapper steps gives each the answers of the model's mapper run alone; trusted: the store semantics (identities, allocation on {} / CaseInsensitiveDict(..), in-place [k]=v / clear()) and that a reader touches its mapper only through construction / add_translate_token / lookup_taxon_symbol / require_taxon_for_symbol; the interleaved route histories of py/dv/c13_interleave.py tie this to the library by the implementation-side oracle only (they are not run through the model)",
        "namespace selection (wave 8): py/dv/gen_routes_select.py compiles the namespace-selection statements of DataReader.read_dataset and DataSet._parse_and_add_from_stream (= DataSet.read) into Gen/RoutesSelect.v over coq/Model/C13SelectPrims.v, where `is None` / `is` are identity of handles but a TRUTH TEST of a namespace expression (x or y, if x:, not x) is ns_truthy st x = the namespace object has members in the store st (TaxonNamespace defines __len__): None and an empty namespace are distinguished; trusted: that reading of Python truthiness, `lambda label: x` = a factory returning x (captured names are checked not to be re-bound), taxonmodel.process_kwargs_dict_for_taxon_namespace returning the keyword or None, dataio.get_reader returning an unattached reader; DataSet.read beyond the selection and every other route handed a shared namespace are tied by the shared-namespace histories of py/dv/c13_shared.py (implementation-side oracle only)",
        "translator tie (Gen/Routes.v, Props/C13Gen.v): trusted are the compiler py/dv/gen_routes.py and the stated Python meaning of the interface operations in coq/Model/C13GenPrims.v (tokenizer methods, _get_taxon_namespace, _get_taxon_symbol_mapper, _parse_translate_statement, _parse_taxa_block, _new_tree_list, _build_tree_from_newick_tree_string, comment processing, reader.read_tree_lists glue in Proofs/C13GenEntry.v route_reader); these are tied to the source by the correspondence run only",
    ]
    if replay:
        r = json.load(open(replay))["replay"]
        case = r["case"]
        if case.get("kind") == "interleaved":
            import sys
            base = sys.modules[__name__]
            vs = interleave.oracle_all(case, interleave.observe(case, base), base)
        elif case.get("kind") == "shared":
            import sys
            base = sys.modules[__name__]
            vs = shared.oracle_all(case, shared.observe(case, base), base)
        else:
            obs = observe(case)
            vs = oracle_all(case, obs)
        print("document:", case["doc"])
        print("oracle:", vs if vs else "no violation")
        return 1 if vs else 0
    SIB["enabled"] = (SIB_KEY in ctx.known) or not sib_defect()
    if not SIB["enabled"]:
        ctx.notes.append("reader option store_ignored_blocks=True not exercised: defect %s is present and not listed" % SIB_KEY)
    # translator tie: coq/Gen/Routes.v is re-derived from the current source by py/dv/gen_routes.py on every run;
    # Props/C13Gen.v proves the compiled functions equal to the hand model
    ok = core.proof_stage(ctx, ["Props/C13.vo", "Model/C13CharsCase.vo", "Props/C13Gen.vo"], gen_needed=("Routes",))
    ok = core.proof_stage(ctx, ["Props/C13Gen.vo"], props_file="Props/C13Gen.v", gen_needed=("Routes",)) and ok
    # Example level: the abstract statement parser instantiated with the one property C02's translator compiles
    # (read-only use of C02's files; if they change shape this is reported as a note, not as a C13 failure)
    ok_c02, _log = core.coq_make(["Proofs/C13GenC02Example.vo"], regenerate=True)
    if ok_c02:
        ctx.obligation("Proofs/C13GenC02Example.vo: routes instantiated with C02's compiled Newick statement parser", True)
    else:
        ctx.notes.append("Proofs/C13GenC02Example.v did not build (interface of C02's Gen/NewickGen.v changed?): corollary skipped")
    if not ok:
        core.broken_proof(ctx, search)
    n = 260 if tier == "quick" else 3000
    cases = fixed_cases() + [gen_case(ctx.rng) for _ in range(n)]
    if tier == "thorough":
        cases.extend(exhaustive_cases())
    model_cases = [c for c in cases if c["schema"] != "nexml"]

    def observe_counted(case):
        obs = observe(case)
        count_case(ctx, case, obs)
        return obs

    def oracle_every(case, obs):
        """report every violation of a case (a listed finding must not hide another one)"""
        vs = oracle_all(case, obs)
        for what, key in vs[:-1]:
            ctx.violation(what, {"case": case}, key=key)
        return vs[-1] if vs else None

    core.corr_stage(ctx, model_cases, observe_counted, to_coq, HEADER, "case2_ok", oracle=oracle_every,
                    show_fn="case2_run", nontrivial=nontrivial, search=search, shard=40, sample_fn=sample_fn)
    # NeXML: implementation-side oracle only
    m = 25 if tier == "quick" else 400
    for _ in range(m):
        case = gen_case(ctx.rng, "nexml")
        try:
            obs = observe(case)
        except Exception as e:
            ctx.violation("harness could not observe a NeXML document: %s" % e, {"case": case}, no_input=True)
            continue
        ctx.evaluations += 1
        ctx.count("schema:nexml")
        for v in oracle_all(case, obs):
            ctx.violation(v[0], {"case": case}, key=v[1])
    # interleaved route histories: implementation-side oracle (the model-level statement is Props/C13.v
    # interleaved_readers_independent: mapper objects built by new_mapper share no table)
    import sys
    base = sys.modules[__name__]
    il_cases = interleave.fixed_cases() + [interleave.gen_case(ctx.rng, base) for _ in range(400 if tier == "quick" else 6000)]
    for case in il_cases:
        try:
            obs = interleave.observe(case, base)
        except Exception as e:
            ctx.violation("harness could not observe an interleaved history: %s: %s" % (type(e).__name__, e), {"case": case}, no_input=True)
            continue
        ctx.evaluations += 1
        interleave.count_case(ctx, case, obs)
        for v in interleave.oracle_all(case, obs, base):
            ctx.violation(v[0], {"case": case}, key=v[1])
    # shared-namespace histories (wave 8): one text, one set of options, ONE namespace object - empty or pre-populated
    # when first used - handed to a sequence of routes (DataSet.read into unattached / attached / already filled data
    # sets, DataSet.get, TreeList.get / .read, Tree.get, the iterator, TreeArray.read, CharacterMatrix.get); Taxon
    # object identities compared across the calls.  Implementation-side oracle; the model-level statement is
    # Props/C13Gen.v gen_explicit_namespace_is_used (compiled namespace selection of DataReader.read_dataset)
    sh_cases = shared.fixed_cases() + [shared.gen_case(ctx.rng, base) for _ in range(1200 if tier == "quick" else 12000)]
    for case in sh_cases:
        try:
            obs = shared.observe(case, base)
        except Exception as e:
            ctx.violation("harness could not observe a shared-namespace history: %s: %s" % (type(e).__name__, e), {"case": case}, no_input=True)
            continue
        ctx.evaluations += 1
        shared.count_case(ctx, case, obs)
        for v in shared.oracle_all(case, obs, base):
            ctx.violation(v[0], {"case": case}, key=v[1])
    return ctx.finish(level="proof",
                      rule="documents assembled from tree statements written by the library's NewickWriter / by a spec printer using the library's token escaping, "
                           "with hand-varied structure: Newick 0-6 statements (extra semicolons, comments, missing final semicolon); NEXUS 1-3 TREES blocks, 0-2 TAXA blocks "
                           "(TITLE/LINK), TRANSLATE, rooting/weight/metadata comments, unknown / CHARACTERS / SETS blocks, ENDBLOCK, statements after the last TREE, "
                           "a fifth with carriage returns (CR LF / lone CR inside quoted tokens, inside comments, as line terminators; temp file written untranslated), "
                           "truncated documents; every route run on the implementation (data=, file=, path=), Tree.get and TreeList.get for sampled (collection_offset, tree_offset) "
                           "incl. None, negative and out of range; thorough adds exhaustive small scopes (every Newick document of <= 3 statements over 3 statement forms x 3 separators x 2 endings; "
                           "every NEXUS document over TAXA block absent/plain/titled+LINK x two TREES blocks with 0-2 trees, TRANSLATE or not, rooting comment or not); "
                           "a case is non-trivial when the document has >= 2 tree statements; distinct by full case content; "
                           "interleaved histories (oracle only): 2-3 readers alive at once, each on its own document (60% NEXUS with leaves named by taxon NUMBER, "
                           "with no / complete / partial TRANSLATE tables with identity, shifted, permuted or non-numeric tokens; else the generators above) and its own "
                           "namespace (a third pre-populated), the first a Tree.yield_from_files iterator, the others iterators (70%) or eager TreeList.get / Tree.get / "
                           "DataSet.get / TreeList.read; schedules alternate / random / bursts; every reader re-observed after every step; "
                           "shared-namespace histories (oracle only): one document (generators above, Newick / NEXUS / NeXML), one option set, one TaxonNamespace object that is "
                           "EMPTY (55%) or pre-populated with 1-4 labels at the first call, handed to 2-5 calls drawn from DataSet.read (unattached data set with the keyword, "
                           "attached with / without the keyword, fresh or already filled data set, exclude_chars), DataSet.get, TreeList.get, TreeList.read (fresh or already "
                           "filled list), Tree.get with offsets, Tree.yield_from_files, TreeArray.read, CharacterMatrix.get; half of the histories start with DataSet.read; "
                           "Taxon OBJECT identities (positions in the shared namespace, all delivered objects held until the end) compared across the calls")
