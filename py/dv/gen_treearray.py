"""Translator for the code C06 is about: Gen/TreeArrayGen.v

generate(repo) parses, with Python `ast`, from the CURRENT source

  datamodel/treecollectionmodel.py   TreeArray.__len__, validate_rooting, update, add_tree, extend,
                                     __iadd__, __add__, read_from_files (the per-source burn-in
                                     loop over the tree yielder);  SplitDistribution.update
  application/sumtrees.py            TreeAnalysisWorker.__init__ (the worker's TreeArray),
                                     TreeAnalysisWorker.run (queue protocol: FACTS),
                                     TreeProcessor.serial_analyze_trees (its TreeArray),
                                     TreeProcessor.parallel_analyze_trees (what the parent puts on
                                     the work queue: FACTS; the master array; the collation loop: CODE)

and emits Gallina that follows the source statement by statement.  Statements are compiled in
continuation-passing style so that `return`, `raise` and `assert` leave the function with the state
reached so far (a Python exception leaves earlier assignments in place):

    x = e                      let x := e in ...
    self.f = e                 let self := set_f self e in ...
    self.f += e / d[k] += e    let self := set_f self (f self + e) / dict primitives
    l.extend / append / insert list primitives on the field
    if t: A else: B ; REST     let k := fun self <vars assigned in A or B> => REST in if t then A[k] else B[k]
    assert t                   if t then ... else (self, Some (EPy AssertErr))
    raise X(...)               (self, Some <X>)            (exception classes by name, messages dropped)
    return / return self       (self, None)
    self.m(args)  (translated m)   match gen_m self args with (self, Some e) => (self, Some e) | (self, None) => ... end
    for k in other.d: BODY     fold_left (fun self k => BODY) (dict_keys (d other)) self
    while c < n: r = q.get() ...   structural recursion over the list of queue entries
    for [i,] tree in [enumerate(]tree_yielder[)]: BODY
                               structural recursion over the list of (tree_yielder.current_file_index,
                               tree) pairs the yielder delivers (an INPUT of the generated function);
                               the local variables bound before the loop are its parameters
    x >= n, x += 1  with x possibly None:  match x with None => TypeError | Some v => ... end

The meaning of the primitives (attribute reads/writes, `is`, len, dict / list operations, which
attributes are outside the model) is fixed in coq/Model/C06GenPrims.v; the types of attributes and
parameters are declared in the tables below.  Everything here is driven by the AST: operators,
comparison directions, call names, keyword names, argument order, which attribute is assigned, loop
bounds.  Any statement or expression form not listed raises Unsupported (fail closed: py2coq then
writes a stub and every dependent proof breaks).
"""
import ast
import os

OUTPUT = "TreeArrayGen.v"


class Unsupported(Exception):
    pass


def bad(node, why):
    raise Unsupported("%s at line %s: %s" % (why, getattr(node, "lineno", "?"), ast.dump(node)[:160]))


# ---------------------------------------------------------------------------------------------
# declared types
# ---------------------------------------------------------------------------------------------
# attribute -> (getter, setter, type); type "Skip" = outside the model (value unit, writes dropped)
TA_FIELDS = {
    "_is_rooted_trees": ("ta_rooting", "set_ta_rooting", "OptBool"),
    "ignore_edge_lengths": ("ta_ign_el", "set_ta_ign_el", "Bool"),
    "ignore_node_ages": ("ta_ign_ages", "set_ta_ign_ages", "Bool"),
    "use_tree_weights": ("ta_use_w", "set_ta_use_w", "Bool"),
    "_tree_split_bitmasks": ("ta_splits", "set_ta_splits", "List"),
    "_tree_edge_lengths": ("ta_elens", "set_ta_elens", "List"),
    "_tree_leafset_bitmasks": ("ta_leafsets", "set_ta_leafsets", "List"),
    "_tree_weights": ("ta_weights", "set_ta_weights", "List"),
    "_split_distribution": ("ta_sd", "set_ta_sd", "SD"),
    "taxon_namespace": (None, None, "NS"),
    "default_edge_length_value": (None, None, "Skip"),
    "tree_type": (None, None, "Skip"),
}
SD_FIELDS = {
    "total_trees_counted": ("sd_total", "set_sd_total", "Int"),
    "sum_of_tree_weights": ("sd_sumw", "set_sd_sumw", "Int"),
    "tree_rooting_types_counted": ("sd_rtypes", "set_sd_rtypes", "RtSet"),
    "split_counts": ("sd_counts", "set_sd_counts", "DictNum"),
    "split_edge_lengths": ("sd_elens", "set_sd_elens", "DictList"),
    "split_node_ages": ("sd_ages", "set_sd_ages", "DictList"),
    "_split_edge_length_summaries": (None, None, "Skip"),
    "_split_node_age_summaries": (None, None, "Skip"),
    "_trees_counted_for_summaries": (None, None, "Skip"),
    "ultrametricity_precision": (None, None, "Skip"),
}
TREE_FIELDS = {
    "is_rooted": ("tr_rooting", None, "OptBool"),
    "weight": ("tr_weight", None, "OptInt"),
    "taxon_namespace": (None, None, "NS"),
    "seed_node.edge.bipartition.leafset_bitmask": ("tr_leafset", None, "Int"),
}
# attributes of TreeProcessor / TreeAnalysisWorker that configure the arrays -> C06Model.cfg
CFG_FIELDS = {
    "is_source_trees_rooted": ("c_rooting", "OptBool"),
    "ignore_edge_lengths": ("c_ign_el", "Bool"),
    "ignore_node_ages": ("c_ign_ages", "Bool"),
    "use_tree_weights": ("c_use_w", "Bool"),
}
FIELDS = {"TA": TA_FIELDS, "SD": SD_FIELDS, "TREE": TREE_FIELDS}
COQTYPE = {"TA": "tarr", "SD": "sdist", "TREE": "trec", "OptBool": "option bool", "Bool": "bool",
           "OptInt": "option Z", "Int": "Z", "OptBool_": "option bool"}

EXCEPTIONS = {
    "MixedRootingError": "EMixedRooting",
    "IncompatibleRootingTreeArrayUpdate": "EIncRooting",
    "IncompatibleEdgeLengthsTreeArrayUpdate": "EIncEdgeLens",
    "IncompatibleNodeAgesTreeArrayUpdate": "EIncNodeAges",
    "IncompatibleTreeWeightsTreeArrayUpdate": "EIncWeights",
    "TaxonNamespaceIdentityError": "(EPy ValueErr)",
}
CTOR_KW = ["is_rooted_trees", "ignore_edge_lengths", "ignore_node_ages", "use_tree_weights"]
CTOR_KW_IGNORED = {"taxon_namespace", "ultrametricity_precision", "taxon_label_age_map"}
NOOP_METHODS = {"info_message", "send_info", "send_warning", "send_error", "terminate"}


def attr_chain(e):
    """a.b.c -> ('a', ['b', 'c'])"""
    parts = []
    while isinstance(e, ast.Attribute):
        parts.append(e.attr)
        e = e.value
    if not isinstance(e, ast.Name):
        return None
    return e.id, list(reversed(parts))


class Fn:
    """compiler for one function body"""

    def __init__(self, name, state, style, env):
        self.name = name
        self.state = state            # name of the mutable object variable ("self", "ta")
        self.style = style            # "exc": (state, option terr) | "pure": state | "add": (option tarr, option terr)
        self.env = dict(env)          # variable -> type
        self.k = 0

    # ---- results
    def ok(self):
        if self.style == "pure":
            return self.state
        if self.style == "add":
            bad(ast.Pass(), "fall-through end of __add__")
        return "(%s, None)" % self.state

    def err(self, e):
        if self.style == "pure":
            raise Unsupported("exception in a function declared not to raise: " + self.name)
        if self.style == "add":
            return "(None, Some %s)" % e
        return "(%s, Some %s)" % (self.state, e)

    # ---- types / coercions
    def coerce(self, code, frm, to, node):
        if frm == to or to is None:
            return code
        if frm == "None" and to in ("OptBool", "OptInt"):
            return "None"
        if (frm, to) in (("Bool", "OptBool"), ("Int", "OptInt")):
            return "(Some %s)" % code
        if (frm, to) == ("OptInt", "Int"):
            return "(oint %s)" % code
        if (frm, to) == ("OptBool", "Bool"):
            return "(ob_truthy %s)" % code
        if frm == "ListNone" and to == "List":
            return code
        if frm == "List" and to == "ListNone":
            return code
        bad(node, "cannot use a %s where a %s is expected" % (frm, to))

    # ---- expressions
    def obj_field(self, objcode, objtype, attrs, node):
        """read objcode.attrs"""
        table = FIELDS.get(objtype)
        if table is None:
            bad(node, "attribute of a %s" % objtype)
        key = ".".join(attrs)
        if key in table:
            getter, _s, ty = table[key]
            if ty in ("Skip",):
                return "tt", "Skip"
            if ty == "NS":
                return "tt", "NS"
            return "(%s %s)" % (getter, objcode), ty
        if attrs[0] in table and table[attrs[0]][2] in FIELDS and len(attrs) > 1:
            getter, _s, ty = table[attrs[0]]
            return self.obj_field("(%s %s)" % (getter, objcode), ty, attrs[1:], node)
        bad(node, "unknown attribute %s of a %s" % (key, objtype))

    def expr(self, e):
        if isinstance(e, ast.Constant):
            v = e.value
            if v is None:
                return "None", "None"
            if v is True or v is False:
                return ("true" if v else "false"), "Bool"
            if isinstance(v, int):
                return ("%d" % v if v >= 0 else "(%d)" % v), "Int"
            if isinstance(v, float):
                u = v * 1024
                if u != int(u):
                    bad(e, "float constant not a multiple of the weight unit")
                return ("UNITW" if u == 1024 else "%d" % int(u)), "Int"
            if isinstance(v, str):
                return "tt", "Str"
            bad(e, "constant")
        if isinstance(e, ast.Name):
            if e.id not in self.env:
                bad(e, "unbound variable")
            return e.id, self.env[e.id]
        if isinstance(e, ast.Attribute):
            ch = attr_chain(e)
            if ch is None:
                bad(e, "attribute base")
            base, attrs = ch
            if base not in self.env:
                bad(e, "unbound object")
            return self.obj_field(base, self.env[base], attrs, e)
        if isinstance(e, ast.UnaryOp) and isinstance(e.op, ast.Not):
            return "(negb %s)" % self.test(e.operand), "Bool"
        if isinstance(e, ast.BoolOp):
            op = "andb" if isinstance(e.op, ast.And) else "orb"
            code = self.test(e.values[0])
            for v in e.values[1:]:
                code = "(%s %s %s)" % (op, code, self.test(v))
            return code, "Bool"
        if isinstance(e, ast.Compare):
            if len(e.ops) != 1:
                bad(e, "chained comparison")
            return self.compare(e.left, e.ops[0], e.comparators[0], e), "Bool"
        if isinstance(e, ast.Call):
            return self.call(e)
        if isinstance(e, ast.Tuple):
            return "tt", "Skip"
        bad(e, "expression")

    def test(self, e):
        code, ty = self.expr(e)
        if ty == "Bool":
            return code
        if ty == "OptBool":
            return "(ob_truthy %s)" % code
        bad(e, "truth value of a %s" % ty)

    def compare(self, l, op, r, node):
        lc, lt = self.expr(l)
        rc, rt = self.expr(r)
        neg = isinstance(op, (ast.IsNot, ast.NotEq))
        if isinstance(op, (ast.Is, ast.IsNot, ast.Eq, ast.NotEq)):
            if isinstance(op, (ast.Is, ast.IsNot)) and "Int" in (lt, rt) and "None" not in (lt, rt):
                bad(node, "`is` on numbers")
            if rt == "None" and lt in ("OptBool", "OptInt", "Result"):
                code = "(py_is_none %s)" % lc if lt != "Result" else bad(node, "result is None")
            elif lt == "None" and rt in ("OptBool", "OptInt"):
                code = "(py_is_none %s)" % rc
            elif lt in ("OptBool", "Bool", "None") and rt in ("OptBool", "Bool", "None") and "OptBool" in (lt, rt):
                code = "(ob_is %s %s)" % (self.coerce(lc, lt, "OptBool", node), self.coerce(rc, rt, "OptBool", node))
            elif lt == "Bool" and rt == "Bool":
                code = "(b_is %s %s)" % (lc, rc)
            elif lt == "Int" and rt == "Int":
                code = "(Z.eqb %s %s)" % (lc, rc)
            elif lt == "NS" and rt == "NS":
                code = "ns_is"
            else:
                bad(node, "comparison of %s with %s" % (lt, rt))
            return "(negb %s)" % code if neg else code
        if lt == "Int" and rt == "Int":
            fn = {ast.Gt: "Z.gtb", ast.Lt: "Z.ltb", ast.GtE: "Z.geb", ast.LtE: "Z.leb"}.get(type(op))
            if fn:
                return "(%s %s %s)" % (fn, lc, rc)
        bad(node, "comparison")

    def call(self, e):
        f = e.func
        if isinstance(f, ast.Name):
            if f.id == "len" and len(e.args) == 1 and not e.keywords:
                c, t = self.expr(e.args[0])
                if t == "TA":
                    return "(gen_len %s)" % c, "Int"
                if t in ("List", "ListNone"):
                    return "(py_len %s)" % c, "Int"
                bad(e, "len of a %s" % t)
            if f.id == "tuple" and len(e.args) == 1 and not e.keywords:
                a = e.args[0]
                if isinstance(a, ast.GeneratorExp):
                    if len(a.generators) != 1 or a.generators[0].ifs or a.generators[0].is_async:
                        bad(e, "generator expression")
                    g = a.generators[0]
                    it = g.iter
                    if not (isinstance(it, ast.Call) and isinstance(it.func, ast.Name) and it.func.id == "range"
                            and len(it.args) == 1 and isinstance(g.target, ast.Name)):
                        bad(e, "generator expression iterable")
                    n, nt = self.expr(it.args[0])
                    if nt != "Int":
                        bad(e, "range bound")
                    old = self.env.get(g.target.id)
                    self.env[g.target.id] = "Int"
                    elt, et = self.expr(a.elt)
                    if old is None:
                        del self.env[g.target.id]
                    else:
                        self.env[g.target.id] = old
                    return "(map (fun %s => %s) (py_range %s))" % (g.target.id, elt, n), ("ListNone" if et == "None" else "List")
                c, t = self.expr(a)
                if t not in ("List", "ListNone"):
                    bad(e, "tuple of a %s" % t)
                return c, t
            if f.id == "float" and len(e.args) == 1:
                c, t = self.expr(e.args[0])
                if t == "OptInt":
                    return "(py_float %s)" % c, "Int"
                if t == "Int":
                    return c, "Int"
                bad(e, "float of a %s" % t)
            if f.id == "isinstance" and len(e.args) == 2:
                c, t = self.expr(e.args[0])
                cls = e.args[1]
                if t == "Result" and isinstance(cls, ast.Name) and cls.id in ("Exception", "KeyboardInterrupt"):
                    return "(is_exn %s)" % c, "Bool"
                bad(e, "isinstance")
            if f.id == "TreeArray":
                return self.ctor(e), "TA"
        if isinstance(f, ast.Attribute):
            ch = attr_chain(f)
            if isinstance(f.value, ast.Constant) and isinstance(f.value.value, str) and f.attr == "format":
                for a in list(e.args) + [k.value for k in e.keywords]:
                    self.expr(a)          # the arguments must be expressions we understand
                return "tt", "Str"
            if ch and ch[0] == "dendropy" and ch[1] == ["TreeArray"]:
                return self.ctor(e), "TA"
        bad(e, "call")

    def ctor(self, e, resolve=None):
        if e.args:
            bad(e, "positional constructor arguments")
        kws = {}
        for k in e.keywords:
            if k.arg in CTOR_KW:
                c, t = (resolve or self.expr)(k.value)
                want = "OptBool" if k.arg == "is_rooted_trees" else "Bool"
                kws[k.arg] = self.coerce(c, t, want, k.value)
            elif k.arg in CTOR_KW_IGNORED:
                continue
            else:
                bad(e, "constructor keyword %s" % k.arg)
        missing = [k for k in CTOR_KW if k not in kws]
        if missing:
            bad(e, "constructor without %s (defaults not modelled)" % missing)
        return "(ta_new %s)" % " ".join(kws[k] for k in CTOR_KW)

    # ---- statements
    def assigned(self, stmts):
        """local variables and objects (syntactically) assigned in a block, in order"""
        out = []

        def add(n):
            if n not in out:
                out.append(n)
        for s in stmts:
            if isinstance(s, ast.Assign):
                for t in s.targets:
                    for x in ([t] if not isinstance(t, ast.Tuple) else t.elts):
                        if isinstance(x, ast.Name):
                            add(x.id)
                        elif isinstance(x, (ast.Attribute, ast.Subscript)):
                            ch = attr_chain(x if isinstance(x, ast.Attribute) else x.value)
                            if ch:
                                add(ch[0])
            elif isinstance(s, ast.AugAssign):
                x = s.target
                if isinstance(x, ast.Name):
                    add(x.id)
                else:
                    ch = attr_chain(x if isinstance(x, ast.Attribute) else x.value)
                    if ch:
                        add(ch[0])
            elif isinstance(s, ast.Expr) and isinstance(s.value, ast.Call):
                ch = attr_chain(s.value.func)
                if ch:
                    add(ch[0])
            elif isinstance(s, ast.If):
                for n in self.assigned(s.body) + self.assigned(s.orelse):
                    add(n)
            elif isinstance(s, (ast.For, ast.While, ast.Try)):
                bad(s, "loop inside a branch")
        return out

    def block(self, stmts, tail):
        """code of `stmts` followed by tail() (tail: () -> code, evaluated in the env reached)"""
        if not stmts:
            return tail()
        s, rest = stmts[0], stmts[1:]
        nxt = lambda: self.block(rest, tail)
        if isinstance(s, ast.Expr) and isinstance(s.value, ast.Constant) and isinstance(s.value.value, str):
            return nxt()                                           # docstring
        if isinstance(s, ast.Pass):
            return nxt()
        if isinstance(s, ast.Assign):
            return self.assign(s, nxt)
        if isinstance(s, ast.AugAssign):
            return self.augassign(s, nxt)
        if isinstance(s, ast.Expr) and isinstance(s.value, ast.Call):
            return self.call_stmt(s.value, nxt)
        if isinstance(s, ast.If):
            return self.if_stmt(s, nxt)
        if isinstance(s, ast.Assert):
            t = self.test(s.test)
            if s.msg is not None:
                self.expr(s.msg)
            return "if %s then\n%s\nelse %s" % (t, nxt(), self.err("(EPy AssertErr)"))
        if isinstance(s, ast.Raise):
            return self.raise_stmt(s)
        if isinstance(s, ast.Return):
            return self.return_stmt(s)
        if isinstance(s, ast.For):
            return self.for_stmt(s, nxt)
        bad(s, "statement")

    def setfield(self, obj, attrs, code, ty, node):
        """obj.attrs = code"""
        if obj not in self.env:
            bad(node, "unbound object")
        ot = self.env[obj]
        table = FIELDS.get(ot)
        if table is None or len(attrs) != 1 or attrs[0] not in table:
            bad(node, "assignment to attribute %s of a %s" % (".".join(attrs), ot))
        _g, setter, fty = table[attrs[0]]
        if fty == "Skip":
            return None
        if setter is None:
            bad(node, "read-only attribute")
        if obj != self.state:
            bad(node, "write to an object other than %s" % self.state)
        return "let %s := %s %s %s in" % (obj, setter, obj, self.coerce(code, ty, fty, node))

    def assign(self, s, nxt):
        if len(s.targets) != 1:
            bad(s, "multiple assignment")
        t = s.targets[0]
        # splits, edge_lengths, node_ages = self._split_distribution.count_splits_on_tree(tree=tree, ...)
        if isinstance(t, ast.Tuple):
            v = s.value
            ch = attr_chain(v.func) if isinstance(v, ast.Call) else None
            if not (ch and ch[0] == self.state and ch[1] == ["_split_distribution", "count_splits_on_tree"]
                    and len(t.elts) == 3 and all(isinstance(x, ast.Name) for x in t.elts) and not v.args):
                bad(s, "tuple assignment")
            kw = {k.arg: k.value for k in v.keywords}
            if set(kw) != {"tree", "is_bipartitions_updated", "default_edge_length_value"}:
                bad(s, "count_splits_on_tree keywords")
            tc, tt_ = self.expr(kw["tree"])
            if tt_ != "TREE":
                bad(s, "count_splits_on_tree tree argument")
            self.expr(kw["is_bipartitions_updated"])
            self.expr(kw["default_edge_length_value"])
            a, b, c = [x.id for x in t.elts]
            self.env[a], self.env[b], self.env[c] = "List", "List", "List"
            st = self.state
            return ("match count_splits_on_tree (ta_sd %s) %s with\n| (sd', Some e, _) => let %s := set_ta_sd %s sd' in %s\n"
                    "| (sd', None, (%s, %s, %s)) =>\nlet %s := set_ta_sd %s sd' in\n%s\nend"
                    % (st, tc, st, st, self.err("e"), a, b, c, st, st, nxt()))
        code, ty = self.expr(s.value)
        if isinstance(t, ast.Name):
            if t.id in self.env and self.env[t.id] not in (ty,):
                code = self.coerce(code, ty, self.env[t.id], s)
            else:
                self.env[t.id] = "OptBool" if ty == "None" else ty
            return "let %s := %s in\n%s" % (t.id, code, nxt())
        if isinstance(t, ast.Attribute):
            ch = attr_chain(t)
            if ch is None:
                bad(s, "assignment target")
            line = self.setfield(ch[0], ch[1], code, ty, s)
            return (line + "\n" if line else "") + nxt()
        bad(s, "assignment target")

    def augassign(self, s, nxt):
        if not isinstance(s.op, ast.Add):
            bad(s, "augmented assignment operator")
        t = s.target
        vc, vt = self.expr(s.value)
        if isinstance(t, ast.Name):
            ty = self.env.get(t.id)
            if ty == "TA":                                  # ta += other  ->  ta = ta.__iadd__(other)
                if vt != "TA" or t.id != self.state:
                    bad(s, "+= on arrays")
                return ("match gen_iadd %s %s with\n| (%s, Some e) => %s\n| (%s, None) =>\n%s\nend"
                        % (t.id, vc, t.id, self.err("e"), t.id, nxt()))
            if ty == "Nat" and isinstance(s.value, ast.Constant) and s.value.value == 1:
                return "let %s := S %s in\n%s" % (t.id, t.id, nxt())
            bad(s, "+= on a %s" % ty)
        if isinstance(t, ast.Attribute):
            ch = attr_chain(t)
            oc, ot = self.expr(t)
            if ot != "Int" or vt != "Int":
                bad(s, "+= on attribute of type %s" % ot)
            line = self.setfield(ch[0], ch[1], "(Z.add %s %s)" % (oc, vc), "Int", s)
            return line + "\n" + nxt()
        if isinstance(t, ast.Subscript):
            ch = attr_chain(t.value)
            dc, dt = self.expr(t.value)
            kc, kt = self.expr(t.slice)
            if kt != "Int":
                bad(s, "dict key type")
            if dt == "DictNum" and vt == "Int":
                new = "(dnum_iadd %s %s %s)" % (dc, kc, vc)
            elif dt == "DictList" and vt in ("List", "ListNone"):
                new = "(dlist_iadd %s %s %s)" % (dc, kc, vc)
            else:
                bad(s, "+= on a subscript of a %s with a %s" % (dt, vt))
            line = self.setfield(ch[0], ch[1], new, dt, s)
            return line + "\n" + nxt()
        bad(s, "augmented assignment target")

    def subscript(self, e):
        dc, dt = self.expr(e.value)
        kc, kt = self.expr(e.slice)
        if kt != "Int":
            bad(e, "dict key type")
        if dt == "DictNum":
            return "(dnum_get %s %s)" % (dc, kc), "Int"
        if dt == "DictList":
            return "(dlist_get %s %s)" % (dc, kc), "List"
        bad(e, "subscript of a %s" % dt)

    def call_stmt(self, c, nxt):
        f = c.func
        ch = attr_chain(f)
        if ch is None:
            bad(c, "call statement")
        base, attrs = ch
        meth = attrs[-1]
        if meth in NOOP_METHODS and base in ("self", "worker"):
            return nxt()                                                # logging / process control
        if base == self.state and attrs == ["validate_rooting"] and len(c.args) == 1 and not c.keywords:
            a, t = self.expr(c.args[0])
            a = self.coerce(a, t, "OptBool", c)
            st = self.state
            return ("match gen_validate_rooting %s %s with\n| (%s, Some e) => %s\n| (%s, None) =>\n%s\nend"
                    % (st, a, st, self.err("e"), st, nxt()))
        if base not in self.env:
            bad(c, "unbound object")
        # obj.field.method(args)
        oc, ot = self.obj_field(base, self.env[base], attrs[:-1], c) if len(attrs) > 1 else (base, self.env[base])
        args = [self.expr(a) for a in c.args]
        if c.keywords:
            bad(c, "keyword arguments")
        if ot == "List" and meth == "extend" and len(args) == 1 and args[0][1] == "List":
            new = "(list_extend %s %s)" % (oc, args[0][0])
        elif ot == "List" and meth == "append" and len(args) == 1:
            new = "(list_append %s %s)" % (oc, args[0][0])
        elif ot == "List" and meth == "insert" and len(args) == 2:
            new = "(list_insert %s %s %s)" % (oc, self.coerce(args[0][0], args[0][1], "Int", c), args[1][0])
        elif ot == "RtSet" and meth == "update" and len(args) == 1 and args[0][1] == "RtSet":
            new = "(rtset_update %s %s)" % (oc, args[0][0])
        elif ot == "SD" and meth == "update" and len(args) == 1 and args[0][1] == "SD":
            new = "(gen_sd_update %s %s)" % (oc, args[0][0])
        elif ot == "TA" and meth == "update" and len(args) == 1 and args[0][1] in ("TA", "Result") and base == self.state:
            arg = args[0][0] if args[0][1] == "TA" else "(result_array %s)" % args[0][0]
            st = self.state
            return ("match gen_update %s %s with\n| (%s, Some e) => %s\n| (%s, None) =>\n%s\nend"
                    % (st, arg, st, self.err("e"), st, nxt()))
        else:
            bad(c, "method %s on a %s" % (meth, ot))
        line = self.setfield(base, attrs[:-1], new, ot, c)
        return line + "\n" + nxt()

    def if_stmt(self, s, nxt):
        t = self.test(s.test)
        env0 = dict(self.env)
        k0 = self.k
        # pass 1: which variables are bound on every path that reaches the end of the `if`
        snaps = []

        def probe():
            snaps.append(dict(self.env))
            return "PROBE"
        for branch in (s.body, s.orelse):
            self.env = dict(env0)
            self.block(branch, probe)
        self.k = k0
        cand = []
        for v in self.assigned(s.body) + self.assigned(s.orelse):
            if v != self.state and v not in cand:
                cand.append(v)
        mods = [v for v in cand if snaps and all(v in sn for sn in snaps)]
        env = dict(env0)
        for v in mods:
            tys = {sn[v] for sn in snaps}
            if len(tys) != 1:
                bad(s, "variable %s has types %s on different paths" % (v, sorted(tys)))
            if v in env0 and env0[v] != list(tys)[0]:
                bad(s, "variable %s changes its type" % v)
            env[v] = list(tys)[0]
        self.k += 1
        kname = "k%d" % self.k
        params = [self.state] + mods
        callk = lambda: "%s %s" % (kname, " ".join(params))
        self.env = dict(env0)
        then = self.block(s.body, callk)
        self.env = dict(env0)
        els = self.block(s.orelse, callk)
        self.env = env
        if not snaps:
            return "if %s then\n%s\nelse\n%s" % (t, then, els)      # nothing after the `if` is reachable
        rest = nxt()
        return ("let %s := (fun %s =>\n%s) in\nif %s then\n%s\nelse\n%s"
                % (kname, " ".join(params), rest, t, then, els))

    def raise_stmt(self, s):
        e = s.exc
        if isinstance(e, ast.Name) and self.env.get(e.id) == "Result":
            return self.err("(exn_of %s)" % e.id)
        if not isinstance(e, ast.Call):
            bad(s, "raise")
        ch = attr_chain(e.func) if isinstance(e.func, ast.Attribute) else (e.func.id, []) if isinstance(e.func, ast.Name) else None
        if ch is None:
            bad(s, "raise")
        cls = ch[1][-1] if ch[1] else ch[0]
        if cls not in EXCEPTIONS:
            bad(s, "exception class %s" % cls)
        for a in e.args:
            self.expr(a)
        return self.err(EXCEPTIONS[cls])

    def return_stmt(self, s):
        v = s.value
        if self.style == "add":
            if isinstance(v, ast.Name) and v.id == self.state:
                return "(Some %s, None)" % self.state
            bad(s, "return")
        if v is None or (isinstance(v, ast.Name) and v.id == self.state):
            return self.ok()
        if isinstance(v, ast.Tuple):
            for x in v.elts:
                self.expr(x)
            return self.ok()                           # the returned values are not part of the model
        if isinstance(v, ast.Call):
            ch = attr_chain(v.func)
            if ch and ch[0] == self.state and ch[1] == ["extend"] and len(v.args) == 1 and not v.keywords:
                a, t = self.expr(v.args[0])
                if t != "TA":
                    bad(s, "extend argument")
                return "gen_extend %s %s" % (self.state, a)   # extend returns self
        bad(s, "return")

    def for_stmt(self, s, nxt):
        if s.orelse or not isinstance(s.target, ast.Name):
            bad(s, "for")
        ic, it = self.expr(s.iter)
        if it not in ("DictNum", "DictList"):
            bad(s, "for over a %s" % it)
        inner = Fn(self.name, self.state, "pure", self.env)
        inner.env[s.target.id] = "Int"
        inner.expr = self._expr_with_subscript(inner)
        body = inner.block(s.body, lambda: inner.state)
        return ("let %s := fold_left (fun %s %s =>\n%s) (dict_keys %s) %s in\n%s"
                % (self.state, self.state, s.target.id, body, ic, self.state, nxt()))

    def _expr_with_subscript(self, inner):
        base = Fn.expr.__get__(inner)

        def ex(e):
            if isinstance(e, ast.Subscript):
                return inner.subscript(e)
            return base(e)
        return ex


# ---------------------------------------------------------------------------------------------
# drivers
# ---------------------------------------------------------------------------------------------

def find_class(mod, name):
    for n in mod.body:
        if isinstance(n, ast.ClassDef) and n.name == name:
            return n
    raise Unsupported("class %s not found" % name)


def find_method(cls, name):
    for n in cls.body:
        if isinstance(n, ast.FunctionDef) and n.name == name:
            return n
    raise Unsupported("method %s.%s not found" % (cls.name, name))


def params(fn, types):
    """[(name, type)] from the def; `types` gives the declared types of the parameters after self"""
    a = fn.args
    if a.vararg or a.kwarg or a.kwonlyargs or a.posonlyargs:
        bad(fn, "parameter form")
    names = [x.arg for x in a.args]
    if len(names) != 1 + len(types):
        bad(fn, "%s: expected %d parameters" % (fn.name, 1 + len(types)))
    return list(zip(names, ["?"] + list(types)))


def indent(code, n=2):
    return "\n".join((" " * n + l) if l else l for l in code.split("\n"))


def gen_method(cls, name, coqname, selftype, ptypes, style, rettype):
    fn = find_method(cls, name)
    ps = params(fn, ptypes)
    env = {ps[0][0]: selftype}
    for n, t in ps[1:]:
        env[n] = t
    f = Fn(name, ps[0][0], style, env)
    f.expr = f._expr_with_subscript(f)
    body = f.block(fn.body, f.ok)
    sig = " ".join("(%s : %s)" % (n, COQTYPE[t if t != "?" else selftype]) for n, t in ps)
    return "(* %s.%s, line %d *)\nDefinition %s %s : %s :=\n%s.\n" % (cls.name, name, fn.lineno, coqname, sig, rettype, indent(body))


def gen_len(cls):
    fn = find_method(cls, "__len__")
    body = [s for s in fn.body if not (isinstance(s, ast.Expr) and isinstance(s.value, ast.Constant))]
    if len(body) != 1 or not isinstance(body[0], ast.Return):
        bad(fn, "__len__ shape")
    f = Fn("__len__", fn.args.args[0].arg, "pure", {fn.args.args[0].arg: "TA"})
    # `len(self._tree_split_bitmasks)`: the len of a list field (a recursive len(self) would not be)
    v = body[0].value
    if not (isinstance(v, ast.Call) and isinstance(v.func, ast.Name) and v.func.id == "len" and len(v.args) == 1):
        bad(fn, "__len__ shape")
    c, t = f.expr(v.args[0])
    if t != "List":
        bad(fn, "__len__ of a %s" % t)
    return "(* TreeArray.__len__, line %d *)\nDefinition gen_len (%s : tarr) : Z := py_len %s.\n" % (fn.lineno, fn.args.args[0].arg, c)


def gen_add(cls):
    """__add__: a new array `ta` is the mutable object, self and other are read"""
    fn = find_method(cls, "__add__")
    ps = params(fn, ["TA"])
    env = {ps[0][0]: "TA", ps[1][0]: "TA"}
    body = [s for s in fn.body if not (isinstance(s, ast.Expr) and isinstance(s.value, ast.Constant))]
    first = body[0]
    if not (isinstance(first, ast.Assign) and len(first.targets) == 1 and isinstance(first.targets[0], ast.Name)):
        bad(fn, "__add__ does not start by creating the new array")
    new = first.targets[0].id
    f0 = Fn("__add__", new, "add", env)
    code, ty = f0.expr(first.value)
    if ty != "TA":
        bad(first, "__add__ first statement")
    f = Fn("__add__", new, "add", dict(env, **{new: "TA"}))
    f.expr = f._expr_with_subscript(f)
    rest = f.block(body[1:], f.ok)
    return ("(* TreeArray.__add__, line %d *)\nDefinition gen_add (%s %s : tarr) : option tarr * option terr :=\n  let %s := %s in\n%s.\n"
            % (fn.lineno, ps[0][0], ps[1][0], new, code, indent(rest)))



# ---- TreeArray.read_from_files: the loop over the tree yielder

class LoopFn(Fn):
    """compiler for the body of `for ... in tree_yielder:` (and the statements before it)"""

    def __init__(self, name, state, env, yielder, intlike, add_tree_sig):
        Fn.__init__(self, name, state, "exc", env)
        self.yielder = yielder
        self.intlike = intlike              # names that hold None-or-int
        self.add_tree_sig = add_tree_sig    # [(param, default ast or None)] of TreeArray.add_tree after self
        self.u = 0

    def fresh(self):
        self.u += 1
        return "dv_u%d" % self.u

    def expr(self, e):
        if isinstance(e, ast.Attribute):
            ch = attr_chain(e)
            if ch and self.yielder is not None and ch[0] == self.yielder:
                if ch[1] == ["current_file_index"]:
                    return "yielder_file_index", "Int"
                bad(e, "attribute of the tree yielder")
        if isinstance(e, ast.Name) and e.id == self.yielder:
            bad(e, "the tree yielder as a value")
        return Fn.expr(self, e)

    def compare(self, l, op, r, node):
        lc, lt = self.expr(l)
        rc, rt = self.expr(r)
        if isinstance(op, (ast.Eq, ast.NotEq)) and "OptInt" in (lt, rt) and lt in ("OptInt", "Int", "None") and rt in ("OptInt", "Int", "None"):
            code = "(oz_is %s %s)" % (self.coerce(lc, lt, "OptInt", node), self.coerce(rc, rt, "OptInt", node))
            return "(negb %s)" % code if isinstance(op, ast.NotEq) else code
        return Fn.compare(self, l, op, r, node)

    def assign(self, s, nxt):
        if len(s.targets) == 1 and isinstance(s.targets[0], ast.Name) and isinstance(s.value, ast.Constant) \
                and s.value.value is None and s.targets[0].id in self.intlike and s.targets[0].id not in self.env:
            self.env[s.targets[0].id] = "OptInt"
            return "let %s := (None : option Z) in\n%s" % (s.targets[0].id, nxt())
        return Fn.assign(self, s, nxt)

    def if_stmt(self, s, nxt):
        t = s.test
        if isinstance(t, ast.Compare) and len(t.ops) == 1 and isinstance(t.ops[0], (ast.Gt, ast.Lt, ast.GtE, ast.LtE)) \
                and isinstance(t.left, ast.Name):
            lc, lt = self.expr(t.left)
            if lt == "OptInt":
                # `None >= n` raises TypeError
                u = self.fresh()
                self.env[u] = "Int"
                t2 = ast.copy_location(ast.Compare(left=ast.copy_location(ast.Name(id=u, ctx=ast.Load()), t.left),
                                                   ops=t.ops, comparators=t.comparators), t)
                s2 = ast.copy_location(ast.If(test=t2, body=s.body, orelse=s.orelse), s)
                inner = Fn.if_stmt(self, s2, nxt)
                return "match %s with\n| None => %s\n| Some %s =>\n%s\nend" % (lc, self.err("(EPy TypeErr)"), u, inner)
        return Fn.if_stmt(self, s, nxt)

    def augassign(self, s, nxt):
        t = s.target
        if isinstance(t, ast.Name) and isinstance(s.op, ast.Add) and self.env.get(t.id) in ("Int", "OptInt"):
            vc, vt = self.expr(s.value)
            if vt != "Int":
                bad(s, "+= of a %s" % vt)
            if self.env[t.id] == "Int":
                return "let %s := (Z.add %s %s) in\n%s" % (t.id, t.id, vc, nxt())
            u = self.fresh()                  # `None + 1` raises TypeError
            return ("match %s with\n| None => %s\n| Some %s =>\nlet %s := (Some (Z.add %s %s)) in\n%s\nend"
                    % (t.id, self.err("(EPy TypeErr)"), u, t.id, u, vc, nxt()))
        return Fn.augassign(self, s, nxt)

    def call_stmt(self, c, nxt):
        ch = attr_chain(c.func)
        if ch and ch[0] == self.state and ch[1] == ["add_tree"]:
            # self.add_tree(tree=..., is_bipartitions_updated=..., [index=...]): arguments by the def's parameter list
            names = [n for n, _d in self.add_tree_sig]
            given = {}
            if len(c.args) > len(names):
                bad(c, "add_tree arguments")
            for n, a in zip(names, c.args):
                given[n] = a
            for k in c.keywords:
                if k.arg is None or k.arg not in names or k.arg in given:
                    bad(c, "add_tree keyword %s" % k.arg)
                given[k.arg] = k.value
            codes = []
            for (n, d), want in zip(self.add_tree_sig, ["TREE", "Bool", "OptInt"]):
                v = given.get(n, d)
                if v is None:
                    bad(c, "add_tree called without %s" % n)
                code, ty = self.expr(v)
                codes.append(self.coerce(code, ty, want, c))
            st = self.state
            return ("match gen_add_tree %s %s with\n| (%s, Some e) => %s\n| (%s, None) =>\n%s\nend"
                    % (st, " ".join(codes), st, self.err("e"), st, nxt()))
        return Fn.call_stmt(self, c, nxt)


def names_intlike(stmts):
    """names that are (syntactically) given an int in the statements: x = <int constant>, x = <name>, x += ..."""
    out = set()
    for s in ast.walk(ast.Module(body=list(stmts), type_ignores=[])):
        if isinstance(s, ast.AugAssign) and isinstance(s.target, ast.Name):
            out.add(s.target.id)
        elif isinstance(s, ast.Assign) and len(s.targets) == 1 and isinstance(s.targets[0], ast.Name):
            v = s.value
            if (isinstance(v, ast.Constant) and isinstance(v.value, int) and not isinstance(v.value, bool)) or isinstance(v, ast.Name):
                out.add(s.targets[0].id)
    return out


def gen_read_from_files(cls):
    """TreeArray.read_from_files(files, schema, **kwargs): what is done with the trees the yielder delivers.
    The yielder (Tree.yield_from_files over ALL `files`) is the input list `yielded` of
    (current_file_index, tree) pairs; keyword tree_offset is the parameter `tree_offset`."""
    fn = find_method(cls, "read_from_files")
    a = fn.args
    if a.vararg or a.kwonlyargs or a.posonlyargs or a.kwarg is None or [x.arg for x in a.args][1:] != ["files", "schema"]:
        bad(fn, "read_from_files: parameter form")
    selfname, kwname = a.args[0].arg, a.kwarg.arg
    addfn = find_method(cls, "add_tree")
    aa = addfn.args
    if aa.vararg or aa.kwarg or aa.kwonlyargs or aa.posonlyargs or len(aa.args) != 4:
        bad(addfn, "add_tree: parameter form")
    nd = len(aa.defaults)
    sig = [(x.arg, (aa.defaults[i - (3 - nd)] if i - (3 - nd) >= 0 else None)) for i, x in enumerate(aa.args[1:])]
    body = [s for s in fn.body if not (isinstance(s, ast.Expr) and isinstance(s.value, ast.Constant))]
    loops = [i for i, s in enumerate(body) if isinstance(s, ast.For)]
    if len(loops) != 1 or loops[0] != len(body) - 1:
        bad(fn, "read_from_files: expected the loop over the yielder as the last statement")
    loop = body[-1]
    pre = body[:-1]
    intlike = names_intlike(pre + [loop])
    f = LoopFn("read_from_files", selfname, {selfname: "TA"}, None, intlike, sig)
    offset_var = None
    default_offset = None
    lets = []
    scalars = []          # loop parameters in binding order

    def is_kw_pop(v, key):
        return (isinstance(v, ast.Call) and attr_chain(v.func) == (kwname, ["pop"]) and not v.keywords and v.args
                and isinstance(v.args[0], ast.Constant) and v.args[0].value == key)
    for s in pre:
        if isinstance(s, ast.If) and isinstance(s.test, ast.Compare) and len(s.test.ops) == 1 and isinstance(s.test.ops[0], ast.In) \
                and isinstance(s.test.left, ast.Constant) and s.test.left.value == "taxon_namespace" \
                and isinstance(s.test.comparators[0], ast.Name) and s.test.comparators[0].id == kwname and not s.orelse:
            # the namespace given as keyword must be self's: namespaces are outside the model (one namespace)
            for x in s.body:
                ok = (isinstance(x, ast.Expr) and is_kw_pop(x.value, "taxon_namespace")) or \
                     (isinstance(x, ast.If) and not x.orelse and len(x.body) == 1 and isinstance(x.body[0], ast.Raise))
                if not ok:
                    bad(x, "read_from_files: taxon_namespace keyword handling")
            continue
        if not (isinstance(s, ast.Assign) and len(s.targets) == 1 and isinstance(s.targets[0], ast.Name)):
            bad(s, "read_from_files: statement before the loop")
        name, v = s.targets[0].id, s.value
        if is_kw_pop(v, "tree_offset"):
            if offset_var is not None or len(v.args) != 2 or not (isinstance(v.args[1], ast.Constant) and isinstance(v.args[1].value, int)):
                bad(s, "read_from_files: tree_offset keyword")
            offset_var, default_offset = name, v.args[1].value
            f.env[name] = "Int"
            lets.append("let %s := tree_offset in" % name)
            scalars.append(name)
        elif isinstance(v, ast.Call) and attr_chain(v.func) == (selfname, ["tree_type", "yield_from_files"]):
            kw = {k.arg: k.value for k in v.keywords}
            if v.args or not (isinstance(kw.get("files"), ast.Name) and kw["files"].id == "files") \
                    or not (isinstance(kw.get("schema"), ast.Name) and kw["schema"].id == "schema") \
                    or not (isinstance(kw.get(None), ast.Name) and kw[None].id == kwname) or f.yielder is not None:
                bad(s, "read_from_files: the yielder must be tree_type.yield_from_files(files=files, schema=schema, ..., **kwargs)")
            if offset_var is None:
                bad(s, "read_from_files: tree_offset is handed on to the yielder")
            f.yielder = name
        elif isinstance(v, ast.Constant):
            code = f.assign(s, lambda: "")
            lets.append(code.rstrip("\n"))
            scalars.append(name)
        else:
            bad(s, "read_from_files: statement before the loop")
    if f.yielder is None or offset_var is None:
        bad(fn, "read_from_files: no yielder / no tree_offset")
    # the loop header
    if loop.orelse:
        bad(loop, "for-else")
    tgt, it = loop.target, loop.iter
    if isinstance(tgt, ast.Name) and isinstance(it, ast.Name) and it.id == f.yielder:
        tree_var = tgt.id
    elif isinstance(tgt, ast.Tuple) and len(tgt.elts) == 2 and all(isinstance(x, ast.Name) for x in tgt.elts) \
            and isinstance(it, ast.Call) and isinstance(it.func, ast.Name) and it.func.id == "enumerate" and len(it.args) == 1 \
            and not it.keywords and isinstance(it.args[0], ast.Name) and it.args[0].id == f.yielder:
        idx_var, tree_var = tgt.elts[0].id, tgt.elts[1].id
        for x in ast.walk(ast.Module(body=list(loop.body), type_ignores=[])):
            if isinstance(x, ast.Name) and x.id == idx_var:
                bad(x, "the enumerate index is used")
    else:
        bad(loop, "read_from_files: loop header")
    if tree_var in f.env:
        bad(loop, "loop variable shadows a local")
    f.env[tree_var] = "TREE"
    types0 = {n: f.env[n] for n in scalars}
    call = lambda: "gen_read_from_files_loop yielded' %s %s" % (selfname, " ".join(scalars))
    code = f.block(loop.body, call)
    for n in scalars:
        if f.env.get(n) != types0[n]:
            bad(loop, "loop variable %s changes its type" % n)
    ct = lambda t: {"OptBool": "option bool"}.get(t) or COQTYPE[t]
    ps = " ".join("(%s : %s)" % (n, ct(types0[n])) for n in scalars)
    out = ("(* TreeArray.read_from_files, line %d: the loop at line %d.  `yielded` is what tree_yielder delivers: the pairs\n"
           "   (tree_yielder.current_file_index, tree), in order.  A source without trees contributes no pair. *)\n"
           "Fixpoint gen_read_from_files_loop (yielded : list (Z * trec)) (%s : tarr) %s : tarr * option terr :=\n"
           "  match yielded with\n"
           "  | [] => (%s, None)\n"
           "  | (yielder_file_index, %s) :: yielded' =>\n%s\n"
           "  end.\n\n"
           "Definition gen_read_from_files_default_offset : Z := %d.\n\n"
           "Definition gen_read_from_files (%s : tarr) (tree_offset : Z) (yielded : list (Z * trec)) : tarr * option terr :=\n%s\n"
           "  gen_read_from_files_loop yielded %s %s.\n"
           % (fn.lineno, loop.lineno, selfname, ps, selfname, tree_var, indent(code, 4), default_offset, selfname,
              indent("\n".join(lets)), selfname, " ".join(scalars)))
    return out


# ---- sumtrees.py

def cfg_expr(e):
    """self.<attr> of a TreeProcessor / TreeAnalysisWorker as a projection of the model's cfg"""
    ch = attr_chain(e) if isinstance(e, ast.Attribute) else None
    if not (ch and ch[0] == "self" and len(ch[1]) == 1 and ch[1][0] in CFG_FIELDS):
        bad(e, "configuration expression")
    proj, ty = CFG_FIELDS[ch[1][0]]
    return "(%s c)" % proj, ty


def find_ctor_assign(stmts, target_pred):
    """the statement  <target> = dendropy.TreeArray(...)  in a statement list (searched recursively in try blocks)"""
    found = []
    for s in ast.walk(ast.Module(body=list(stmts), type_ignores=[])):
        if isinstance(s, ast.Assign) and len(s.targets) == 1 and target_pred(s.targets[0]) and isinstance(s.value, ast.Call):
            ch = attr_chain(s.value.func)
            if ch and ch[0] == "dendropy" and ch[1] == ["TreeArray"]:
                found.append(s)
    if len(found) != 1:
        raise Unsupported("expected exactly one TreeArray construction, found %d" % len(found))
    return found[0]


def gen_array0(fn, coqname, target_pred, what):
    s = find_ctor_assign(fn.body, target_pred)
    f = Fn(coqname, "self", "pure", {})
    code = f.ctor(s.value, resolve=cfg_expr)
    return "(* %s, line %d *)\nDefinition %s (c : cfg) : tarr := %s.\n" % (what, s.lineno, coqname, code)


def is_self_attr(e, name):
    ch = attr_chain(e) if isinstance(e, ast.Attribute) else None
    return bool(ch and ch[0] == "self" and ch[1] == [name])


def worker_facts(run):
    """TreeAnalysisWorker.run: which queue primitive fetches the work, how the loop ends"""
    body = [s for s in run.body if not (isinstance(s, ast.Expr) and isinstance(s.value, ast.Constant))]
    if len(body) != 2 or not isinstance(body[0], ast.While) or not isinstance(body[1], ast.If):
        bad(run, "run: expected `while ...:` followed by `if self.kill_received: ... else: ...`")
    loop, after = body
    t = loop.test
    if not (isinstance(t, ast.UnaryOp) and isinstance(t.op, ast.Not) and is_self_attr(t.operand, "kill_received")) or loop.orelse:
        bad(loop, "run: loop guard")
    stmts = list(loop.body)
    facts = {"fetch": "QUnknown", "exit_on_empty": False, "exit_on_marker": False, "reads_fetched_source": False,
             "result_put_after_loop": False}
    var = None
    s = stmts.pop(0)

    def fetch_of(assign):
        if not (isinstance(assign, ast.Assign) and len(assign.targets) == 1 and isinstance(assign.targets[0], ast.Name)
                and isinstance(assign.value, ast.Call)):
            bad(assign, "run: fetch statement")
        ch = attr_chain(assign.value.func)
        if not (ch and ch[0] == "self" and len(ch[1]) == 2 and ch[1][0] == "work_queue"):
            bad(assign, "run: fetch statement")
        if assign.value.args or assign.value.keywords:
            bad(assign, "run: fetch with arguments (timeouts are not modelled)")
        prim = {"get": "QGet", "get_nowait": "QGetNowait"}.get(ch[1][1])
        if prim is None:
            bad(assign, "run: queue primitive %s" % ch[1][1])
        return assign.targets[0].id, prim
    if isinstance(s, ast.Try):
        if len(s.body) != 1 or len(s.handlers) != 1 or s.orelse or s.finalbody:
            bad(s, "run: try around the fetch")
        var, facts["fetch"] = fetch_of(s.body[0])
        h = s.handlers[0]
        ch = attr_chain(h.type) if isinstance(h.type, ast.Attribute) else None
        if not (ch and ch == ("queue", ["Empty"]) and len(h.body) == 1 and isinstance(h.body[0], ast.Break)):
            bad(h, "run: handler of the fetch")
        facts["exit_on_empty"] = True
    else:
        var, facts["fetch"] = fetch_of(s)
    # the statements after the fetch
    for s in stmts:
        if isinstance(s, ast.If) and isinstance(s.test, ast.Compare) and len(s.test.ops) == 1 \
                and isinstance(s.test.ops[0], ast.Is) and isinstance(s.test.left, ast.Name) and s.test.left.id == var \
                and isinstance(s.test.comparators[0], ast.Constant) and s.test.comparators[0].value is None:
            if len(s.body) != 1 or not isinstance(s.body[0], ast.Break) or s.orelse:
                bad(s, "run: marker test")
            if facts["reads_fetched_source"]:
                bad(s, "run: marker test after the source was read")
            facts["exit_on_marker"] = True
        elif isinstance(s, ast.If) and is_self_attr(s.test, "kill_received"):
            if len(s.body) != 1 or not isinstance(s.body[0], ast.Break) or s.orelse:
                bad(s, "run: kill test")
        elif isinstance(s, ast.AugAssign) and isinstance(s.target, ast.Attribute) and \
                attr_chain(s.target) in (("self", ["num_tasks_received"]), ("self", ["num_tasks_completed"])):
            pass
        elif isinstance(s, ast.Expr) and isinstance(s.value, ast.Call) and attr_chain(s.value.func) == ("self", ["send_info"]):
            pass
        elif isinstance(s, ast.Try):
            # try: _read_into_tree_array(tree_array=self.tree_array, tree_sources=[<var>], ...) except ...: put(e); break
            if len(s.body) != 1 or not isinstance(s.body[0], ast.Expr) or not isinstance(s.body[0].value, ast.Call):
                bad(s, "run: try body")
            c = s.body[0].value
            if not (isinstance(c.func, ast.Name) and c.func.id == "_read_into_tree_array") or c.args:
                bad(s, "run: try body")
            kw = {k.arg: k.value for k in c.keywords}
            ts = kw.get("tree_sources")
            if not (isinstance(ts, ast.List) and len(ts.elts) == 1 and isinstance(ts.elts[0], ast.Name) and ts.elts[0].id == var
                    and is_self_attr(kw.get("tree_array"), "tree_array")):
                bad(s, "run: what is read")
            if len(s.handlers) != 1 or not isinstance(s.handlers[0].body[-1], ast.Break):
                bad(s, "run: handler of the read")
            facts["reads_fetched_source"] = True
        else:
            bad(s, "run: statement in the worker loop")
    # after the loop: if self.kill_received: <warning> else: self.results_queue.put(self.tree_array)
    if not is_self_attr(after.test, "kill_received") or len(after.orelse) != 1:
        bad(after, "run: after the loop")
    p = after.orelse[0]
    if isinstance(p, ast.Expr) and isinstance(p.value, ast.Call) and attr_chain(p.value.func) == ("self", ["results_queue", "put"]) \
            and len(p.value.args) == 1 and is_self_attr(p.value.args[0], "tree_array"):
        facts["result_put_after_loop"] = True
    else:
        bad(p, "run: result put")
    return facts


def parent_facts_and_collation(fn):
    """parallel_analyze_trees: what is put on the work queue; the collation loop"""
    facts = {"puts_sources": False, "sources_then_markers": False, "one_marker_per_worker": False,
             "one_worker_per_process": False}
    order = []
    try_stmt = None
    for s in fn.body:
        if isinstance(s, ast.For) and isinstance(s.iter, ast.Name) and s.iter.id == "tree_sources":
            b = s.body
            if len(b) == 1 and isinstance(b[0], ast.Expr) and isinstance(b[0].value, ast.Call) \
                    and attr_chain(b[0].value.func) == ("work_queue", ["put"]) and len(b[0].value.args) == 1 \
                    and isinstance(b[0].value.args[0], ast.Name) and b[0].value.args[0].id == s.target.id:
                order.append("sources")
            else:
                bad(s, "parallel_analyze_trees: loop over tree_sources")
        elif isinstance(s, ast.For) and isinstance(s.iter, ast.Call) and isinstance(s.iter.func, ast.Name) and s.iter.func.id == "range" \
                and len(s.iter.args) == 1 and is_self_attr(s.iter.args[0], "num_processes"):
            b = s.body
            if len(b) == 1 and isinstance(b[0], ast.Expr) and isinstance(b[0].value, ast.Call) \
                    and attr_chain(b[0].value.func) == ("work_queue", ["put"]) and len(b[0].value.args) == 1 \
                    and isinstance(b[0].value.args[0], ast.Constant) and b[0].value.args[0].value is None:
                order.append("markers")
            else:
                starts = [x for x in ast.walk(s) if isinstance(x, ast.Call) and isinstance(x.func, ast.Attribute) and x.func.attr == "start"]
                ctors = [x for x in ast.walk(s) if isinstance(x, ast.Call) and isinstance(x.func, ast.Name) and x.func.id == "TreeAnalysisWorker"]
                if len(starts) == 1 and len(ctors) == 1:
                    kw = {k.arg: k.value for k in ctors[0].keywords}
                    if not (isinstance(kw.get("work_queue"), ast.Name) and kw["work_queue"].id == "work_queue"
                            and isinstance(kw.get("results_queue"), ast.Name) and kw["results_queue"].id == "results_queue"):
                        bad(s, "parallel_analyze_trees: worker construction")
                    for k, v in kw.items():
                        if k in CFG_FIELDS and not is_self_attr(v, k):
                            bad(s, "parallel_analyze_trees: worker setting %s" % k)
                    order.append("workers")
                else:
                    bad(s, "parallel_analyze_trees: loop over range(num_processes)")
        elif isinstance(s, ast.Try):
            if try_stmt is not None:
                bad(s, "parallel_analyze_trees: second try")
            try_stmt = s
        else:
            # any other mention of the work queue is not understood
            for x in ast.walk(s):
                if isinstance(x, ast.Name) and x.id == "work_queue" and not (isinstance(s, ast.Assign) and s.targets[0] is x):
                    if not (isinstance(s, ast.Assign) and isinstance(s.targets[0], ast.Name) and s.targets[0].id == "work_queue"):
                        bad(s, "parallel_analyze_trees: use of work_queue")
    facts["puts_sources"] = order.count("sources") == 1
    facts["sources_then_markers"] = order.count("markers") == 1 and order.count("sources") == 1 and \
        order.index("sources") < order.index("markers") < (order.index("workers") if "workers" in order else 99)
    facts["one_marker_per_worker"] = order.count("markers") == 1
    facts["one_worker_per_process"] = order.count("workers") == 1
    if "workers" in order and "sources" in order and order.index("workers") < order.index("sources"):
        bad(fn, "parallel_analyze_trees: workers started before the sources are put")
    # the collation loop
    if try_stmt is None or len(try_stmt.body) != 1 or not isinstance(try_stmt.body[0], ast.While):
        bad(fn, "parallel_analyze_trees: collation loop")
    h = try_stmt.handlers
    if len(h) != 1 or not isinstance(h[0].body[-1], ast.Raise) or h[0].body[-1].exc is not None or try_stmt.orelse or try_stmt.finalbody:
        bad(try_stmt, "parallel_analyze_trees: handler of the collation loop must re-raise")
    for s in h[0].body[:-1]:
        if not (isinstance(s, ast.For) and all(isinstance(x, ast.Expr) and isinstance(x.value, ast.Call)
                                               and isinstance(x.value.func, ast.Attribute) and x.value.func.attr == "terminate" for x in s.body)):
            bad(s, "parallel_analyze_trees: handler statement")
    w = try_stmt.body[0]
    t = w.test
    if not (isinstance(t, ast.Compare) and len(t.ops) == 1 and isinstance(t.ops[0], ast.Lt) and isinstance(t.left, ast.Name)
            and is_self_attr(t.comparators[0], "num_processes")) or w.orelse:
        bad(w, "collation loop guard")
    counter = t.left.id
    init = [s for s in fn.body if isinstance(s, ast.Assign) and isinstance(s.targets[0], ast.Name) and s.targets[0].id == counter]
    if len(init) != 1 or not (isinstance(init[0].value, ast.Constant) and init[0].value.value == 0):
        bad(fn, "collation counter initialisation")
    b = list(w.body)
    first = b.pop(0)
    if not (isinstance(first, ast.Assign) and isinstance(first.targets[0], ast.Name) and isinstance(first.value, ast.Call)
            and attr_chain(first.value.func) == ("results_queue", ["get"]) and not first.value.args and not first.value.keywords):
        bad(first, "collation loop: fetch")
    res = first.targets[0].id
    master = find_ctor_assign(fn.body, lambda t_: isinstance(t_, ast.Name)).targets[0].id
    f = Fn("collate", master, "exc", {master: "TA", res: "Result", counter: "Nat"})
    f.expr = f._expr_with_subscript(f)
    last = b[-1]
    if not (isinstance(last, ast.AugAssign) and isinstance(last.target, ast.Name) and last.target.id == counter
            and isinstance(last.op, ast.Add) and isinstance(last.value, ast.Constant) and last.value.value == 1):
        bad(last, "collation loop: the counter is incremented last")
    body = f.block(b, lambda: "gen_collate_loop results' %s %s num_processes" % (master, counter))
    ret = [s for s in fn.body if isinstance(s, ast.Return)]
    if len(ret) != 1 or not (isinstance(ret[0].value, ast.Name) and ret[0].value.id == master):
        bad(fn, "parallel_analyze_trees: return")
    code = ("(* TreeProcessor.parallel_analyze_trees: the collation loop, line %d.  `results` is the content of the\n"
            "   results queue in arrival order; results_queue.get() on an empty queue blocks (Hang). *)\n"
            "Fixpoint gen_collate_loop (results : list (tarr * option terr)) (%s : tarr) (%s num_processes : nat)\n"
            "  : tarr * option terr :=\n"
            "  if Nat.ltb %s num_processes then\n"
            "    match results with\n"
            "    | [] => (%s, Some (EPy Hang))\n"
            "    | %s :: results' =>\n%s\n"
            "    end\n"
            "  else (%s, None).\n"
            % (w.lineno, master, counter, counter, master, res, indent(body, 6), master))
    return facts, code


def read_into_facts(mod, W, P):
    """sumtrees._read_into_tree_array and its two callers: which sources and which burn-in reach
    TreeArray.read_from_files (FACTS; the progress-logging loop of the `else` branch is not translated)"""
    fn = None
    for n in mod.body:
        if isinstance(n, ast.FunctionDef) and n.name == "_read_into_tree_array":
            fn = n
    if fn is None:
        raise Unsupported("_read_into_tree_array not found")
    facts = {"quiet_is_read_from_files": False, "worker_one_source_per_call": False, "worker_passes_offset": False,
             "serial_passes_all_sources": False, "serial_passes_offset": False}
    body = [s for s in fn.body if not (isinstance(s, ast.Expr) and isinstance(s.value, ast.Constant))]
    if len(body) != 1 or not isinstance(body[0], ast.If):
        bad(fn, "_read_into_tree_array: expected a single `if not log_frequency:`")
    top = body[0]
    t = top.test
    if not (isinstance(t, ast.UnaryOp) and isinstance(t.op, ast.Not) and isinstance(t.operand, ast.Name) and t.operand.id == "log_frequency"):
        bad(top, "_read_into_tree_array: branch test")
    if len(top.body) == 1 and isinstance(top.body[0], ast.Expr) and isinstance(top.body[0].value, ast.Call):
        c = top.body[0].value
        kw = {k.arg: k.value for k in c.keywords}
        if attr_chain(c.func) == ("tree_array", ["read_from_files"]) and not c.args \
                and isinstance(kw.get("files"), ast.Name) and kw["files"].id == "tree_sources" \
                and isinstance(kw.get("tree_offset"), ast.Name) and kw["tree_offset"].id == "tree_offset" \
                and isinstance(kw.get("schema"), ast.Name) and kw["schema"].id == "schema":
            facts["quiet_is_read_from_files"] = True
    # the worker: _read_into_tree_array(tree_array=self.tree_array, tree_sources=[<fetched>], tree_offset=self.tree_offset, ...)
    for c in ast.walk(find_method(W, "run")):
        if isinstance(c, ast.Call) and isinstance(c.func, ast.Name) and c.func.id == "_read_into_tree_array":
            kw = {k.arg: k.value for k in c.keywords}
            ts = kw.get("tree_sources")
            facts["worker_one_source_per_call"] = isinstance(ts, ast.List) and len(ts.elts) == 1 and isinstance(ts.elts[0], ast.Name)
            facts["worker_passes_offset"] = is_self_attr(kw.get("tree_offset"), "tree_offset")
    init = find_method(W, "__init__")
    if not any(isinstance(s, ast.Assign) and len(s.targets) == 1 and is_self_attr(s.targets[0], "tree_offset")
               and isinstance(s.value, ast.Name) and s.value.id == "tree_offset" for s in ast.walk(init)):
        facts["worker_passes_offset"] = False
    par = find_method(P, "parallel_analyze_trees")
    ok = False
    for c in ast.walk(par):
        if isinstance(c, ast.Call) and isinstance(c.func, ast.Name) and c.func.id == "TreeAnalysisWorker":
            kw = {k.arg: k.value for k in c.keywords}
            ok = isinstance(kw.get("tree_offset"), ast.Name) and kw["tree_offset"].id == "tree_offset"
    facts["worker_passes_offset"] = facts["worker_passes_offset"] and ok
    for c in ast.walk(find_method(P, "serial_analyze_trees")):
        if isinstance(c, ast.Call) and isinstance(c.func, ast.Name) and c.func.id == "_read_into_tree_array":
            kw = {k.arg: k.value for k in c.keywords}
            facts["serial_passes_all_sources"] = isinstance(kw.get("tree_sources"), ast.Name) and kw["tree_sources"].id == "tree_sources"
            facts["serial_passes_offset"] = isinstance(kw.get("tree_offset"), ast.Name) and kw["tree_offset"].id == "tree_offset"
    return facts



def generate(repo):
    src = os.path.join(repo, "src", "dendropy")
    tcm = ast.parse(open(os.path.join(src, "datamodel", "treecollectionmodel.py")).read())
    st = ast.parse(open(os.path.join(src, "application", "sumtrees.py")).read())
    TA = find_class(tcm, "TreeArray")
    SD = find_class(tcm, "SplitDistribution")
    W = find_class(st, "TreeAnalysisWorker")
    P = find_class(st, "TreeProcessor")
    out = ["(* GENERATED by py/dv/gen_treearray.py from src/dendropy/datamodel/treecollectionmodel.py and",
           "   src/dendropy/application/sumtrees.py - do not edit.  Semantics of the primitives:",
           "   coq/Model/C06GenPrims.v *)",
           "From Coq Require Import ZArith List Bool.",
           "From DV Require Import Model.PyPrims Model.C06Model Model.C06Queue Model.C06GenPrims.",
           "Import ListNotations.", "Open Scope Z_scope.", ""]
    out.append(gen_len(TA))
    out.append(gen_method(TA, "validate_rooting", "gen_validate_rooting", "TA", ["OptBool"], "exc", "tarr * option terr"))
    out.append(gen_method(SD, "update", "gen_sd_update", "SD", ["SD"], "pure", "sdist"))
    out.append(gen_method(TA, "update", "gen_update", "TA", ["TA"], "exc", "tarr * option terr"))
    out.append(gen_method(TA, "add_tree", "gen_add_tree", "TA", ["TREE", "Bool", "OptInt"], "exc", "tarr * option terr"))
    out.append(gen_method(TA, "extend", "gen_extend", "TA", ["TA"], "exc", "tarr * option terr"))
    out.append(gen_method(TA, "__iadd__", "gen_iadd", "TA", ["TA"], "exc", "tarr * option terr"))
    out.append(gen_add(TA))
    out.append(gen_read_from_files(TA))
    # sumtrees: the arrays
    out.append(gen_array0(find_method(W, "__init__"), "gen_worker_array", lambda t: is_self_attr(t, "tree_array"),
                          "TreeAnalysisWorker.__init__: self.tree_array"))
    out.append(gen_array0(find_method(P, "serial_analyze_trees"), "gen_serial_array", lambda t: isinstance(t, ast.Name),
                          "TreeProcessor.serial_analyze_trees: tree_array"))
    par = find_method(P, "parallel_analyze_trees")
    out.append(gen_array0(par, "gen_master_array", lambda t: isinstance(t, ast.Name),
                          "TreeProcessor.parallel_analyze_trees: master_tree_array"))
    pf, collate = parent_facts_and_collation(par)
    out.append(collate)
    wf = worker_facts(find_method(W, "run"))
    b = lambda x: "true" if x else "false"
    out.append("(* TreeAnalysisWorker.run / TreeProcessor.parallel_analyze_trees: the hand-out protocol, as facts *)")
    out.append("Definition worker_fetch : qprim := %s." % wf["fetch"])
    out.append("Definition worker_exit_on_marker : bool := %s." % b(wf["exit_on_marker"]))
    out.append("Definition worker_exit_on_empty : bool := %s." % b(wf["exit_on_empty"]))
    out.append("Definition worker_reads_fetched_source : bool := %s." % b(wf["reads_fetched_source"]))
    out.append("Definition worker_result_put_after_loop : bool := %s." % b(wf["result_put_after_loop"]))
    out.append("Definition parent_puts_sources : bool := %s." % b(pf["puts_sources"]))
    out.append("Definition parent_sources_then_markers : bool := %s." % b(pf["sources_then_markers"]))
    out.append("Definition parent_one_marker_per_worker : bool := %s." % b(pf["one_marker_per_worker"]))
    out.append("Definition parent_one_worker_per_process : bool := %s." % b(pf["one_worker_per_process"]))
    rf = read_into_facts(st, W, P)
    out.append("(* sumtrees._read_into_tree_array and its callers: which sources and which burn-in reach read_from_files *)")
    out.append("Definition quiet_read_is_read_from_files : bool := %s." % b(rf["quiet_is_read_from_files"]))
    out.append("Definition worker_reads_one_source_per_call : bool := %s." % b(rf["worker_one_source_per_call"]))
    out.append("Definition worker_passes_tree_offset : bool := %s." % b(rf["worker_passes_offset"]))
    out.append("Definition serial_passes_all_sources : bool := %s." % b(rf["serial_passes_all_sources"]))
    out.append("Definition serial_passes_tree_offset : bool := %s." % b(rf["serial_passes_offset"]))
    out.append("Definition source_burnin_reaches_read_from_files : bool :=\n"
               "  quiet_read_is_read_from_files && worker_reads_one_source_per_call && worker_passes_tree_offset\n"
               "  && serial_passes_all_sources && serial_passes_tree_offset.")
    out.append("")
    out.append("Definition source_uses_marker_protocol : bool :=\n"
               "  uses_marker_protocol worker_fetch worker_exit_on_marker worker_exit_on_empty\n"
               "    (parent_puts_sources && parent_sources_then_markers)\n"
               "    (parent_one_marker_per_worker && parent_one_worker_per_process)\n"
               "    (worker_reads_fetched_source && worker_result_put_after_loop).")
    return "\n".join(out) + "\n"


if __name__ == "__main__":
    import sys
    print(generate(sys.argv[1] if len(sys.argv) > 1 else "/repo"))
