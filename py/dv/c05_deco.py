"""C05 harness, wave 6: the DECORATION part of SplitDistributionSummarizer on the real library against
the Coq model coq/Model/C05Model4.v (dcase_ok) and an independent naive oracle.

A case: one SplitDistribution filled with 1-6 trees, one target tree, 1-3 calls
sd.summarize_splits_on_tree(target, **kw) ON THE SAME TARGET (so later calls meet the attributes and
annotations written by earlier ones).  kw draws every decoration option of
SplitDistributionSummarizer.configure (the attribute / annotation flags of support, age_*, length_*,
set_support_as_node_label, support_label_decimals 0..6, support_as_percentages, custom
<field>_attr_name / <field>_annotation_name, is_<field>_annotation_dynamic, a non-failing
set_edge_lengths mode to check that the two views do not interfere) or leaves it to its default.
After every call the harness reads, per node in preorder: every instance attribute of the node and of
its edge that a fresh object does not have (frame!), the annotations in order (name, bound attribute or
value), node.label.

Oracle (Fractions / frozensets from the spec trees, never from the library's tables):
  deco-support          node.<support attr> is the frequency of the node's own clade (x100 with percentages)
  deco-label            node.label is that number in fixed notation with support_label_decimals digits
  deco-length-summary   edge.<length_mean/median attr> are mean / median of the lengths of exactly the
                        trees containing the clade; age_mean / age_median likewise (ultrametric input)
  deco-frame            attributes / annotations / labels appear exactly where the flags ask for them
"""
import copy
import math
from fractions import Fraction

from dv import core, trees
from dv.core import cz, cbool, clist, cq

HEADER = ("From DV Require Import Model.PyPrims Model.C05Model Model.C05GenPrims Model.C05GenPrims4 Model.C05Model4.\n"
          "From Coq Require Import ZArith QArith String. Open Scope Z_scope.")

STATS = ["mean", "median", "sd", "hpd95", "quant_5_95", "range"]
FIELDS = ["support"] + ["age_" + s for s in STATS] + ["length_" + s for s in STATS]
BOOL_KW = ["add_support_as_node_attribute", "add_support_as_node_annotation",
           "add_node_age_summaries_as_node_attributes", "add_node_age_summaries_as_node_annotations",
           "add_edge_length_summaries_as_edge_attributes", "add_edge_length_summaries_as_edge_annotations",
           "support_as_percentages"]
SAFE_MODES = [None, "keep", "support", "clear"]


def gen_kwargs(rng):
    kw = {}
    for k in BOOL_KW:
        if rng.random() < 0.45:
            kw[k] = rng.random() < 0.5
    if rng.random() < 0.6:
        kw["set_support_as_node_label"] = rng.choice([True, True, True, False, None])
    if rng.random() < 0.6:
        kw["support_label_decimals"] = rng.choice([0, 1, 2, 2, 3, 4, 6])
    if rng.random() < 0.25:
        kw["set_edge_lengths"] = rng.choice(SAFE_MODES)
    if rng.random() < 0.3:
        for f in rng.sample(FIELDS, rng.randint(1, 4)):
            r = rng.random()
            if r < 0.4:
                kw[f + "_attr_name"] = "c_" + f
            elif r < 0.7:
                kw[f + "_annotation_name"] = "c_" + f + "_a"
            else:
                kw["is_%s_annotation_dynamic" % f] = False
    return kw


def gen_case(rng):
    from dv import c05
    ntax = rng.randint(4, 7)
    ages = rng.random() < 0.45
    rooting = True if ages else rng.choice([True, True, False, None])
    shapes = [trees.gen_tree(rng, ntax, shape=rng.choice(["binary", "mixed", "caterpillar", "poly"]), lengths="positive")
              for _ in range(rng.randint(1, 3))]
    ts = []
    for _ in range(rng.randint(1, 6)):
        t = copy.deepcopy(rng.choice(shapes))
        for n in trees.preorder(t):
            n["len"] = rng.choice([256, 512, 1024, 1536, 2048, 3072])
        t["len"] = None
        if ages:
            c05.make_ultrametric(rng, t)
        ts.append(t)
    target = copy.deepcopy(rng.choice(shapes)) if rng.random() < 0.7 else \
        trees.gen_tree(rng, ntax, shape="mixed", lengths="positive")
    weights = None
    if rng.random() < 0.3:
        weights = [rng.choice([1, 2, 3, Fraction(1, 2), Fraction(5, 4)]) for _ in ts]
    return {"kind": "deco", "ntax": ntax, "rooting": rooting, "ages": ages, "trees": ts, "target": target,
            "weights": None if weights is None else [[w.numerator, w.denominator] if isinstance(w, Fraction) else [w, 1]
                                                     for w in weights],
            "ignore_len": rng.random() < 0.08, "calls": [gen_kwargs(rng) for _ in range(rng.randint(1, 3))]}


def fixed_cases():
    def leaf(i, l):
        return {"id": 100 + i, "taxon": i, "label": None, "len": l, "kids": []}

    def node(i, l, kids):
        return {"id": i, "taxon": None, "label": None, "len": l, "kids": kids}
    t = node(0, None, [node(1, 1024, [node(2, 1024, [leaf(0, 1024), leaf(1, 1024)]), leaf(2, 2048)]),
                       node(3, 2048, [leaf(3, 1024), leaf(4, 1024)])])
    u = node(0, None, [node(1, 1024, [node(2, 2048, [leaf(0, 1024), leaf(2, 3072)]), leaf(1, 2048)]),
                       node(3, 2048, [leaf(3, 1024), leaf(4, 1024)])])
    base = {"kind": "deco", "ntax": 5, "rooting": True, "ages": False, "weights": None, "ignore_len": False,
            "trees": [copy.deepcopy(t), copy.deepcopy(t), copy.deepcopy(u)], "target": copy.deepcopy(t)}
    return [
        dict(base, calls=[{}]),                                                     # every default
        dict(base, calls=[{"set_support_as_node_label": True}]),                    # default decimals (4)
        dict(base, calls=[{"set_support_as_node_label": True, "support_label_decimals": 1,
                           "support_as_percentages": True}]),
        dict(base, calls=[{}, {"add_support_as_node_attribute": False, "is_length_mean_annotation_dynamic": False}]),
        dict(base, calls=[{"add_support_as_node_annotation": False, "add_edge_length_summaries_as_edge_attributes": False},
                          {"support_attr_name": "c_support", "length_median_annotation_name": "c_length_median_a"}]),
        # eight trees, clade {a,b} in one of them: 0.125 -> an exact tie at 2 decimals ("0.12")
        dict(base, trees=[copy.deepcopy(u)] * 7 + [copy.deepcopy(t)],
             calls=[{"set_support_as_node_label": True, "support_label_decimals": 2}]),
    ]


# ------------------------------------------------------------------------------------------------
# running on the library
# ------------------------------------------------------------------------------------------------
def field_of_name(name):
    n = name
    if n.startswith("c_"):
        n = n[2:]
    if n.endswith("_a") and n[:-2] in FIELDS:
        n = n[:-2]
    return n if n in FIELDS else None


def dv(name, v):
    """observed attribute / annotation value -> JSON form of the model's dval"""
    f = field_of_name(name)
    stat = None if f in (None, "support") else f.split("_", 1)[1]
    if isinstance(v, complex):
        return ["unrepresentable", "complex"]
    if isinstance(v, list) and not v:
        return ["DEmptyList"]
    if stat in ("hpd95", "quant_5_95"):
        return ["DOpaque", stat]          # whatever statistics.summarize stored (a pair or None): opaque
    if v is None:
        return ["DNone"]
    if stat == "sd":
        if isinstance(v, float) and math.isinf(v):
            return ["DSqrt", None]
        if isinstance(v, float) and math.isnan(v):
            return ["unrepresentable", "nan"]
        return ["DSqrt", core_fr(v)]
    if isinstance(v, (tuple, list)) and len(v) == 2:
        return ["DPair", core_fr(v[0]), core_fr(v[1])]
    if isinstance(v, (int, float)) and not isinstance(v, bool):
        if isinstance(v, float) and (math.isinf(v) or math.isnan(v)):
            return ["unrepresentable", repr(v)]
        return ["DFloat", core_fr(v)]
    return ["unrepresentable", type(v).__name__]


def core_fr(x):
    x = Fraction(x)
    return [x.numerator, x.denominator]


class World:
    def __init__(self, case):
        import dendropy
        self.case = case
        self.ns = dendropy.TaxonNamespace()
        self.taxa = [self.ns.new_taxon("t%d" % i) for i in range(case["ntax"])]
        self.idx = {id(t): k for k, t in enumerate(self.taxa)}

    def tree(self, spec, w=None):
        t, _ = trees.build_dendropy(spec, self.taxa, is_rooted=self.case["rooting"], namespace=self.ns)
        if w is not None:
            fw = Fraction(w[0], w[1])
            t.weight = float(fw) if fw.denominator != 1 else int(fw)
        return t


def leafset_of(nd, idx):
    if not nd._child_nodes:
        return [idx[id(nd.taxon)]]
    out = []
    for c in nd._child_nodes:
        out.extend(leafset_of(c, idx))
    return sorted(out)


def observe(case):
    from dendropy.datamodel.treecollectionmodel import SplitDistribution
    w = World(case)
    sd = SplitDistribution(taxon_namespace=w.ns, ignore_edge_lengths=case["ignore_len"],
                           ignore_node_ages=not case["ages"])
    recs_all = []
    for i, spec in enumerate(case["trees"]):
        wt = None if case["weights"] is None else case["weights"][i]
        # the records of the tree AS ENCODED by the library (a second, identical copy)
        t2 = w.tree(spec, wt)
        if case["ages"]:
            t2.calc_node_ages(ultrametricity_precision=sd.ultrametricity_precision)
        t2.encode_bipartitions()
        edge_of = {id(e.bipartition): e for e in t2.postorder_edge_iter()}
        recs = []
        for b in t2.bipartition_encoding:
            e = edge_of[id(b)]
            recs.append([int(b.split_bitmask), None if e.length is None else core_fr(e.length),
                         core_fr(e.head_node.age) if case["ages"] and e.head_node.age is not None else None])
        recs_all.append({"recs": recs, "leafset": int(t2.seed_node.edge.bipartition.leafset_bitmask)})
        sd.count_splits_on_tree(w.tree(spec, wt), is_bipartitions_updated=False, default_edge_length_value=0)
    target = w.tree(case["target"])
    target.encode_bipartitions()        # restructures an unrooted basal bifurcation once; stable afterwards
    nodes = list(target.preorder_node_iter())
    base_node = [set(vars(nd)) | {"_annotations", "age"} for nd in nodes]
    base_edge = [set(vars(nd.edge)) | {"_annotations"} for nd in nodes]
    steps = []
    for kw in case["calls"]:
        try:
            with core.alarm(20):
                sd.summarize_splits_on_tree(target, is_bipartitions_updated=False, **kw)
        except Exception as e:
            steps.append({"err": core.exc_enum(e), "msg": "%s: %s" % (type(e).__name__, str(e)[:100])})
            continue
        out = []
        for nd, bn, be in zip(list(target), base_node, base_edge):
            def deco(obj, base):
                attrs = [[k, dv(k, v)] for k, v in vars(obj).items() if k not in base]
                anns = []
                for a in obj.annotations:
                    if a.is_attribute:
                        anns.append([a.name, a._value[1], None])
                    else:
                        anns.append([a.name, None, dv(a.name, a._value)])
                return {"attrs": attrs, "annots": anns}
            out.append({"split": int(nd.edge.bipartition.split_bitmask), "leafset": leafset_of(nd, w.idx),
                        "is_root": nd._parent_node is None,
                        "node": deco(nd, bn), "edge": deco(nd.edge, be), "label": nd.label,
                        "support_float": None if not isinstance(getattr(nd, kw.get("support_attr_name", "support"), None), float)
                        else getattr(nd, kw.get("support_attr_name", "support")).hex()})
        steps.append({"nodes": out})
    if list(target) != nodes:
        raise RuntimeError("the target's preorder changed")
    return {"trees": recs_all, "target": [int(nd.edge.bipartition.split_bitmask) for nd in nodes], "steps": steps}


# ------------------------------------------------------------------------------------------------
# oracle
# ------------------------------------------------------------------------------------------------
def _median(xs):
    xs = sorted(xs)
    n = len(xs)
    return xs[n // 2] if n % 2 else (xs[n // 2 - 1] + xs[n // 2]) / 2


def _ages(spec):
    """clade -> age (max root-to-tip below), for ultrametric spec trees"""
    out = {}

    def walk(n):
        if not n["kids"]:
            s, a = frozenset([n["taxon"]]), Fraction(0)
        else:
            s, a = frozenset(), Fraction(0)
            for k in n["kids"]:
                ks, ka = walk(k)
                s |= ks
                a = max(a, ka + Fraction(k["len"]) * Fraction(1, 1024))
        out[s] = a
        return s, a
    walk(spec)
    return out


def oracle(case, obs):
    from dv import c05
    ntax = case["ntax"]
    rooted = case["rooting"] is True
    full = frozenset(range(ntax))
    ws = [Fraction(1)] * len(case["trees"]) if case["weights"] is None else [Fraction(a, b) for a, b in case["weights"]]
    per = [c05.spec_splits(t, rooted, ntax) for t in case["trees"]]
    tot = sum(ws)
    # the effective options after each call = the defaults overridden by that call's kwargs
    for kw, step in zip(case["calls"], obs["steps"]):
        if "err" in step:
            return ("summarize_splits_on_tree(%s) raised %s" % (kw, step["msg"]), "deco-raises")
        pct = kw.get("support_as_percentages", False)
        sa = kw.get("add_support_as_node_attribute", True)
        sn = kw.get("add_support_as_node_annotation", True)
        lab = kw.get("set_support_as_node_label", None)
        dec = kw.get("support_label_decimals", 4)
        ea = kw.get("add_edge_length_summaries_as_edge_attributes", True)
        sname = kw.get("support_attr_name", "support")
        for nd in step["nodes"]:
            s = frozenset(nd["leafset"])
            key = s if rooted else ((full - s) if 0 in s else s)
            f = sum(w for w, p in zip(ws, per) if key in p) / tot if tot else None
            attrs = dict((k, v) for k, v in nd["node"]["attrs"])
            if sa and f is not None:
                got = attrs.get(sname)
                want = f * (100 if pct else 1)
                if got is None or got[0] != "DFloat" or abs(Fraction(*got[1]) - want) > Fraction(1, 10 ** 9) * (1 + want):
                    return ("node of clade %s (weighted frequency %s): attribute %r is %s after summarize_splits_on_tree(%s)"
                            % (sorted(s), f, sname, None if got is None else (float(Fraction(*got[1])) if got[0] == "DFloat" else got), kw),
                            "deco-support")
            if lab and f is not None and kw.get("support_label_compose_fn") is None:
                want = float(f * (100 if pct else 1))
                # the value the code formats is the float it computed: re-format the observed float
                if sa and nd["support_float"] is not None:      # (with the attribute off an earlier call's value may linger)
                    want = float.fromhex(nd["support_float"])
                txt = "%.*f" % (dec, want)
                if nd["label"] != txt:
                    return ("node of clade %s: label %r, expected support %r in fixed notation with %d decimals = %r (call %s)"
                            % (sorted(s), nd["label"], want, dec, txt, kw), "deco-label")
            if not lab and nd["label"] is not None and not any(
                    k2.get("set_support_as_node_label") for k2 in case["calls"][:case["calls"].index(kw)]):
                return ("node of clade %s got label %r although set_support_as_node_label is %r" % (sorted(s), nd["label"], lab),
                        "deco-frame")
            # mean / median of the edge lengths of exactly the trees containing the clade
            if ea and not case["ignore_len"] and not nd["is_root"]:
                lens = [p[key] for p in per if key in p]
                if lens and all(isinstance(x, Fraction) for x in lens):
                    eattrs = dict((k, v) for k, v in nd["edge"]["attrs"])
                    for stat, want in (("mean", sum(lens) / len(lens)), ("median", _median(lens))):
                        name = kw.get("length_%s_attr_name" % stat, "length_" + stat)
                        got = eattrs.get(name)
                        if got is None or got[0] != "DFloat" or abs(Fraction(*got[1]) - want) > Fraction(1, 10 ** 9) * (1 + want):
                            return ("edge of clade %s: %s is %s, the %s of the lengths %s of the %d trees containing it is %s (call %s)"
                                    % (sorted(s), name, None if got is None else (float(Fraction(*got[1])) if got[0] == "DFloat" else got),
                                       stat, [float(x) for x in lens], len(lens), float(want), kw), "deco-length-summary")
            if case["ages"] and rooted and kw.get("add_node_age_summaries_as_node_attributes", True):
                ages = [a[s] for a in (_ages(t) for t in case["trees"]) if s in a]
                if ages:
                    for stat, want in (("mean", sum(ages) / len(ages)), ("median", _median(ages))):
                        name = kw.get("age_%s_attr_name" % stat, "age_" + stat)
                        got = attrs.get(name)
                        if got is None or got[0] != "DFloat" or abs(Fraction(*got[1]) - want) > Fraction(1, 10 ** 9) * (1 + want):
                            return ("node of clade %s: %s is %s, the %s of the ages %s of the trees containing it is %s (call %s)"
                                    % (sorted(s), name, None if got is None else got, stat, [float(x) for x in ages], float(want), kw),
                                    "deco-length-summary")
        # frame, first call only (later calls inherit): attributes exist only where a flag asks for them
        if kw is case["calls"][0]:
            for nd in step["nodes"]:
                names = [k for k, _ in nd["node"]["attrs"]]
                enames = [k for k, _ in nd["edge"]["attrs"]]
                if not sa and sname in names:
                    return ("add_support_as_node_attribute=False but the node has attribute %r" % sname, "deco-frame")
                if not kw.get("add_node_age_summaries_as_node_attributes", True) and any(field_of_name(k) in FIELDS[1:7] for k in names):
                    return ("add_node_age_summaries_as_node_attributes=False but the node has %s" % names, "deco-frame")
                if not ea and any(field_of_name(k) in FIELDS[7:] for k in enames):
                    return ("add_edge_length_summaries_as_edge_attributes=False but the edge has %s" % enames, "deco-frame")
                if not sn and any(field_of_name(a[0]) == "support" for a in nd["node"]["annots"]):
                    return ("add_support_as_node_annotation=False but the node has a support annotation", "deco-frame")
                extra = [k for k in names + enames if field_of_name(k) is None]
                if extra:
                    return ("summarize_splits_on_tree wrote unexpected attributes %s" % extra, "deco-frame")
    return None


# ------------------------------------------------------------------------------------------------
# Coq terms
# ------------------------------------------------------------------------------------------------
def cs(s):
    return '"%s"%%string' % s.replace('"', '""')


def cfrac(p):
    return cq(Fraction(p[0], p[1]))


def c_dv(v):
    k = v[0]
    if k == "DFloat":
        return "(DFloat %s)" % cfrac(v[1])
    if k == "DNone":
        return "DNone"
    if k == "DEmptyList":
        return "DEmptyList"
    if k == "DOpaque":
        return "(DOpaque %s)" % cs(v[1])
    if k == "DSqrt":
        return "(DSqrt %s)" % ("None" if v[1] is None else "(Some %s)" % cfrac(v[1]))
    if k == "DPair":
        return "(DPair %s %s)" % (cfrac(v[1]), cfrac(v[2]))
    raise ValueError(v)


def c_deco(d):
    attrs = clist(["(%s, %s)" % (cs(k), c_dv(v)) for k, v in d["attrs"]])
    anns = clist(["(mkAnn %s %s %s)" % (cs(n), "None" if b is None else "(Some %s)" % cs(b),
                                        "None" if v is None else "(Some %s)" % c_dv(v)) for n, b, v in d["annots"]])
    return "(mkDeco %s %s)" % (attrs, anns)


def c_kw(kw):
    def opt(k, f):
        return "(Some %s)" % f(kw[k]) if k in kw else "None"
    ob = lambda v: "None" if v is None else "(Some %s)" % cbool(v)
    mode = lambda v: {None: "ELNone", "keep": "ELKeep", "support": "ELSupport", "clear": "ELClear"}[v]
    dyn = []
    for k, v in kw.items():
        if k.endswith("_attr_name") or k.endswith("_annotation_name"):
            dyn.append("(%s, DvStr %s)" % (cs(k), cs(v)))
        elif k.startswith("is_") and k.endswith("_annotation_dynamic"):
            dyn.append("(%s, DvBool %s)" % (cs(k), cbool(v)))
    return "(mkSkw %s %s %s %s %s %s %s %s %s %s None None None %s)" % (
        opt("set_edge_lengths", mode), opt("add_support_as_node_attribute", cbool), opt("add_support_as_node_annotation", cbool),
        opt("set_support_as_node_label", ob), opt("add_node_age_summaries_as_node_attributes", cbool),
        opt("add_node_age_summaries_as_node_annotations", cbool), opt("add_edge_length_summaries_as_edge_attributes", cbool),
        opt("add_edge_length_summaries_as_edge_annotations", cbool), opt("support_label_decimals", cz),
        opt("support_as_percentages", cbool), clist(dyn))


def unrepresentable(obs):
    def walk(x):
        if isinstance(x, list):
            return (len(x) > 0 and x[0] == "unrepresentable") or any(walk(y) for y in x)
        if isinstance(x, dict):
            return any(walk(y) for y in x.values())
        return False
    return walk(obs["steps"])


def to_coq(case, obs):
    oq = lambda p: "None" if p is None else "(Some %s)" % cfrac(p)
    ts = []
    for i, o in enumerate(obs["trees"]):
        recs = clist(["(mkRec %s %s %s)" % (cz(s), oq(l), oq(a)) for s, l, a in o["recs"]])
        wt = None if case["weights"] is None else case["weights"][i]
        ts.append("(mkTree %s %s %s %s)" % (recs, oq(wt), "None" if case["rooting"] is None else "(Some %s)" % cbool(case["rooting"]),
                                           cz(o["leafset"])))
    exp = []
    calls = []
    for kw, st in zip(case["calls"], obs["steps"]):
        calls.append(c_kw(kw))
        if "err" in st:
            exp.append("(Err %s)" % st["err"])
        else:
            ns = []
            for nd in st["nodes"]:
                lab = "None" if nd["label"] is None else "(Some (LStr %s))" % cs(nd["label"])
                ns.append("(mkDn %s %s %s %s)" % (cz(nd["split"]), c_deco(nd["node"]), c_deco(nd["edge"]), lab))
            exp.append("(Ok %s)" % clist(ns))
    return "(mkDcase (mkCfg %s %s true (Some 0%%Q)) %s %s %s %s)" % (
        cbool(case["ignore_len"]), cbool(not case["ages"]), clist(ts), clist([cz(s) for s in obs["target"]]),
        clist(calls), clist(exp))


def nontrivial(case, obs):
    return len(case["trees"]) >= 2 and any("nodes" in s for s in obs["steps"])
