"""Translator, wave 5 (property C05): the TreeArray functions that RETURN a tree and the decoration code

    TreeArray.restore_tree, maximum_product_of_split_support_tree, maximum_sum_of_split_support_tree,
    TreeArray.consensus_tree, SplitDistribution.summarize_splits_on_tree (the wrapper),
    SplitDistributionSummarizer._decorate, and the DECORATION VIEW of
    SplitDistributionSummarizer.summarize_splits_on_tree (support value, percentage scaling, the
    _decorate call with its flags, the node label, the age_*/length_* loops)

  ->  coq/Gen/SplitDistTa.v   (py/dv/gen_splitdist_ta.py is the registered entry point).

A small compiler in continuation-passing style over typed variables; everything emitted is read off
the AST: callee names, keyword names (matched against the CALLEE's parameter list, which is itself
read from the callee's `def`; defaults of omitted parameters are taken from the callee's defaults),
`**kwargs` forwarding, subscripts and their index variable, which attribute is assigned, branch
conditions and their order, constants.  Statement shapes outside the whitelist raise Unsupported
(py2coq then writes a stub and every dependent proof breaks).

Conventions (the Python meaning of every primitive is stated in coq/Model/C05GenPrims3.v):
  * a method denotes  cfg -> self -> args -> res (self' * result)   (PyPrims.err for exceptions)
  * `**split_summarization_kwargs` is the summarizer configuration as configured (record sopts /
    dopts); `self.tree_decorator.configure(**kw)` therefore binds the decorator to that record;
    forwarding the same `**kw` to restore_tree leaves its summarize_splits_on_tree at the default
    read from restore_tree's signature
  * the nested SplitDistribution of a TreeArray is self._split_distribution (ta_sd); calls on it go
    through the ta_sd_* wrappers of the header, as ta_split_frequencies does in Gen/SplitDist.v
  * the tree returned by from_split_bitmasks is an rtree, wrapped with its later attributes in an
    mtree; as a summarisation target (is_bipartitions_updated=True ONLY) it is py_rtree_target
  * facts: fsb_bipartition_passes_is_rooted (does from_split_bitmasks hand is_rooted to the
    Bipartition it builds for an inserted node), the summarizer defaults and field names
"""
import ast
import os

from dv.gen_splitdist import Unsupported, bad
from dv.c05_gen_impl import find, TCM

TREE = os.path.join("datamodel", "treemodel", "_tree.py")

COQ = {"B": "bool", "OB": "(option bool)", "OQ": "(option Q)", "Q": "Q", "Z": "Z", "ONAT": "(option Z)",
       "LZ": "(list Z)", "LQ": "(list Q)", "LOQ": "(list (option Q))", "SEL": "(option (list (Z * option Q)))",
       "mtree": "mtree", "sopts": "sopts", "stree": "stree", "LNV": "(list nodev)", "CONTREE": "(list Z * ctree)",
       "ta": "ta", "sdx": "sdx", "dopts": "dopts", "deco": "(deco V)", "V": "V", "STR": "string"}


def cname(v):
    return v if not v.startswith("_") else "u" + v


def const_default(node):
    if isinstance(node, ast.Constant) and node.value is None:
        return "None", "NONE"
    if isinstance(node, ast.Constant) and isinstance(node.value, bool):
        return ("true" if node.value else "false"), "B"
    return None, None


class Sig:
    """parameter list of a callee, read from its def"""

    def __init__(self, fn):
        a = fn.args
        names = [x.arg for x in a.args]
        self.params = names[1:] if names and names[0] in ("self", "cls") else names
        nd = len(a.defaults)
        self.defaults = {}
        for p, d in zip(names[len(names) - nd:], a.defaults):
            self.defaults[p] = d
        self.kwarg = a.kwarg.arg if a.kwarg else None
        if a.vararg or a.kwonlyargs:
            raise Unsupported("%s: *args / keyword-only parameters" % fn.name)


# callee table: unparse(func) -> description
#   cls/name : where the callee's def is (its parameter names are checked against `want`)
#   coq      : text applied to the arguments in the order of `want`
#   types    : parameter types;  kw: type of the **kwargs slot (None: none)
#   style    : "state"      (self, r)        let '(self, r) := f args in
#              "state_res"  res (self * r)   py_bind (f args) (fun '(self, r) => ..)
#              "res"        res r            py_bind (f args) (fun r => ..)
CALLEES = {
    "self.calculate_log_product_of_split_supports": dict(
        cls="TreeArray", name="calculate_log_product_of_split_supports",
        coq="gen_calculate_log_product_of_split_supports cfg self", want=["include_external_splits"],
        types=["B"], kw=None, ret=("LQ", "ONAT"), style="state", selfkind="ta"),
    "self.calculate_sum_of_split_supports": dict(
        cls="TreeArray", name="calculate_sum_of_split_supports",
        coq="gen_calculate_sum_of_split_supports cfg self", want=["include_external_splits"],
        types=["B"], kw=None, ret=("LQ", "ONAT"), style="state", selfkind="ta"),
    "self.restore_tree": dict(
        cls="TreeArray", name="restore_tree", coq="gen_restore_tree cfg self ns_all ns_bits",
        want=["index", "summarize_splits_on_tree"], types=["ONAT", "B"], kw="sopts", ret="mtree",
        style="state_res", selfkind="ta"),
    "self._split_distribution.summarize_splits_on_tree": dict(
        cls="SplitDistribution", name="summarize_splits_on_tree",
        coq="ta_sd_summarize_splits_on_tree cfg self ns_all", want=["tree", "is_bipartitions_updated"],
        types=["mtree", "TRUE"], kw="sopts", ret="mtree", style="state_res", selfkind="ta"),
    "self._split_distribution.consensus_tree": dict(
        cls="SplitDistribution", name="consensus_tree", coq="ta_sd_consensus_tree cfg self ns_all ns_bits",
        want=["min_freq", "is_rooted", "summarize_splits"], types=["OQ", "OB", "B"], kw=None, ret="CONTREE",
        style="state", selfkind="ta", drop_kw=True),
    "self.tree_decorator.summarize_splits_on_tree": dict(
        cls="SplitDistributionSummarizer", name="summarize_splits_on_tree",
        coq="gen_summarize_splits_on_tree cfg tree_decorator", want=["split_distribution", "tree", "is_bipartitions_updated"],
        types=["SELF", "stree", "B"], kw=None, ret="LNV", style="state_res", selfkind="sd"),
}


class Mini:
    def __init__(self, tree, cls, fn, selfkind, params, kwty, extra_env=None):
        self.tree, self.cls, self.fn, self.selfkind = tree, cls, fn, selfkind
        self.env = dict(params)
        self.kwname = fn.args.kwarg.arg if fn.args.kwarg else None
        self.kwty = kwty
        if self.kwname:
            self.env[self.kwname] = kwty
        self.kw_extra = {}
        if extra_env:
            self.env.update(extra_env)

    # ------------------------------------------------------------------ expressions
    def ex(self, e):
        """simple (non-raising) expressions -> (text, type)"""
        if isinstance(e, ast.Constant):
            if e.value is None:
                return "None", "NONE"
            if isinstance(e.value, bool):
                return ("true" if e.value else "false"), "B"
            bad(e, "constant")
        if isinstance(e, ast.Name):
            if e.id in self.env:
                return cname(e.id), self.env[e.id]
            bad(e, "unknown name")
        if isinstance(e, ast.Attribute) and isinstance(e.value, ast.Name) and e.value.id == "self":
            if self.selfkind == "ta":
                tab = {"_tree_split_bitmasks": ("(ta_splits self)", "LLZ"), "_tree_edge_lengths": ("(ta_elens self)", "LLOQ"),
                       "_is_rooted_trees": ("(ta_rooting self)", "OB"),
                       "ignore_edge_lengths": ("(c_ignore_edge_lengths cfg)", "B")}
                if e.attr in tab:
                    return tab[e.attr]
                if e.attr == "is_rooted_trees":
                    self.check_property("TreeArray", "is_rooted_trees", "_get_is_rooted_trees", "_is_rooted_trees")
                    return "(ta_rooting self)", "OB"
            bad(e, "attribute of self outside the modelled state")
        if isinstance(e, ast.Call) and isinstance(e.func, ast.Name) and e.func.id == "dict" and len(e.args) == 1 \
                and isinstance(e.args[0], ast.Call) and isinstance(e.args[0].func, ast.Name) \
                and e.args[0].func.id == "zip" and len(e.args[0].args) == 2 and not e.keywords:
            a, ta = self.ex(e.args[0].args[0])
            b, tb = self.ex(e.args[0].args[1])
            if ta == "LZ" and tb == "LOQ":
                return "(Some (py_dict_zip %s %s))" % (a, b), "SEL"
            bad(e, "dict(zip(..)) of %s, %s" % (ta, tb))
        bad(e, "expression")

    def check_property(self, cls, prop, getter, attr):
        """`prop = property(getter, ..)` and getter returns self.<attr>"""
        c = [n for n in self.tree.body if isinstance(n, ast.ClassDef) and n.name == cls]
        if not c:
            raise Unsupported("class %s not found" % cls)
        ok = False
        for n in c[0].body:
            if isinstance(n, ast.Assign) and isinstance(n.targets[0], ast.Name) and n.targets[0].id == prop \
                    and isinstance(n.value, ast.Call) and isinstance(n.value.func, ast.Name) and n.value.func.id == "property" \
                    and n.value.args and isinstance(n.value.args[0], ast.Name) and n.value.args[0].id == getter:
                ok = True
        g = find(self.tree, cls, getter)
        body = [s for s in g.body if not (isinstance(s, ast.Expr) and isinstance(s.value, ast.Constant))]
        if not (ok and len(body) == 1 and isinstance(body[0], ast.Return) and ast.unparse(body[0].value) == "self." + attr):
            raise Unsupported("%s.%s is not the plain property of self.%s" % (cls, prop, attr))

    def coerce(self, text, ty, want, node):
        if ty == want:
            return text
        if ty == "NONE" and want in ("OQ", "OB", "ONAT", "SEL"):
            return "None"
        if ty == "Q" and want == "OQ":
            return "(Some %s)" % text
        if ty == "B" and want == "OB":
            return "(Some %s)" % text
        bad(node, "cannot use %s as %s" % (ty, want))

    # ------------------------------------------------------------------ calls of translated callees
    def callee_args(self, e, d):
        """-> list of argument texts in the callee's parameter order (+ kwargs slot)"""
        fn = find(self.tree, d["cls"], d["name"])
        sig = Sig(fn)
        if sig.params != d["want"] or (d["kw"] or d.get("drop_kw")) and not sig.kwarg:
            raise Unsupported("%s.%s: signature %s, expected %s" % (d["cls"], d["name"], sig.params, d["want"]))
        if e.args:
            bad(e, "positional arguments in a call of a translated function")
        given, splat = {}, None
        for k in e.keywords:
            if k.arg is None:
                if not (isinstance(k.value, ast.Name) and k.value.id == self.kwname) or splat:
                    bad(e, "** forwarding of something else than the function's own **kwargs")
                splat = k.value.id
            else:
                if k.arg in given or k.arg not in sig.params:
                    bad(e, "keyword %s is not a parameter of %s" % (k.arg, d["name"]))
                given[k.arg] = k.value
        out = []
        for p, pty in zip(d["want"], d["types"]):
            if p in given:
                v = given[p]
            elif p in self.kw_extra and splat:
                v = self.kw_extra[p]                  # kwargs["p"] = <const> before the call
            elif p in sig.defaults:
                v = sig.defaults[p]
            else:
                bad(e, "argument %s missing" % p)
            if pty == "SELF":
                if not (isinstance(v, ast.Name) and v.id == "self"):
                    bad(e, "%s must be self" % p)
                out.append("self")
                continue
            if pty == "TRUE":
                # py_rtree_target models the bipartitions as left by from_split_bitmasks only
                if not (isinstance(v, ast.Constant) and v.value is True):
                    bad(e, "%s must be the constant True here" % p)
                continue
            t, ty = self.ex(v)
            out.append(self.coerce(t, ty, pty, v))
        if d["kw"]:
            if not splat:
                bad(e, "the call does not forward **%s" % self.kwname)
            out.append(cname(splat))
        elif splat and not d.get("drop_kw"):
            bad(e, "unexpected ** forwarding")
        if d.get("drop_kw") and not splat:
            bad(e, "the call does not forward **%s" % self.kwname)
        return out

    def bind_call(self, e, pat_names, types, nxt):
        key = ast.unparse(e.func)
        d = CALLEES.get(key)
        if d is None or d["selfkind"] != self.selfkind:
            bad(e, "call")
        args = self.callee_args(e, d)
        call = "%s %s" % (d["coq"], " ".join(args))
        ret = d["ret"]
        if isinstance(ret, tuple):
            if pat_names is None or len(pat_names) != len(ret):
                bad(e, "the call returns %d values" % len(ret))
            for n, t in zip(pat_names, ret):
                self.env[n] = t
            rp = "(" + ", ".join(cname(n) for n in pat_names) + ")"
        else:
            n = pat_names[0] if pat_names else d.get("result_var", "tree")
            if pat_names and len(pat_names) != 1:
                bad(e, "the call returns one value")
            self.env[n] = ret
            rp = cname(n)
        if d["style"] == "state":
            return "let '(self, %s) := %s in\n  %s" % (rp, call, nxt())
        if d["style"] == "state_res":
            return "py_bind (%s) (fun '(self, %s) =>\n  %s)" % (call, rp, nxt())
        bad(e, "call style")

    # ------------------------------------------------------------------ statements
    def block(self, stmts, cont):
        """cont() -> text of what follows (None: the block must return)"""
        if not stmts:
            if cont is None:
                bad(self.fn, "control reaches the end of a block that must return")
            return cont()
        s, rest = stmts[0], stmts[1:]
        nxt = lambda: self.block(rest, cont)
        if isinstance(s, ast.Expr) and isinstance(s.value, ast.Constant) and isinstance(s.value.value, str):
            return nxt()
        if isinstance(s, ast.Assert):
            t = s.test
            if isinstance(t, ast.Compare) and isinstance(t.ops[0], ast.Eq) and \
                    all(isinstance(x, ast.Call) and isinstance(x.func, ast.Name) and x.func.id == "len"
                        for x in [t.left, t.comparators[0]]):
                return "(* %s *)\n  " % ast.unparse(s) + nxt()
            bad(s, "assert")
        if isinstance(s, ast.Return):
            if rest:
                bad(s, "statements after return")
            t, ty = self.ex(s.value)
            if ty != self.rty:
                bad(s, "returns %s, expected %s" % (ty, self.rty))
            return "Ok (self, %s)" % t
        if isinstance(s, ast.Assign) and len(s.targets) == 1:
            return self.assign(s, nxt)
        if isinstance(s, ast.Expr) and isinstance(s.value, ast.Call):
            return self.exprstmt(s, nxt)
        if isinstance(s, ast.If):
            return self.if_(s, nxt)
        bad(s, "statement")

    def assign(self, s, nxt):
        tg, v = s.targets[0], s.value
        # x = <known call>   /   a, b = <known call>
        if isinstance(v, ast.Call) and ast.unparse(v.func) in CALLEES:
            if isinstance(tg, ast.Name):
                return self.bind_call(v, [tg.id], None, nxt)
            if isinstance(tg, ast.Tuple) and all(isinstance(x, ast.Name) for x in tg.elts):
                return self.bind_call(v, [x.id for x in tg.elts], None, nxt)
            bad(s, "assignment target")
        # tree = self.tree_type.from_split_bitmasks(split_bitmasks=, taxon_namespace=, is_rooted=, split_edge_lengths=)
        if isinstance(v, ast.Call) and isinstance(v.func, ast.Attribute) and v.func.attr == "from_split_bitmasks" \
                and isinstance(tg, ast.Name):
            if ast.unparse(v.func.value) != "self.tree_type" or v.args:
                bad(s, "from_split_bitmasks receiver")
            kws = {k.arg: k.value for k in v.keywords}
            if set(kws) != {"split_bitmasks", "taxon_namespace", "is_rooted", "split_edge_lengths"} \
                    or ast.unparse(kws["taxon_namespace"]) != "self.taxon_namespace":
                bad(s, "from_split_bitmasks keywords")
            ss, sty = self.ex(kws["split_bitmasks"])
            r, rty = self.ex(kws["is_rooted"])
            sel, selty = self.ex(kws["split_edge_lengths"])
            if (sty, rty, selty) != ("LZ", "OB", "SEL"):
                bad(s, "from_split_bitmasks argument types %s %s %s" % (sty, rty, selty))
            self.env[tg.id] = "mtree"
            return "py_bind (py_from_split_bitmasks_el ns_all ns_bits %s %s %s) (fun rt =>\n  let %s := py_mt_new rt in\n  %s)" \
                   % (r, ss, sel, cname(tg.id), nxt())
        # x = <list>[i]
        if isinstance(v, ast.Subscript) and isinstance(tg, ast.Name):
            l, lty = self.ex(v.value)
            i, ity = self.ex(v.slice)
            elt = {"LLZ": "LZ", "LLOQ": "LOQ", "LQ": "Q"}.get(lty)
            if elt is None or ity != "ONAT":
                bad(s, "subscript of %s by %s" % (lty, ity))
            self.env[tg.id] = elt
            return "py_bind (py_index_opt %s %s) (fun %s =>\n  %s)" % (l, i, cname(tg.id), nxt())
        # tree.<score attribute> = scores[idx]
        if isinstance(tg, ast.Attribute) and isinstance(tg.value, ast.Name) and self.env.get(tg.value.id) == "mtree" \
                and isinstance(v, ast.Subscript):
            if tg.attr != self.score_attr:
                bad(s, "attribute %s assigned on the tree (expected %s)" % (tg.attr, self.score_attr))
            l, lty = self.ex(v.value)
            i, ity = self.ex(v.slice)
            if (lty, ity) != ("LQ", "ONAT"):
                bad(s, "score subscript types")
            n = cname(tg.value.id)
            return "py_bind (py_index_opt %s %s) (fun sc =>\n  let %s := py_mt_set_score %s sc in\n  %s)" % (l, i, n, n, nxt())
        # kwargs["k"] = <constant>
        if isinstance(tg, ast.Subscript) and isinstance(tg.value, ast.Name) and tg.value.id == self.kwname \
                and isinstance(tg.slice, ast.Constant) and isinstance(tg.slice.value, str) and isinstance(v, ast.Constant):
            self.kw_extra[tg.slice.value] = v
            return "(* %s *)\n  " % ast.unparse(s) + nxt()
        if isinstance(tg, ast.Name):
            t, ty = self.ex(v)
            want = self.local_types.get(tg.id, ty)
            t = self.coerce(t, ty, want, s)
            self.env[tg.id] = want
            return "let %s := %s in\n  %s" % (cname(tg.id), t, nxt())
        bad(s, "assignment")

    local_types = {}
    score_attr = None

    def exprstmt(self, s, nxt):
        c = s.value
        key = ast.unparse(c.func)
        if key in CALLEES:
            d = CALLEES[key]
            # the callee decorates the tree passed as tree=...: rebind that variable
            kws = {k.arg: k.value for k in c.keywords if k.arg}
            tv = kws.get("tree")
            if not isinstance(tv, ast.Name):
                bad(s, "the decorated tree must be a variable")
            return self.bind_call(c, [tv.id], None, nxt)
        if key == "self.tree_decorator.configure" and self.selfkind == "sd":
            if c.args or len(c.keywords) != 1 or c.keywords[0].arg is not None \
                    or not isinstance(c.keywords[0].value, ast.Name) or c.keywords[0].value.id != self.kwname:
                bad(s, "configure arguments")
            return "let tree_decorator := %s in\n  %s" % (cname(self.kwname), nxt())
        bad(s, "expression statement")

    def assigned(self, stmts):
        out = []
        for st in stmts:
            for n in ast.walk(st):
                if isinstance(n, ast.Assign):
                    for t in n.targets:
                        for x in ([t] if not isinstance(t, ast.Tuple) else t.elts):
                            if isinstance(x, ast.Name) and x.id not in out:
                                out.append(x.id)
                            if isinstance(x, ast.Attribute) and isinstance(x.value, ast.Name) and x.value.id != "self" \
                                    and x.value.id not in out:
                                out.append(x.value.id)
                if isinstance(n, ast.Expr) and isinstance(n.value, ast.Call) and ast.unparse(n.value.func) in CALLEES:
                    for k in n.value.keywords:
                        if k.arg == "tree" and isinstance(k.value, ast.Name) and k.value.id not in out:
                            out.append(k.value.id)
        return out

    def if_(self, s, nxt):
        src = ast.unparse(s.test)
        # idioms without effect on the modelled state
        if src == "self.taxon_namespace is not tree.taxon_namespace" and len(s.body) == 1 and isinstance(s.body[0], ast.Raise) \
                and not s.orelse:
            return "(* %s: raise ... -- namespace identity *)\n  " % src + nxt()
        if src == "self.tree_decorator is None" and len(s.body) == 1 and not s.orelse \
                and ast.unparse(s.body[0]) == "self.tree_decorator = SplitDistributionSummarizer()":
            return "(* %s: a fresh summarizer; it is configured next *)\n  " % src + nxt()
        c, cty = self.ex(s.test)
        if cty != "B":
            bad(s, "condition of type %s" % cty)
        env0 = dict(self.env)
        a1, a2 = self.assigned(s.body), self.assigned(s.orelse)
        vs = [v for v in a1 + [x for x in a2 if x not in a1] if v in env0 or (v in a1 and v in a2)]
        kw0 = dict(self.kw_extra)

        def run(stmts):
            self.env = dict(env0)
            self.kw_extra = dict(kw0)
            envs = []

            def endk():
                envs.append(dict(self.env))
                for v in vs:
                    if v not in self.env:
                        bad(s, "variable %s not defined at the end of a branch" % v)
                return "Ok (self, %s)" % self.tup(vs)
            txt = self.block(stmts, endk)
            return txt, envs[0]
        a, ea = run(s.body)
        b, eb = run(s.orelse)
        for v in vs:
            if ea[v] != eb[v]:
                bad(s, "variable %s has types %s / %s in the branches" % (v, ea[v], eb[v]))
        self.env = dict(env0)
        self.kw_extra = kw0
        for v in vs:
            self.env[v] = ea[v]
        if not vs:
            bad(s, "if without effect")
        return "py_bind (if %s\n  then %s\n  else %s) (fun '(self, %s) =>\n  %s)" % (c, a, b, self.tup(vs), nxt())

    def tup(self, names):
        names = [cname(n) for n in names]
        return names[0] if len(names) == 1 else "(" + ", ".join(names) + ")"


# ------------------------------------------------------------------------------------------
# the functions
# ------------------------------------------------------------------------------------------
def compile_method(tree, cls, pyname, coqname, selfkind, params, kwty, rty, extra_sig="", local_types=None,
                   score_attr=None):
    fn = find(tree, cls, pyname)
    sig = Sig(fn)
    if sig.params != [p for p, _ in params] or bool(sig.kwarg) != bool(kwty):
        raise Unsupported("%s.%s: signature %s / **%s" % (cls, pyname, sig.params, sig.kwarg))
    c = Mini(tree, cls, fn, selfkind, params, kwty)
    c.rty = rty
    c.local_types = local_types or {}
    c.score_attr = score_attr
    body = c.block(fn.body, None)
    selfty = {"ta": "ta", "sd": "sdx"}[selfkind]
    ps = " ".join("(%s : %s)" % (cname(p), COQ[t]) for p, t in params)
    if kwty:
        ps += " (%s : %s)" % (cname(sig.kwarg), COQ[kwty])
    return "(* %s.%s, line %d *)\nDefinition %s (cfg : config) (self : %s) %s%s : res (%s * %s) :=\n  %s.\n" % (
        cls, pyname, fn.lineno, coqname, selfty, extra_sig, ps, selfty, COQ[rty], body)


def fact_passes_is_rooted(ttree):
    """does Tree.from_split_bitmasks hand is_rooted to the Bipartition built for an inserted node"""
    fn = find(ttree, "Tree", "from_split_bitmasks")
    names = [a.arg for a in fn.args.args]
    if names != ["cls", "split_bitmasks", "taxon_namespace", "is_rooted", "split_edge_lengths"]:
        raise Unsupported("from_split_bitmasks: signature %s" % names)
    hits = []
    for n in ast.walk(fn):
        if isinstance(n, ast.Assign) and ast.unparse(n.targets[0]) == "new_edge.bipartition" and isinstance(n.value, ast.Call):
            hits.append(n.value)
    if len(hits) != 1 or ast.unparse(hits[0].func) != "_bipartition.Bipartition" or hits[0].args:
        raise Unsupported("from_split_bitmasks: the Bipartition built for new_edge was not found")
    kws = {k.arg: k.value for k in hits[0].keywords}
    need = {"leafset_bitmask": "new_mask", "tree_leafset_bitmask": "all_taxa_bitmask", "compile_bipartition": "True"}
    for k, v in need.items():
        if k not in kws or ast.unparse(kws[k]) != v:
            raise Unsupported("from_split_bitmasks: Bipartition(%s=..) is not %s" % (k, v))
    extra = set(kws) - set(need) - {"is_mutable", "is_rooted"}
    if extra:
        raise Unsupported("from_split_bitmasks: unexpected Bipartition keywords %s" % sorted(extra))
    if "is_rooted" not in kws:
        return False
    if ast.unparse(kws["is_rooted"]) != "is_rooted":
        raise Unsupported("from_split_bitmasks: Bipartition(is_rooted=%s)" % ast.unparse(kws["is_rooted"]))
    return True


HEADER = """(* GENERATED by py/dv/gen_splitdist_ta.py (py/dv/c05_gen_impl3.py, c05_gen_impl4.py) from
   datamodel/treecollectionmodel.py and datamodel/treemodel/_tree.py -- do not edit *)
From Coq Require Import ZArith QArith Qabs List Bool String.
From DV Require Import Model.PyPrims Gen.BitFns Model.C05Model Model.C05Spec Model.C05Model2
     Model.C05GenPrims Model.C05GenPrims2 Model.C05GenPrims3 Gen.SplitDist.
Import ListNotations.
Open Scope Z_scope.

(* fact read off Tree.from_split_bitmasks: Bipartition(leafset_bitmask=new_mask,
   tree_leafset_bitmask=all_taxa_bitmask%s) for an inserted node *)
Definition fsb_bipartition_passes_is_rooted : bool := %s.
"""

WRAPPERS = """
(* calls on the nested object self._split_distribution of a TreeArray (as ta_split_frequencies) *)
Definition ta_sd_summarize_splits_on_tree (cfg : config) (a : ta) (ns_all : Z) (tree : mtree) (kw : sopts)
  : res (ta * mtree) :=
  py_bind (gen_sd_summarize_splits_on_tree cfg (mkSdx (ta_sd a) None None 0)
             (py_rtree_target fsb_bipartition_passes_is_rooted ns_all (mt_tree tree)) true kw)
          (fun '(x, nodes) => Ok (with_sd a (x_sd x), py_mt_set_nodes tree nodes)).

(* the **kwargs of consensus_tree only reach the decoration step, which is separate *)
Definition ta_sd_consensus_tree (cfg : config) (a : ta) (ns_all : Z) (ns_bits : list Z) (min_freq : option Q)
           (is_rooted : option bool) (summarize_splits : bool) : ta * (list Z * ctree) :=
  let '(x, r) := gen_consensus_tree cfg (mkSdx (ta_sd a) None None 0) ns_all ns_bits min_freq is_rooted summarize_splits in
  (with_sd a (x_sd x), r).
"""


def generate(repo):
    src = os.path.join(repo, "src", "dendropy")
    with open(os.path.join(src, TCM)) as f:
        tree = ast.parse(f.read())
    with open(os.path.join(src, TREE)) as f:
        ttree = ast.parse(f.read())
    passes = fact_passes_is_rooted(ttree)
    out = [HEADER % (", is_rooted=is_rooted" if passes else "", "true" if passes else "false")]
    # the callees translated in Gen/SplitDist.v: their parameter lists are re-checked by callee_args
    out.append(compile_method(tree, "SplitDistribution", "summarize_splits_on_tree", "gen_sd_summarize_splits_on_tree",
                              "sd", [("tree", "stree"), ("is_bipartitions_updated", "B")], "sopts", "LNV"))
    out.append(WRAPPERS)
    out.append(compile_method(tree, "TreeArray", "restore_tree", "gen_restore_tree", "ta",
                              [("index", "ONAT"), ("summarize_splits_on_tree", "B")], "sopts", "mtree",
                              extra_sig="(ns_all : Z) (ns_bits : list Z) ", local_types={"split_edge_lengths": "SEL"}))
    out.append(compile_method(tree, "TreeArray", "maximum_product_of_split_support_tree",
                              "gen_maximum_product_of_split_support_tree", "ta",
                              [("include_external_splits", "B"), ("summarize_splits", "B")], "sopts", "mtree",
                              extra_sig="(ns_all : Z) (ns_bits : list Z) ", score_attr="log_product_of_split_support"))
    out.append(compile_method(tree, "TreeArray", "maximum_sum_of_split_support_tree",
                              "gen_maximum_sum_of_split_support_tree", "ta",
                              [("include_external_splits", "B"), ("summarize_splits", "B")], "sopts", "mtree",
                              extra_sig="(ns_all : Z) (ns_bits : list Z) ", score_attr="sum_of_split_support"))
    out.append(compile_method(tree, "TreeArray", "consensus_tree", "gen_ta_consensus_tree", "ta",
                              [("min_freq", "OQ"), ("summarize_splits", "B")], "sopts", "CONTREE",
                              extra_sig="(ns_all : Z) (ns_bits : list Z) "))
    try:
        from dv import c05_gen_impl4
    except ImportError:
        c05_gen_impl4 = None
    if c05_gen_impl4 is not None:
        out.append(c05_gen_impl4.extra(tree))
    return "\n".join(out)
