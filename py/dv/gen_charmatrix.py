"""Translator: row/column operations of dendropy CharacterMatrix  ->  coq/Gen/CharMatrix.v  (property C19).

generate(repo) parses src/dendropy/datamodel/charmatrixmodel.py with `ast` and compiles the methods
listed in PLAN, statement by statement, into Gallina over the run-time library
coq/Model/C19Prims.v (whose definitions state the Python semantics assumed for each construct).

  * a method denotes  args -> (receiver * res result): the receiver as it is when the call ends
    (also when it ends by an exception: mutations made before stay) and the returned value /
    exception / fuel exhaustion;  a classmethod has receiver `tt`
  * mutable objects (the receiver, objects created in the method) are re-bound by `let`/`match`
    after every mutation; `d[k] = v`, `del d[k]`, `seq.append(x)` ... become the primitives
    py_dict_set, py_dict_del, py_seq_append ...
  * `for x in xs: body` becomes  for_each xs (fun x carried => body) carried  where `carried` is the
    tuple of variables that live across iterations (assigned or mutated in the body and defined before
    the loop); iterating a dict whose keys the body itself adds or deletes becomes for_each_live
    (RuntimeError when the size changes); `while` becomes while_loop with the fuel term given in FUEL
    (that it suffices is proved in Proofs/C19Gen*.v, never assumed)
  * `raise E(...)` becomes Err <class of E> (arguments of the exception are not evaluated);
    `continue` ends the iteration; `try: ... except KeyError: pass` catches exactly Err KeyErr
  * expressions that can raise (d[k], l[0], m[0]) are hoisted into a `match` in evaluation order
  * `x is None` on an optional value, `is_str_type(x)` on a str-or-subset value become `match` and
    refine the type of x in the branches
  * a sequence obtained by `v = m[k]` / `for v in m.values()` and mutated in place is written back to
    its matrix at the end of the block (mat_store)
  * argument types come from SPECS (Python has none); everything else - operators, comparison
    directions, call names, argument order, loop bounds, which variable is updated, statement order -
    is read off the AST.

It is a compiler for a small whitelisted subset, not a table of known function bodies.  Anything
outside the subset raises Unsupported (py2coq then writes a stub, so every dependent proof breaks).
"""
import ast
import os

OUTPUT = "CharMatrix.v"


class Unsupported(Exception):
    pass


def bad(node, why):
    raise Unsupported("%s at line %s: %s" % (why, getattr(node, "lineno", "?"), ast.dump(node)[:160]))


# ----------------------------------------------------------------------------------------------
# types (strings): matrix rows seq iterseq taxon taxa taxset idxlist idxset int optint bool cell
#                  label optlabel ns subsets subset strsub matrices none unit pair(...)
# ----------------------------------------------------------------------------------------------
COQ_TY = {"matrix": "matrix", "rows": "rows", "seq": "row", "iterseq": "row", "taxon": "tid", "taxa": "(list tid)",
          "taxset": "(list tid)", "idxlist": "(list Z)", "idxset": "(list Z)", "int": "Z", "optint": "(option Z)",
          "bool": "bool", "cell": "cell", "label": "lbl", "optlabel": "(option lbl)", "ns": "nsid",
          "subsets": "subsets", "subset": "(list Z)", "strsub": "(lbl + list Z)%type", "matrices": "(list matrix)",
          "unit": "unit"}

EXC = {"TaxonNamespaceIdentityError": "ValueErr",       # error.TaxonNamespaceIdentityError(ValueError)
       "ValueError": "ValueErr", "KeyError": "KeyErr", "IndexError": "IndexErr", "TypeError": "TypeErr"}

# fields of a CharacterDataSequence that the model does not carry (character types / annotations of
# cells): statements that read and write nothing but these are recorded in the output and skipped
UNMODELLED_FIELDS = {"_character_types", "_character_annotations"}
UNMODELLED_PARAMS = {"character_types", "character_annotations"}

# method -> (class, [(param, type)], receiver type, result type, extra leading parameters)
SPECS = {
    "extend": ("CharacterDataSequence", [("character_values", "iterseq"), ("character_types", "skip"),
                                         ("character_annotations", "skip")], "seq", "unit", [("alias", "bool")]),
    "add_sequences": ("CharacterMatrix", [("other_matrix", "matrix")], "matrix", "unit", []),
    "replace_sequences": ("CharacterMatrix", [("other_matrix", "matrix")], "matrix", "unit", []),
    "update_sequences": ("CharacterMatrix", [("other_matrix", "matrix")], "matrix", "unit", []),
    "extend_sequences": ("CharacterMatrix", [("other_matrix", "matrix"), ("is_add_new_sequences", "bool")],
                         "matrix", "unit", [("same", "bool")]),
    "extend_matrix": ("CharacterMatrix", [("other_matrix", "matrix")], "matrix", "unit", [("same", "bool")]),
    "remove_sequences": ("CharacterMatrix", [("taxa", "taxa")], "matrix", "unit", []),
    "discard_sequences": ("CharacterMatrix", [("taxa", "taxa")], "matrix", "unit", []),
    "keep_sequences": ("CharacterMatrix", [("taxa", "taxa")], "matrix", "unit", []),
    "fill": ("CharacterMatrix", [("value", "cell"), ("size", "optint"), ("append", "bool")], "matrix", "int", []),
    "fill_taxa": ("CharacterMatrix", [], "matrix", "unit", []),
    "pack": ("CharacterMatrix", [("value", "cell"), ("size", "optint"), ("append", "bool")], "matrix", "unit", []),
    "export_character_indices": ("CharacterMatrix", [("indices", "idxlist")], "matrix", "matrix", []),
    "export_character_subset": ("CharacterMatrix", [("character_subset", "strsub")], "matrix", "matrix", []),
    "concatenate": ("CharacterMatrix", [("char_matrices", "matrices")], "cls", "matrix", []),
}
PLAN = ["extend", "add_sequences", "replace_sequences", "update_sequences", "extend_sequences", "extend_matrix",
        "remove_sequences", "discard_sequences", "keep_sequences", "fill_taxa", "fill", "pack",
        "export_character_indices", "export_character_subset", "concatenate"]

# fuel of the k-th `while` of a method, as a term over the variables in scope at the loop
FUEL = {("fill", 0): "(S (Z.to_nat (size - zlen v)))",
        ("concatenate", 0): "(free_name_fuel (m_subs concatenated_chars))"}

# untranslated helpers called as methods on a mutable matrix:  name -> (coq function, result type)
HELPER_METHODS = {"new_character_subset": ("new_character_subset lower", ["label", "character_indices"])}


class Env:
    def __init__(self):
        self.ty = {}          # python name -> type (insertion ordered)
        self.refined = {}     # ast.dump(expr) -> (term, type)
        self.alias = {}       # seq variable -> (matrix variable, key term)   (a reference into the matrix)
        self.dirty = set()    # aliased seq variables mutated since they were loaded
        self.fresh = set()    # matrix variables holding an object created in this method

    def copy(self):
        e = Env()
        e.ty = dict(self.ty)
        e.refined = dict(self.refined)
        e.alias = dict(self.alias)
        e.dirty = set(self.dirty)
        e.fresh = set(self.fresh)
        return e


class Ctx:
    """how a block ends: fall(env) -> term for falling off its end; abort(env, status) -> term for leaving
    it by an exception / fuel exhaustion; cont(env) for `continue` (None outside loops);
    ret(env, term) for `return` (None inside loops)"""
    def __init__(self, fall, abort, cont=None, ret=None):
        self.fall, self.abort, self.cont, self.ret = fall, abort, cont, ret


def tup(names):
    return names[0] if len(names) == 1 else "(" + ", ".join(names) + ")"


def pat(names):
    return names[0] if len(names) == 1 else "'(" + ", ".join(names) + ")"


class Method:
    def __init__(self, fn, name, gens, notes):
        self.fn = fn
        self.name = name
        self.cls, self.params, self.recv_ty, self.ret_ty, self.extra = SPECS[name]
        self.gens = gens            # already generated methods: name -> Method
        self.notes = notes
        self.nwhile = 0
        self.nfresh = 0

    # ------------------------------------------------------------------ helpers
    def fresh(self, base):
        self.nfresh += 1
        return "%s_%d" % (base, self.nfresh)

    def state(self, env):
        """the receiver as it is now"""
        return "tt" if self.recv_ty == "cls" else "self"

    def T(self, mterm):
        return "(taxa_of (m_ns %s))" % mterm

    def guard(self, rterm, var, inner, ctx, env):
        """match rterm : res _ with Ok var => inner | failure => abort"""
        return ("match %s with\n| Ok %s => %s\n| Err e_ => %s\n| OutOfFuel => %s\nend"
                % (rterm, var, inner, ctx.abort(env, "(Err e_)"), ctx.abort(env, "OutOfFuel")))

    def with_binds(self, binds, inner, ctx, env):
        for var, rterm in reversed(binds):
            inner = self.guard(rterm, var, inner, ctx, env)
        return inner

    # ------------------------------------------------------------------ expressions
    def is_name(self, e, env, ty=None):
        return isinstance(e, ast.Name) and e.id in env.ty and (ty is None or env.ty[e.id] == ty)

    def expr(self, e, env, binds):
        """returns (term, type); appends (var, res-term) to binds for sub-expressions that can raise"""
        key = ast.dump(e)
        if key in env.refined:
            return env.refined[key]
        if isinstance(e, ast.Constant):
            if e.value is None:
                return "None", "none"
            if isinstance(e.value, bool):
                return ("true" if e.value else "false"), "bool"
            if isinstance(e.value, int):
                return "(%d)" % e.value, "int"
            bad(e, "constant")
        if isinstance(e, ast.Name):
            if e.id not in env.ty:
                bad(e, "unknown name")
            if env.ty[e.id] == "skip":
                bad(e, "use of an unmodelled parameter")
            return e.id, env.ty[e.id]
        if isinstance(e, ast.Attribute):
            if not (isinstance(e.value, ast.Name) and e.value.id not in env.ty):
                t, ty = self.expr(e.value, env, binds)
                if ty == "matrix":
                    table = {"_taxon_sequence_map": ("(m_rows %s)", "rows"), "taxon_namespace": ("(m_ns %s)", "ns"),
                             "character_subsets": ("(m_subs %s)", "subsets"), "label": ("(m_label %s)", "optlabel"),
                             "vector_size": ("(vector_size (m_rows %s))", "int"),
                             "max_sequence_size": ("(max_sequence_size (taxa_of (m_ns %s)) (m_rows %s))", "int")}
                    if e.attr in table:
                        f, rty = table[e.attr]
                        return f.replace("%s", t), rty
                if ty == "subset" and e.attr == "character_indices":
                    return t, "idxlist"
                if ty == "seq" and e.attr == "_character_values" and isinstance(e.value, ast.Name) and e.value.id == "self":
                    return t, "seq"
            bad(e, "attribute")
        if isinstance(e, ast.UnaryOp) and isinstance(e.op, ast.Not):
            t, ty = self.expr(e.operand, env, binds)
            if ty != "bool":
                bad(e, "not on a non-bool")
            return "(negb %s)" % t, "bool"
        if isinstance(e, ast.UnaryOp) and isinstance(e.op, ast.USub):
            t, ty = self.expr(e.operand, env, binds)
            if ty != "int":
                bad(e, "negation of a non-int")
            return "(Z.opp %s)" % t, "int"
        if isinstance(e, ast.BinOp):
            if isinstance(e.op, ast.Mod) and isinstance(e.left, ast.Constant) and isinstance(e.left.value, str):
                fmt = e.left.value
                if fmt == "%s_%03d" and isinstance(e.right, ast.Tuple) and len(e.right.elts) == 2:
                    a, ta = self.expr(e.right.elts[0], env, binds)
                    b, tb = self.expr(e.right.elts[1], env, binds)
                    if (ta, tb) != ("label", "int"):
                        bad(e, "format arguments")
                    return "(suffix %s %s)" % (a, b), "label"
                if fmt == "locus%03d":
                    a, ta = self.expr(e.right, env, binds)
                    if ta != "int":
                        bad(e, "format argument")
                    return "(locus %s)" % a, "label"
                bad(e, "format string")
            ops = {ast.Add: "Z.add", ast.Sub: "Z.sub"}
            if type(e.op) in ops:
                a, ta = self.expr(e.left, env, binds)
                b, tb = self.expr(e.right, env, binds)
                if (ta, tb) != ("int", "int"):
                    bad(e, "arithmetic on non-ints")
                return "(%s %s %s)" % (ops[type(e.op)], a, b), "int"
            bad(e, "binary operator")
        if isinstance(e, ast.Compare):
            if len(e.ops) != 1:
                bad(e, "chained comparison")
            op = e.ops[0]
            a, ta = self.expr(e.left, env, binds)
            b, tb = self.expr(e.comparators[0], env, binds)
            if isinstance(op, (ast.In, ast.NotIn)):
                if tb == "rows" and ta == "taxon":
                    t = "(py_dict_contains %s %s)" % (a, b)
                elif tb == "matrix" and ta == "taxon":
                    t = "(mat_contains %s %s)" % (a, b)
                elif (tb, ta) in (("taxset", "taxon"), ("idxset", "int")):
                    t = "(py_set_contains %s %s)" % (a, b)
                elif tb == "subsets" and ta == "label":
                    t = "(has_key lower %s %s)" % (a, b)
                else:
                    bad(e, "membership test %s in %s" % (ta, tb))
                return (t if isinstance(op, ast.In) else "(negb %s)" % t), "bool"
            if isinstance(op, (ast.Is, ast.IsNot)):
                if (ta, tb) == ("ns", "ns"):
                    t = "(Z.eqb %s %s)" % (a, b)          # identity of namespace objects
                    return (t if isinstance(op, ast.Is) else "(negb %s)" % t), "bool"
                bad(e, "identity test (only namespaces, or `is None` as an if-test)")
            cmp_ = {ast.Eq: "Z.eqb", ast.Lt: "Z.ltb", ast.LtE: "Z.leb", ast.Gt: "Z.gtb", ast.GtE: "Z.geb"}
            if (ta, tb) != ("int", "int"):
                bad(e, "comparison of non-ints")
            if isinstance(op, ast.NotEq):
                return "(negb (Z.eqb %s %s))" % (a, b), "bool"
            if type(op) in cmp_:
                return "(%s %s %s)" % (cmp_[type(op)], a, b), "bool"
            bad(e, "comparison operator")
        if isinstance(e, ast.Subscript):
            base, idx = e.value, e.slice
            bt, bty = self.expr(base, env, binds)
            it, ity = self.expr(idx, env, binds)
            v = self.fresh("x")
            if bty == "rows" and ity == "taxon":
                binds.append((v, "py_dict_get %s %s" % (it, bt)))
                return v, "seq"
            if bty == "matrices" and ity == "int":
                binds.append((v, "py_list_index %s %s" % (bt, it)))
                return v, "matrix"
            if bty == "matrix" and ity == "int":
                binds.append((v, "mat_getitem_ro %s %s (KIdx %s)" % (self.T(bt), bt, it)))
                return v, "seq"
            if bty == "matrix" and ity == "taxon":
                binds.append((v, "mat_getitem_ro %s %s (KTax %s)" % (self.T(bt), bt, it)))
                return v, "seq"
            if bty == "subsets" and ity == "label":
                binds.append((v, "match find_sub lower %s %s with Some s_ => Ok s_ | None => Err KeyErr end" % (it, bt)))
                return v, "subset"
            bad(e, "subscript %s[%s]" % (bty, ity))
        if isinstance(e, ast.Call):
            return self.call(e, env, binds)
        bad(e, "expression")

    def call(self, e, env, binds):
        f = e.func
        args = e.args
        if isinstance(f, ast.Name):
            if f.id == "len" and len(args) == 1 and not e.keywords:
                a, ta = self.expr(args[0], env, binds)
                if ta == "matrix":
                    return "(mat_len %s)" % a, "int"
                if ta in ("seq", "taxa", "idxlist", "matrices"):
                    return "(zlen %s)" % a, "int"
                if ta == "ns":
                    return "(zlen (taxa_of %s))" % a, "int"
                if ta == "rows":
                    return "(py_dict_len %s)" % a, "int"
                bad(e, "len of %s" % ta)
            if f.id == "set" and len(args) == 1 and not e.keywords:
                a, ta = self.expr(args[0], env, binds)
                if ta == "taxa":
                    return "(py_set %s)" % a, "taxset"
                if ta in ("idxlist", "idxset"):
                    return "(py_set %s)" % a, "idxset"
                bad(e, "set of %s" % ta)
            if f.id == "list" and len(args) == 1 and not e.keywords:
                a, ta = self.expr(args[0], env, binds)
                if ta == "iterseq" and self.recv_ty == "seq":
                    return "(py_list_of_iter alias self %s)" % a, "seq"
                if ta == "seq":
                    return a, "seq"
                bad(e, "list of %s" % ta)
            if f.id == "range" and not e.keywords:
                ts = [self.expr(a, env, binds) for a in args]
                if any(t[1] != "int" for t in ts):
                    bad(e, "range of non-ints")
                if len(ts) == 2:
                    return "(py_range2 %s %s)" % (ts[0][0], ts[1][0]), "idxlist"
                if len(ts) == 3 and ts[2][0] == "(Z.opp (1))":
                    return "(py_range_down %s %s)" % (ts[0][0], ts[1][0]), "idxlist"
                bad(e, "range form")
            if f.id == "cls" and not args and len(e.keywords) == 1 and e.keywords[0].arg == "taxon_namespace" \
                    and self.recv_ty == "cls":
                a, ta = self.expr(e.keywords[0].value, env, binds)
                if ta != "ns":
                    bad(e, "cls(taxon_namespace=%s)" % ta)
                return "(mat_new %s)" % a, "matrix!fresh"
            if f.id == "CharacterDataSequence" and not args and not e.keywords:
                return "py_seq_empty", "seq"
            bad(e, "call of %s" % f.id)
        if isinstance(f, ast.Attribute):
            # self.__class__.character_sequence_type(values)
            if (f.attr == "character_sequence_type" and isinstance(f.value, ast.Attribute) and f.value.attr == "__class__"
                    and isinstance(f.value.value, ast.Name) and f.value.value.id == "self" and len(args) == 1
                    and not e.keywords):
                a, ta = self.expr(args[0], env, binds)
                if ta != "seq":
                    bad(e, "sequence constructor on %s" % ta)
                return "(py_seq_new %s)" % a, "seq"
            # self.__class__(self)
            if (f.attr == "__class__" and isinstance(f.value, ast.Name) and f.value.id == "self" and len(args) == 1
                    and self.is_name(args[0], env, "matrix") and args[0].id == "self" and not e.keywords):
                return "(mat_clone self)", "matrix!fresh"
            if f.attr == "OrderedCaselessDict" and isinstance(f.value, ast.Name) and f.value.id == "container" \
                    and not args and not e.keywords:
                return "[]", "subsets"
            if f.attr == "is_str_type":
                bad(e, "is_str_type outside an if-test")
        bad(e, "call")

    # ------------------------------------------------------------------ analysis of a loop body
    def written(self, stmts, env):
        """names assigned and mutable objects mutated by the statements (syntactic)"""
        out = []

        def add(n):
            if n not in out:
                out.append(n)

        def root(e):
            while isinstance(e, (ast.Attribute, ast.Subscript)):
                e = e.value
            return e.id if isinstance(e, ast.Name) else None

        for s in ast.walk(ast.Module(body=list(stmts), type_ignores=[])):
            if isinstance(s, (ast.Assign, ast.AugAssign)):
                for t in (s.targets if isinstance(s, ast.Assign) else [s.target]):
                    for n in ([t] if not isinstance(t, ast.Tuple) else t.elts):
                        r = root(n)
                        if r:
                            add(r)
            elif isinstance(s, ast.For):
                for n in ([s.target] if not isinstance(s.target, ast.Tuple) else s.target.elts):
                    if isinstance(n, ast.Name):
                        add(n.id)
            elif isinstance(s, ast.Delete):
                for t in s.targets:
                    r = root(t)
                    if r:
                        add(r)
            elif isinstance(s, ast.Expr) and isinstance(s.value, ast.Call) and isinstance(s.value.func, ast.Attribute):
                r = root(s.value.func.value)
                if r:
                    add(r)
        # a sequence reference created inside these statements (v = m[k], for v in m.values()) and mutated
        # there mutates its matrix; a reference that exists already is carried itself and written back later
        created = {}
        for s in ast.walk(ast.Module(body=list(stmts), type_ignores=[])):
            if (isinstance(s, ast.Assign) and len(s.targets) == 1 and isinstance(s.targets[0], ast.Name)
                    and isinstance(s.value, ast.Subscript) and isinstance(s.value.value, ast.Name)
                    and env.ty.get(s.value.value.id) == "matrix"):
                created[s.targets[0].id] = s.value.value.id
            if (isinstance(s, ast.For) and isinstance(s.target, ast.Name) and isinstance(s.iter, ast.Call)
                    and isinstance(s.iter.func, ast.Attribute) and s.iter.func.attr == "values"
                    and isinstance(s.iter.func.value, ast.Name) and env.ty.get(s.iter.func.value.id) == "matrix"):
                created[s.target.id] = s.iter.func.value.id
        for n in list(out):
            if n in created and n not in env.ty:
                add(created[n])
        return out

    def mutates_dict_of(self, stmts, mvar):
        """does the body add/delete keys of <mvar>._taxon_sequence_map ?"""
        for s in ast.walk(ast.Module(body=list(stmts), type_ignores=[])):
            tg = []
            if isinstance(s, ast.Delete):
                tg = s.targets
            elif isinstance(s, ast.Assign):
                tg = s.targets
            for t in tg:
                if (isinstance(t, ast.Subscript) and isinstance(t.value, ast.Attribute)
                        and t.value.attr == "_taxon_sequence_map" and isinstance(t.value.value, ast.Name)
                        and t.value.value.id == mvar):
                    return True
        return False

    # ------------------------------------------------------------------ statements
    def block(self, stmts, env, ctx):
        if not stmts:
            return ctx.fall(env)
        s, rest = stmts[0], list(stmts[1:])
        nxt = lambda env2: self.block(rest, env2, ctx)
        if isinstance(s, ast.Expr) and isinstance(s.value, ast.Constant) and isinstance(s.value.value, str):
            return nxt(env)
        if self.only_unmodelled(s):
            self.notes.append("%s line %d: skipped (touches only %s): %s"
                              % (self.name, s.lineno, ", ".join(sorted(UNMODELLED_FIELDS)), ast.unparse(s).split("\n")[0][:90]))
            return nxt(env)
        if isinstance(s, ast.Pass):
            return nxt(env)
        if isinstance(s, ast.Continue):
            if ctx.cont is None:
                bad(s, "continue")
            return ctx.cont(env)
        if isinstance(s, ast.Raise):
            exc = s.exc
            name = None
            if isinstance(exc, ast.Call):
                f = exc.func
                name = f.id if isinstance(f, ast.Name) else f.attr if isinstance(f, ast.Attribute) else None
            if name not in EXC or s.cause is not None:
                bad(s, "raise")
            return ctx.abort(env, "(Err %s)" % EXC[name])
        if isinstance(s, ast.Return):
            if ctx.ret is None:
                bad(s, "return")
            return self.do_return(s, env, ctx)
        if isinstance(s, ast.Assign):
            return self.assign(s, env, ctx, nxt)
        if isinstance(s, ast.AugAssign):
            if not (isinstance(s.target, ast.Name) and isinstance(s.op, ast.Add) and env.ty.get(s.target.id) == "int"):
                bad(s, "augmented assignment")
            binds = []
            t, ty = self.expr(s.value, env, binds)
            if ty != "int":
                bad(s, "augmented assignment of %s" % ty)
            inner = "let %s := (Z.add %s %s) in\n%s" % (s.target.id, s.target.id, t, nxt(env))
            return self.with_binds(binds, inner, ctx, env)
        if isinstance(s, ast.Delete):
            return self.delete(s, env, ctx, nxt)
        if isinstance(s, ast.Expr) and isinstance(s.value, ast.Call):
            return self.call_stmt(s.value, env, ctx, nxt)
        if isinstance(s, ast.If):
            return self.if_(s, rest, env, ctx)
        if isinstance(s, ast.For):
            return self.for_(s, env, ctx, nxt)
        if isinstance(s, ast.While):
            return self.while_(s, env, ctx, nxt)
        if isinstance(s, ast.Try):
            return self.try_(s, env, ctx, nxt)
        bad(s, "statement")

    def only_unmodelled(self, s):
        """statement whose every field access is to an unmodelled field of self and which otherwise only
        reads unmodelled parameters, None, len(<parameter>) - i.e. cannot influence the modelled state"""
        if self.recv_ty != "seq":
            return False
        touched = [n.attr for n in ast.walk(s) if isinstance(n, ast.Attribute) and isinstance(n.value, ast.Name)
                   and n.value.id == "self"]
        if not touched or any(a not in UNMODELLED_FIELDS for a in touched):
            return False
        for n in ast.walk(s):
            if isinstance(n, (ast.Assign, ast.AugAssign, ast.Delete, ast.Return, ast.Raise, ast.For, ast.While,
                              ast.Continue, ast.Break, ast.Try, ast.With)):
                return False
            if isinstance(n, ast.Call):
                f = n.func
                ok = (isinstance(f, ast.Name) and f.id == "len") or \
                     (isinstance(f, ast.Attribute) and f.attr == "extend" and isinstance(f.value, ast.Attribute)
                      and f.value.attr in UNMODELLED_FIELDS)
                if not ok:
                    return False
        return True

    def do_return(self, s, env, ctx):
        v = s.value
        # return self.<translated method>(args)
        if isinstance(v, ast.Call) and isinstance(v.func, ast.Attribute) and self.is_name(v.func.value, env, "matrix") \
                and v.func.attr in self.gens:
            g = self.gens[v.func.attr]
            binds = []
            ex, argt = self.call_args(g, v, env, binds)
            m = v.func.value.id
            r = self.fresh("r")
            inner = ("match gen_%s %s with\n| (%s, Ok %s) => %s\n| (%s, Err e_) => %s\n| (%s, OutOfFuel) => %s\nend"
                     % (g.name, " ".join(ex + [m] + argt), m, r, ctx.ret(env, r), m, ctx.abort(env, "(Err e_)"), m, ctx.abort(env, "OutOfFuel")))
            return self.with_binds(binds, inner, ctx, env)
        binds = []
        t, ty = self.expr(v, env, binds) if v is not None else ("tt", "unit")
        want = self.ret_ty
        if ty.split("!")[0] != want:
            bad(s, "return of %s where %s is expected" % (ty, want))
        return self.with_binds(binds, ctx.ret(env, t), ctx, env)

    def call_args(self, g, call, env, binds):
        """terms of the arguments of a call of translated method g, in g's parameter order"""
        names = [p for p, _t in g.params]
        given = {}
        for i, a in enumerate(call.args):
            given[names[i]] = a
        for k in call.keywords:
            if k.arg not in names or k.arg in given:
                bad(call, "keyword argument")
            given[k.arg] = k.value
        defaults = dict(zip(reversed([a.arg for a in g.fn.args.args]), reversed(g.fn.args.defaults)))
        out = []
        for p, pty in g.params:
            a = given.get(p, defaults.get(p))
            if a is None:
                bad(call, "missing argument %s" % p)
            t, ty = self.expr(a, env, binds)
            t = self.coerce(t, ty, pty, call)
            out.append(t)
        extra = []
        for x, _ in g.extra:
            if x == "same":
                other = given.get("other_matrix")
                recv = call.func.value
                if isinstance(other, ast.Name) and isinstance(recv, ast.Name):
                    if other.id == recv.id:
                        extra.append("true")
                    elif recv.id in env.fresh or other.id in env.fresh:
                        extra.append("false")       # an object created in this method is not one of its arguments
                    else:
                        bad(call, "cannot tell whether the two matrices are one object")
                else:
                    bad(call, "alias analysis")
            else:
                bad(call, "extra parameter")
        return extra, out

    def coerce(self, t, ty, want, node):
        ty = ty.split("!")[0]
        if ty == want:
            return t
        if want == "optint" and ty == "int":
            return "(Some %s)" % t
        if want == "optint" and ty == "none":
            return "None"
        if want == "idxlist" and ty in ("idxset", "subset"):
            return t
        if want == "iterseq" and ty == "seq":
            return t
        bad(node, "argument of type %s where %s is expected" % (ty, want))

    def assign(self, s, env, ctx, nxt):
        if len(s.targets) != 1:
            bad(s, "multiple assignment")
        tg = s.targets[0]
        binds = []
        # v = m[k]  : a reference to a sequence of a mutable matrix
        if (isinstance(tg, ast.Name) and isinstance(s.value, ast.Subscript) and self.is_name(s.value.value, env, "matrix")):
            kt, kty = self.expr(s.value.slice, env, binds)
            t, ty = self.expr(s.value, env, binds)
            env2 = env.copy()
            env2.ty[tg.id] = ty
            if kty == "taxon":
                env2.alias[tg.id] = (s.value.value.id, kt)
            inner = "let %s := %s in\n%s" % (tg.id, t, nxt(env2))
            return self.with_binds(binds, inner, ctx, env)
        if isinstance(tg, ast.Name):
            t, ty = self.expr(s.value, env, binds)
            env2 = env.copy()
            env2.ty[tg.id] = ty.split("!")[0]
            env2.alias.pop(tg.id, None)
            if ty.endswith("!fresh"):
                env2.fresh.add(tg.id)
            inner = "let %s := %s in\n%s" % (tg.id, t, nxt(env2))
            return self.with_binds(binds, inner, ctx, env)
        # m._taxon_sequence_map[k] = v
        if (isinstance(tg, ast.Subscript) and isinstance(tg.value, ast.Attribute) and tg.value.attr == "_taxon_sequence_map"
                and self.is_name(tg.value.value, env, "matrix")):
            m = tg.value.value.id
            k, kty = self.expr(tg.slice, env, binds)
            v, vty = self.expr(s.value, env, binds)
            if kty != "taxon" or vty != "seq":
                bad(s, "dict assignment %s -> %s" % (kty, vty))
            inner = "let %s := set_rows %s (py_dict_set %s %s (m_rows %s)) in\n%s" % (m, m, k, v, m, nxt(env))
            return self.with_binds(binds, inner, ctx, env)
        # m[taxon] = v      (CharacterMatrix.__setitem__)
        if isinstance(tg, ast.Subscript) and self.is_name(tg.value, env, "matrix"):
            m = tg.value.id
            k, kty = self.expr(tg.slice, env, binds)
            v, vty = self.expr(s.value, env, binds)
            if kty != "taxon" or vty != "seq":
                bad(s, "matrix item assignment %s -> %s" % (kty, vty))
            inner = self.guard("setitem %s %s (KTax %s) %s" % (self.T(m), m, k, v), m, nxt(env), ctx, env)
            return self.with_binds(binds, inner, ctx, env)
        # m.character_subsets = container.OrderedCaselessDict()
        if isinstance(tg, ast.Attribute) and tg.attr == "character_subsets" and self.is_name(tg.value, env, "matrix"):
            m = tg.value.id
            v, vty = self.expr(s.value, env, binds)
            if vty != "subsets":
                bad(s, "character_subsets assignment")
            inner = "let %s := set_subs %s %s in\n%s" % (m, m, v, nxt(env))
            return self.with_binds(binds, inner, ctx, env)
        bad(s, "assignment target")

    def delete(self, s, env, ctx, nxt):
        if len(s.targets) != 1 or not isinstance(s.targets[0], ast.Subscript):
            bad(s, "del")
        tg = s.targets[0]
        binds = []
        if (isinstance(tg.value, ast.Attribute) and tg.value.attr == "_taxon_sequence_map"
                and self.is_name(tg.value.value, env, "matrix")):
            m = tg.value.value.id
            k, kty = self.expr(tg.slice, env, binds)
            if kty != "taxon":
                bad(s, "del with key %s" % kty)
            d = self.fresh("d")
            inner = self.guard("py_dict_del %s (m_rows %s)" % (k, m), d,
                               "let %s := set_rows %s %s in\n%s" % (m, m, d, nxt(env)), ctx, env)
            return self.with_binds(binds, inner, ctx, env)
        if self.is_name(tg.value, env, "seq"):
            v = tg.value.id
            i, ity = self.expr(tg.slice, env, binds)
            if ity != "int":
                bad(s, "del with index %s" % ity)
            env2 = env.copy()
            if v in env2.alias:
                env2.dirty.add(v)
            inner = self.guard("py_seq_del %s %s" % (v, i), v, nxt(env2), ctx, env)
            return self.with_binds(binds, inner, ctx, env)
        bad(s, "del target")

    def call_stmt(self, c, env, ctx, nxt):
        f = c.func
        if not isinstance(f, ast.Attribute):
            bad(c, "call statement")
        binds = []
        # seq.append(x) / seq.insert(0, x)
        if self.is_name(f.value, env, "seq") and f.attr in ("append", "insert") and not c.keywords:
            v = f.value.id
            if f.attr == "append" and len(c.args) == 1:
                x, xty = self.expr(c.args[0], env, binds)
                t = "py_seq_append %s %s" % (v, x)
            elif f.attr == "insert" and len(c.args) == 2 and isinstance(c.args[0], ast.Constant) and c.args[0].value == 0 \
                    and not isinstance(c.args[0].value, bool):
                x, xty = self.expr(c.args[1], env, binds)
                t = "py_seq_insert0 %s %s" % (v, x)
            else:
                bad(c, "sequence method")
            if xty != "cell":
                bad(c, "element of type %s" % xty)
            env2 = env.copy()
            if v in env2.alias:
                env2.dirty.add(v)
            return self.with_binds(binds, "let %s := %s in\n%s" % (v, t, nxt(env2)), ctx, env)
        # self._character_values.extend(x)      (inside CharacterDataSequence.extend)
        if (self.recv_ty == "seq" and f.attr == "extend" and isinstance(f.value, ast.Attribute)
                and f.value.attr == "_character_values" and isinstance(f.value.value, ast.Name)
                and f.value.value.id == "self" and len(c.args) == 1 and not c.keywords):
            x, xty = self.expr(c.args[0], env, binds)
            if xty == "seq":
                inner = "let self := py_list_extend self %s in\n%s" % (x, nxt(env))
            elif xty == "iterseq":
                # the iterable is consumed while the list grows
                inner = self.guard("py_list_extend_iter alias (S (length self)) self %s" % x, "self", nxt(env), ctx, env)
            else:
                bad(c, "extend by %s" % xty)
            return self.with_binds(binds, inner, ctx, env)
        # m._taxon_sequence_map[k].extend(seq)   : CharacterDataSequence.extend on a sequence held by the matrix
        if (f.attr == "extend" and isinstance(f.value, ast.Subscript) and isinstance(f.value.value, ast.Attribute)
                and f.value.value.attr == "_taxon_sequence_map" and self.is_name(f.value.value.value, env, "matrix")
                and len(c.args) == 1 and not c.keywords and "extend" in self.gens):
            m = f.value.value.value.id
            a = c.args[0]
            recv, rty = self.expr(f.value, env, binds)
            k, _ = self.expr(f.value.slice, env, [])
            arg, aty = self.expr(a, env, binds)
            if aty != "seq":
                bad(c, "extend by %s" % aty)
            # is the argument the receiver sequence itself?  (distinct matrices never share sequence objects;
            # the same matrix holds one sequence per key)
            other = a.value.value.id if (isinstance(a, ast.Subscript) and isinstance(a.value, ast.Attribute)
                                              and isinstance(a.value.value, ast.Name)) else None
            same_key = isinstance(a, ast.Subscript) and ast.dump(a.slice) == ast.dump(f.value.slice)
            if other is None or not same_key:
                bad(c, "alias analysis of extend")
            if other == m:
                al = "true"
            elif {other, m} == {"self", "other_matrix"} and any(x == "same" for x, _ in self.extra):
                al = "same"
            else:
                bad(c, "alias analysis of extend")
            r = self.fresh("s")
            inner = ("match gen_extend %s %s %s with\n| (%s, Ok _) => let %s := set_rows %s (py_dict_set %s %s (m_rows %s)) in\n%s\n"
                     "| (%s, Err e_) => let %s := set_rows %s (py_dict_set %s %s (m_rows %s)) in\n%s\n"
                     "| (%s, OutOfFuel) => let %s := set_rows %s (py_dict_set %s %s (m_rows %s)) in\n%s\nend"
                     % (al, recv, arg,
                        r, m, m, k, r, m, nxt(env),
                        r, m, m, k, r, m, ctx.abort(env, "(Err e_)"),
                        r, m, m, k, r, m, ctx.abort(env, "OutOfFuel")))
            return self.with_binds(binds, inner, ctx, env)
        # m.<translated method>(...)  /  m.<helper>(...)
        if self.is_name(f.value, env, "matrix"):
            m = f.value.id
            if f.attr in self.gens:
                g = self.gens[f.attr]
                ex, argt = self.call_args(g, c, env, binds)
                inner = ("match gen_%s %s with\n| (%s, Ok _) => %s\n| (%s, Err e_) => %s\n| (%s, OutOfFuel) => %s\nend"
                         % (g.name, " ".join(ex + [m] + argt), m, nxt(env), m, ctx.abort(env, "(Err e_)"), m, ctx.abort(env, "OutOfFuel")))
                return self.with_binds(binds, inner, ctx, env)
            if f.attr in HELPER_METHODS:
                fn, order = HELPER_METHODS[f.attr]
                given = {k.arg: k.value for k in c.keywords}
                for i, a in enumerate(c.args):
                    given[order[i]] = a
                if sorted(given) != sorted(order):
                    bad(c, "arguments of %s" % f.attr)
                ts = [self.expr(given[p], env, binds)[0] for p in order]
                inner = self.guard("%s %s %s" % (fn, m, " ".join(ts)), m, nxt(env), ctx, env)
                return self.with_binds(binds, inner, ctx, env)
        bad(c, "call statement")

    def assign_only(self, stmts):
        return all(isinstance(x, ast.Assign) and len(x.targets) == 1 and isinstance(x.targets[0], ast.Name) for x in stmts)

    def if_(self, s, rest, env, ctx):
        test = s.test
        # refinement tests -----------------------------------------------------------------
        neg = False
        if isinstance(test, ast.Compare) and len(test.ops) == 1 and isinstance(test.ops[0], (ast.Is, ast.IsNot)) \
                and isinstance(test.comparators[0], ast.Constant) and test.comparators[0].value is None:
            neg = isinstance(test.ops[0], ast.IsNot)
            subj = test.left
            t, ty = self.expr(subj, env, [])
            base = {"optint": "int", "optlabel": "label"}.get(ty)
            if base is None:
                bad(s, "`is None` on %s" % ty)
            none_b, some_b = (s.orelse, s.body) if neg else (s.body, s.orelse)
            pv = subj.id if isinstance(subj, ast.Name) else self.fresh("v")
            env_n, env_s = env.copy(), env.copy()
            if isinstance(subj, ast.Name):
                env_n.ty[subj.id] = "none"
                env_s.ty[subj.id] = base
            else:
                env_s.refined[ast.dump(subj)] = (pv, base)
            if self.assign_only(none_b) and self.assign_only(some_b):
                return self.join(s, "match %s with\n| None => %%s\n| Some %s => %%s\nend" % (t, pv),
                                 none_b, env_n, some_b, env_s, rest, env, ctx)
            return ("match %s with\n| None => %s\n| Some %s => %s\nend"
                    % (t, self.block(list(none_b) + rest, env_n, ctx), pv, self.block(list(some_b) + rest, env_s, ctx)))
        if (isinstance(test, ast.Call) and isinstance(test.func, ast.Attribute) and test.func.attr == "is_str_type"
                and isinstance(test.func.value, ast.Name) and test.func.value.id == "textprocessing"
                and len(test.args) == 1 and self.is_name(test.args[0], env, "strsub")):
            x = test.args[0].id
            env_l, env_r = env.copy(), env.copy()
            env_l.ty[x] = "label"
            env_r.ty[x] = "subset"
            return ("match %s with\n| inl %s => %s\n| inr %s => %s\nend"
                    % (x, x, self.block(list(s.body) + rest, env_l, ctx), x, self.block(list(s.orelse) + rest, env_r, ctx)))
        # ordinary test -------------------------------------------------------------------
        binds = []
        t, ty = self.expr(test, env, binds)
        if ty != "bool":
            bad(s, "if on %s" % ty)
        if self.assign_only(s.body) and self.assign_only(s.orelse) and (s.body or s.orelse):
            inner = self.join(s, "if %s then %%s else %%s" % t, s.body, env.copy(), s.orelse, env.copy(), rest, env, ctx)
        else:
            inner = ("if %s\nthen %s\nelse %s" % (t, self.block(list(s.body) + rest, env.copy(), ctx),
                                                  self.block(list(s.orelse) + rest, env.copy(), ctx)))
        return self.with_binds(binds, inner, ctx, env)

    def join(self, s, shape, b1, env1, b2, env2, rest, env, ctx):
        """both branches only assign names: let (names) := shape(branch1, branch2) in rest"""
        names = []
        for x in list(b1) + list(b2):
            if x.targets[0].id not in names:
                names.append(x.targets[0].id)

        def branch(stmts, e):
            binds = []
            out = ""
            for x in stmts:
                t, ty = self.expr(x.value, e, binds)
                e.ty[x.targets[0].id] = ty.split("!")[0]
                out += "let %s := %s in " % (x.targets[0].id, t)
            if binds:
                bad(s, "raising expression in a joined branch")
            for n in names:
                if n not in e.ty or e.ty[n] in ("none",):
                    bad(s, "variable %s not defined on every path" % n)
            return "(" + out + tup(names) + ")"
        t1 = branch(b1, env1)
        t2 = branch(b2, env2)
        envj = env.copy()
        for n in names:
            if env1.ty[n] != env2.ty[n]:
                bad(s, "variable %s has types %s / %s after the if" % (n, env1.ty[n], env2.ty[n]))
            envj.ty[n] = env1.ty[n]
        return "let %s := (%s) in\n%s" % (pat(names), shape % (t1, t2), self.block(rest, envj, ctx))

    def carried(self, body, env, extra_defined=()):
        w = self.written(body, env)
        return [n for n in env.ty if n in w and env.ty[n] not in ("skip",)]

    def loop_ctx(self, car, ctx):
        st = lambda env: tup(car)
        fall = lambda env: "(%s, Ok tt)" % self.flush_tuple(env, car)
        abort = lambda env, status: "(%s, %s)" % (self.flush_tuple(env, car), status)
        return Ctx(fall, abort, cont=fall, ret=None)

    def flush_tuple(self, env, car):
        """the carried tuple, with mutated sequence references written back to their matrices first"""
        pre = ""
        for v in sorted(env.dirty):
            m, k = env.alias[v]
            if m in car and v not in car:
                pre += "let %s := mat_store %s %s %s in " % (m, m, k, v)
        return "(" + pre + tup(car) + ")" if pre else tup(car)

    def after_loop(self, loop_term, car, env, ctx, nxt):
        p = tup(car)
        return ("match %s with\n| (%s, Ok _) => %s\n| (%s, Err e_) => %s\n| (%s, OutOfFuel) => %s\nend"
                % (loop_term, p, nxt(env), p, ctx.abort(env, "(Err e_)"), p, ctx.abort(env, "OutOfFuel")))

    def for_(self, s, env, ctx, nxt):
        if s.orelse:
            bad(s, "for-else")
        binds = []
        it = s.iter
        envb = env.copy()
        pre = ""            # statements prepended to the body (as text producing bindings)
        live = None
        # what is iterated -----------------------------------------------------------------
        if isinstance(it, ast.Call) and isinstance(it.func, ast.Name) and it.func.id in ("tuple", "list") and len(it.args) == 1 \
                and isinstance(it.args[0], ast.Call) and isinstance(it.args[0].func, ast.Attribute) and it.args[0].func.attr == "keys" \
                and not it.args[0].args:
            d, dty = self.expr(it.args[0].func.value, env, binds)
            if dty != "rows":
                bad(s, "keys of %s" % dty)
            xs, elem = "(py_dict_keys %s)" % d, ["taxon"]          # snapshot of the keys
        elif isinstance(it, ast.Call) and isinstance(it.func, ast.Name) and it.func.id == "enumerate" and len(it.args) == 1:
            l, lty = self.expr(it.args[0], env, binds)
            if lty != "matrices":
                bad(s, "enumerate of %s" % lty)
            xs, elem = "(py_enumerate %s)" % l, ["int", "matrix"]
        elif isinstance(it, ast.Call) and isinstance(it.func, ast.Attribute) and it.func.attr in ("items", "values") \
                and self.is_name(it.func.value, env, "matrix") and not it.args:
            m = it.func.value.id
            if it.func.attr == "items":
                xs, elem = "(mat_items %s %s)" % (self.T(m), m), ["taxon", "seq"]
            else:
                # values(): for t in self: yield self[t]   -> the loop variable is a reference into m
                xs, elem = "(mat_iter %s %s)" % (self.T(m), m), ["valueref:" + m]
        else:
            t, ty = self.expr(it, env, binds)
            if ty == "rows":
                xs, elem = "(py_dict_keys %s)" % t, ["taxon"]
                if isinstance(it, ast.Attribute) and isinstance(it.value, ast.Name) and self.mutates_dict_of(s.body, it.value.id):
                    live = it.value.id
            elif ty == "taxa":
                xs, elem = t, ["taxon"]
            elif ty == "matrix":
                xs, elem = "(mat_iter %s %s)" % (self.T(t), t), ["taxon"]
            elif ty == "ns":
                xs, elem = "(taxa_of %s)" % t, ["taxon"]
            elif ty == "idxlist":
                xs, elem = t, ["int"]
            else:
                bad(s, "iteration over %s" % ty)
        # loop variables -------------------------------------------------------------------
        tg = [s.target] if not isinstance(s.target, ast.Tuple) else list(s.target.elts)
        if len(tg) != len(elem) or not all(isinstance(n, ast.Name) for n in tg):
            bad(s, "loop target")
        car = self.carried(s.body, env)
        if elem[0].startswith("valueref:"):
            m = elem[0].split(":")[1]
            kv = self.fresh("k")
            lv = kv
            v = tg[0].id
            envb.ty[v] = "seq"
            envb.alias[v] = (m, kv)
            if m not in car:
                car = [n for n in env.ty if n in car or n == m]
            car = [n for n in car if n != v]
            fetch = "mat_getitem_ro %s %s (KTax %s)" % (self.T(m), m, kv)
            body_inner = lambda: self.guard(fetch, v, self.block(s.body, envb, self.loop_ctx(car, ctx)), self.loop_ctx(car, ctx), envb)
        else:
            for n, ty in zip(tg, elem):
                envb.ty[n.id] = ty
                envb.alias.pop(n.id, None)
            lv = tg[0].id if len(tg) == 1 else "'(" + ", ".join(n.id for n in tg) + ")"
            body_inner = lambda: self.block(s.body, envb, self.loop_ctx(car, ctx))
        if not car:
            # a loop that changes nothing it carries: it can still raise
            car = ["tt_"]
            envb.ty["tt_"] = "unit"
            env = env.copy()
            env.ty["tt_"] = "unit"
            body = body_inner()
            loop = "for_each %s (fun %s (tt_ : unit) => %s) tt" % (xs, lv, body)
        else:
            body = body_inner()
            if live is not None:
                if live not in car:
                    bad(s, "live dict iteration")
                size = "(fun %s => py_dict_len (m_rows %s))" % (pat(car), live)
                loop = "for_each_live %s (py_dict_len (m_rows %s)) %s (fun %s %s => %s) %s" % (size, live, xs, lv, pat(car), body, tup(car))
            else:
                loop = "for_each %s (fun %s %s => %s) %s" % (xs, lv, pat(car), body, tup(car))
        env2 = env.copy()
        for v in car:
            if v in env2.alias:
                env2.dirty.add(v)
        inner = self.after_loop(loop, car, env2, ctx, nxt)
        return self.with_binds(binds, inner, ctx, env)

    def while_(self, s, env, ctx, nxt):
        if s.orelse:
            bad(s, "while-else")
        fuel = FUEL.get((self.name, self.nwhile))
        self.nwhile += 1
        if fuel is None:
            bad(s, "while loop without a fuel term")
        car = self.carried(s.body, env)
        binds = []
        t, ty = self.expr(s.test, env, binds)
        if binds or ty != "bool":
            bad(s, "while test")
        body = self.block(s.body, env.copy(), self.loop_ctx_plain(car))
        loop = "while_loop %s (fun %s => %s) (fun %s => %s) %s" % (fuel, pat(car), t, pat(car), body, tup(car))
        env2 = env.copy()
        for v in car:
            if v in env2.alias:
                env2.dirty.add(v)
        return self.after_loop(loop, car, env2, ctx, nxt)

    def loop_ctx_plain(self, car):
        fall = lambda env: "(%s, Ok tt)" % tup(car)
        abort = lambda env, status: "(%s, %s)" % (tup(car), status)
        return Ctx(fall, abort, cont=fall, ret=None)

    def try_(self, s, env, ctx, nxt):
        # try: <one statement> except KeyError: pass
        if (len(s.body) != 1 or len(s.handlers) != 1 or s.orelse or s.finalbody
                or not isinstance(s.handlers[0].type, ast.Name) or s.handlers[0].type.id not in EXC
                or s.handlers[0].name is not None
                or not (len(s.handlers[0].body) == 1 and isinstance(s.handlers[0].body[0], ast.Pass))):
            bad(s, "try form")
        caught = EXC[s.handlers[0].type.id]
        w = self.written(s.body, env)
        car = [n for n in env.ty if n in w]
        if not car:
            bad(s, "try around a statement without effect")
        inner_ctx = Ctx(lambda e: "(%s, Ok tt)" % tup(car), lambda e, st: "(%s, %s)" % (tup(car), st))
        body = self.block(s.body, env.copy(), inner_ctx)
        p = tup(car)
        return ("match %s with\n| (%s, Ok _) => %s\n| (%s, Err e_) => if err_eqb e_ %s then %s else %s\n| (%s, OutOfFuel) => %s\nend"
                % (body, p, nxt(env), p, caught, nxt(env), ctx.abort(env, "(Err e_)"), p, ctx.abort(env, "OutOfFuel")))

    # ------------------------------------------------------------------ the method
    def translate(self):
        a = self.fn.args
        if a.vararg or a.kwarg or a.kwonlyargs or a.posonlyargs:
            bad(self.fn, "argument form")
        names = [x.arg for x in a.args]
        first = "cls" if self.recv_ty == "cls" else "self"
        if names[:1] != [first] or names[1:] != [p for p, _ in self.params]:
            bad(self.fn, "parameters %s differ from SPECS %s" % (names, [p for p, _ in self.params]))
        env = Env()
        if self.recv_ty != "cls":
            env.ty["self"] = self.recv_ty
        for p, ty in self.params:
            env.ty[p] = ty
        for x, ty in self.extra:
            env.ty[x] = ty
        st = self.state
        ctx = Ctx(fall=lambda e: "(%s, Ok tt)" % st(e) if self.ret_ty == "unit" else bad(self.fn, "falls off the end"),
                  abort=lambda e, status: "(%s, %s)" % (st(e), status),
                  cont=None,
                  ret=lambda e, t: "(%s, Ok %s)" % (st(e), t))
        body = self.block(self.fn.body, env, ctx)
        ps = []
        for x, ty in self.extra:
            ps.append("(%s : %s)" % (x, COQ_TY[ty]))
        if self.recv_ty != "cls":
            ps.append("(self : %s)" % COQ_TY[self.recv_ty])
        for p, ty in self.params:
            if ty != "skip":
                ps.append("(%s : %s)" % (p, COQ_TY[ty]))
        rty = "(%s * res %s)%%type" % ("unit" if self.recv_ty == "cls" else COQ_TY[self.recv_ty],
                                       {"unit": "unit", "int": "Z", "matrix": "matrix"}[self.ret_ty])
        return "Definition gen_%s %s : %s :=\n%s.\n" % (self.name, " ".join(ps), rty, indent(body))


def indent(txt):
    """indentation by nesting of match ... end (cosmetic)"""
    out = []
    depth = 1
    for line in txt.split("\n"):
        l = line.strip()
        if l.startswith("end") or l.startswith("| "):
            d = depth - 1 if l.startswith("end") else depth - 1
        else:
            d = depth
        if l.startswith("end"):
            depth -= 1
            d = depth
        out.append("  " * max(d, 0) + l)
        if l.startswith("match ") and l.endswith(" with"):
            depth += 1
    return "\n".join(out)


def find_method(tree, cls, name):
    for n in tree.body:
        if isinstance(n, ast.ClassDef) and n.name == cls:
            found = [m for m in n.body if isinstance(m, ast.FunctionDef) and m.name == name]
            if len(found) != 1:
                raise Unsupported("%s.%s defined %d times" % (cls, name, len(found)))
            return found[0]
    raise Unsupported("class %s not found" % cls)


HEADER = """(* GENERATED by py/dv/gen_charmatrix.py from datamodel/charmatrixmodel.py -- do not edit.
   Meaning of the primitives: coq/Model/C19Prims.v.  Equalities with the hand-written model
   coq/Model/C19Model.v: coq/Proofs/C19Gen*.v, coq/Props/C19Gen.v. *)
From Coq Require Import ZArith List Bool.
From DV Require Import Model.PyPrims Model.C19Model Model.C19Prims.
Import ListNotations.
Open Scope Z_scope.

Section CharMatrix.
Variable lower : lbl -> lbl.          (* str.lower on label ids *)
Variable suffix : lbl -> Z -> lbl.    (* "%s_%03d" % (l, i) *)
Variable locus : Z -> lbl.            (* "locus%03d" % i *)
Variable taxa_of : nsid -> list tid.  (* members of a taxon namespace, in order *)
"""


def generate(repo):
    path = os.path.join(repo, "src", "dendropy", "datamodel", "charmatrixmodel.py")
    with open(path) as f:
        tree = ast.parse(f.read())
    out = [HEADER]
    gens = {}
    notes = []
    for name in PLAN:
        cls = SPECS[name][0]
        fn = find_method(tree, cls, name)
        m = Method(fn, name, gens, notes)
        deco = [d.id for d in fn.decorator_list if isinstance(d, ast.Name)]
        if (m.recv_ty == "cls") != ("classmethod" in deco) or len(deco) != len(fn.decorator_list) or \
                any(d not in ("classmethod",) for d in deco):
            raise Unsupported("decorators of %s" % name)
        txt = m.translate()
        gens[name] = m
        out.append("(* %s.%s, line %d *)" % (cls, name, fn.lineno))
        out.append(txt)
    out.append("End CharMatrix.")
    if notes:
        out.append("(* statements outside the modelled state:\n   " + "\n   ".join(n.replace("*)", "* )") for n in notes) + " *)")
    return "\n".join(out) + "\n"


if __name__ == "__main__":
    import sys
    print(generate(sys.argv[1] if len(sys.argv) > 1 else "/repo"))
