"""C06 - tree-sample summaries are independent of partitioning, order and scheduling.

(i) direct: operation histories over several TreeArray objects (add_tree / append / insert /
    add_trees, update, extend, +=, +) on random tree multisets; the real library against the
    Coq model (coq/Model/C06Model.v) after every step and on the full final state; the
    oracle recomputes every array from the pooled per-tree records it should contain.
(ii) the real SumTrees collation path: TreeProcessor.analyze_trees in serial mode and with
    worker processes (multiprocessing), the schedule that really happened is observed and the
    model's collation under that schedule must reproduce the master array exactly.
"""
import copy
import json
import math
import os
import random
import shutil
import time

from dv import core, trees
from dv.core import cz, cbool, clist, copt, cnat

HEADER = ("From DV Require Import Model.PyPrims Model.C06Model.\n"
          "From Coq Require Import ZArith. Open Scope Z_scope.")
UNIT = trees.UNIT
SCRATCH = "/var/tmp/dv-C06"

# known-finding keys (narrow: op family x what was refused)
K_EXT_EMPTY = "extend-empty-side-asserts"
K_UNDEF = "undefined-rooting-%s"          # add / update / extend


# ----------------------------------------------------------------------------
# generation
# ----------------------------------------------------------------------------

def make_ultrametric(spec, rng):
    """set lengths so that every root-to-tip path has the same length (dyadic units)"""
    def height(n):
        if not n["kids"]:
            n["_h"] = 0
            return 0
        h = max(height(k) for k in n["kids"]) + rng.choice([256, 512, 1024, 1536])
        n["_h"] = h
        return h
    height(spec)

    def setlen(n, parent_h):
        n["len"] = (parent_h - n["_h"]) if parent_h is not None else rng.choice([0, 512, None])
        for k in n["kids"]:
            setlen(k, n["_h"])
        del n["_h"]
    setlen(spec, None)


def gen_tree_pool(rng, ntax, ages_on, n_distinct):
    pool = []
    for _ in range(n_distinct):
        shape = rng.choice(["binary", "binary", "mixed", "poly", "caterpillar", "star", "binary"])
        lengths = rng.choice(["dyadic", "dyadic", "positive", "mixed", "none"])
        t = trees.gen_tree(rng, ntax, shape=shape, lengths=lengths,
                           unifurcations=rng.choice([0.0, 0.0, 0.0, 0.15]))
        if ages_on:
            if rng.random() < 0.85:
                make_ultrametric(t, rng)
            elif lengths in ("none", "mixed"):
                for nd in trees.preorder(t):
                    nd["len"] = rng.choice([256, 512, 1024])
        pool.append(t)
    return pool


def gen_direct(rng, big=False):
    ntax = rng.randint(4, 10 if big else 8)
    scenario = "partition" if rng.random() < 0.6 else "history"
    ages_on = rng.random() < 0.25
    rooting = rng.choice([True, False, None])
    # trees previously used (encode_bipartitions already run on them): only matters for
    # undefined rooting (F20); kept to a minority of the cases
    reuse = rooting is None and rng.random() < 0.35
    flags = {"iel": rng.random() < 0.25, "iag": not ages_on, "uw": rng.random() < 0.8}
    n_distinct = rng.randint(1, 4)
    pool = gen_tree_pool(rng, ntax, ages_on, n_distinct)
    occ = []       # tree occurrences: pool index, rooting, weight
    ntrees = rng.randint(0, 9 if big else 7)
    for _ in range(ntrees):
        occ.append({"tree": rng.randrange(n_distinct), "rooting": rooting,
                    "weight": rng.choice([None, None, 1024, 512, 2048, 3072, 1024, 0] if rng.random() < 0.5 else [None]),
                    "pre": reuse and rng.random() < 0.5,
                    "upd": False})
    for o in occ:
        if o["pre"] and rng.random() < 0.4:
            o["upd"] = True
    ctor_rooting = rng.choice([None, None, rooting])
    ops = []
    if scenario == "partition":
        nparts = rng.randint(1, 4)
        nslots = 2 + nparts
        slots = [dict(flags, rooting=(ctor_rooting if rng.random() < 0.8 else rooting)) for _ in range(nslots)]
        slots[0]["rooting"] = slots[1]["rooting"] = ctor_rooting
        order = list(range(ntrees))
        rng.shuffle(order)
        assign = [rng.randrange(nparts) for _ in range(ntrees)]
        adds = [["add", 0, i] for i in order] + [["add", 2 + assign[i], i] for i in range(ntrees)]
        # interleave building of the serial array and of the parts
        rng.shuffle(adds)
        for a in adds:
            ops.append(a + [rng.choice([None, None, None, rng.randint(-3, 6)]),
                            rng.choice(["add_tree", "append", "insert", "add_trees"])])
        arrival = list(range(nparts))
        rng.shuffle(arrival)
        fam = rng.choice(["update", "update", "mixed", "extend"])
        for p in arrival:
            k = fam if fam != "mixed" else rng.choice(["update", "extend", "iadd", "plus", "update"])
            if k == "plus":
                ops.append(["plus", 1, 1, 2 + p])
            else:
                ops.append([k, 1, 2 + p])
        if rng.random() < 0.3 and ntrees:
            # a late tree added to master and serial alike
            i = rng.randrange(ntrees)
            ops.append(["add", 1, i, None, "add_tree"])
            ops.append(["add", 0, i, rng.choice([None, 0]), "insert"])
    else:
        nslots = rng.randint(2, 4)
        slots = []
        for _ in range(nslots):
            f = dict(flags)
            if rng.random() < 0.15:
                f[rng.choice(["iel", "uw"])] ^= True
            if rng.random() < 0.06 and not ages_on:
                f["iag"] = False
            f["rooting"] = rng.choice([None, None, rooting, rooting, not rooting if rooting is not None else True]) \
                if rng.random() < 0.3 else rng.choice([None, rooting])
            slots.append(f)
        if rng.random() < 0.12:
            for o in occ:
                if rng.random() < 0.3:
                    o["rooting"] = rng.choice([True, False, None])
        nops = rng.randint(1, 14 if big else 10)
        for _ in range(nops):
            r = rng.random()
            if r < 0.55 and occ:
                ops.append(["add", rng.randrange(nslots), rng.randrange(len(occ)),
                            rng.choice([None, None, rng.randint(-4, 8)]),
                            rng.choice(["add_tree", "append", "insert", "add_trees"])])
            elif r < 0.75:
                ops.append(["update", rng.randrange(nslots), rng.randrange(nslots)])
            elif r < 0.83:
                ops.append(["extend", rng.randrange(nslots), rng.randrange(nslots)])
            elif r < 0.90:
                ops.append(["iadd", rng.randrange(nslots), rng.randrange(nslots)])
            else:
                ops.append(["plus", rng.randrange(nslots), rng.randrange(nslots), rng.randrange(nslots)])
    for o in ops:
        if o[0] == "add" and o[4] in ("append", "add_trees"):
            o[3] = None
        if o[0] == "add" and o[4] == "insert" and o[3] is None:
            o[3] = rng.randint(-2, 5)
    return {"kind": "direct", "scenario": scenario, "ntax": ntax, "slots": slots, "pool": pool,
            "occ": occ, "ops": ops}


def _quartet(a, b, c, d, l):
    leaf = lambda i, x: {"id": i, "taxon": x, "label": None, "len": l, "kids": []}
    return {"id": 0, "taxon": None, "label": None, "len": None, "kids": [
        {"id": 1, "taxon": None, "label": None, "len": l, "kids": [leaf(2, a), leaf(3, b)]},
        {"id": 4, "taxon": None, "label": None, "len": 2 * l, "kids": [leaf(5, c), leaf(6, d)]}]}


def exhaustive_cases():
    """a 3-tree sample (one topology twice): every assignment to 3 parts (empties included) x every
    arrival order x merge operation family x rooting (rooted / unrooted / undefined)"""
    import itertools
    pool = [_quartet(0, 1, 2, 3, 1024), _quartet(0, 2, 1, 3, 512)]
    flags = {"iel": False, "iag": True, "uw": True}
    for rooting in (True, False, None):
        occ = [{"tree": t, "rooting": rooting, "weight": None, "pre": False, "upd": False} for t in (0, 0, 1)]
        for assign in itertools.product(range(3), repeat=3):
            for arrival in itertools.permutations(range(3)):
                for fam in ("update", "extend", "plus"):
                    ops = [["add", 0, i, None, "add_tree"] for i in range(3)]
                    ops += [["add", 2 + assign[i], i, None, "append"] for i in range(3)]
                    for p in arrival:
                        ops.append(["plus", 1, 1, 2 + p] if fam == "plus" else [fam, 1, 2 + p])
                    yield {"kind": "direct", "scenario": "exhaustive", "ntax": 4,
                           "slots": [dict(flags, rooting=None) for _ in range(5)], "pool": pool,
                           "occ": [dict(o) for o in occ], "ops": ops}


# ----------------------------------------------------------------------------
# running the real library
# ----------------------------------------------------------------------------

def err_name(e):
    n = type(e).__name__
    table = {"MixedRootingError": "EMixedRooting", "UltrametricityError": "EUltrametricity",
             "IncompatibleRootingTreeArrayUpdate": "EIncRooting",
             "IncompatibleEdgeLengthsTreeArrayUpdate": "EIncEdgeLens",
             "IncompatibleNodeAgesTreeArrayUpdate": "EIncNodeAges",
             "IncompatibleTreeWeightsTreeArrayUpdate": "EIncWeights"}
    if n in table:
        return table[n]
    return "(EPy %s)" % core.exc_enum(e)


def units(x):
    return trees.len_units(x)


def dump_state(ta):
    sd = ta._split_distribution
    rt = sd.tree_rooting_types_counted

    def okey(v):
        return (v is None, v if v is not None else 0)
    return {
        "rooting": ta._is_rooted_trees,
        "flags": [bool(ta.ignore_edge_lengths), bool(ta.ignore_node_ages), bool(ta.use_tree_weights),
                  bool(sd.ignore_edge_lengths), bool(sd.ignore_node_ages), bool(sd.use_tree_weights)],
        "splits": [list(t) for t in ta._tree_split_bitmasks],
        "elens": [[units(x) for x in t] for t in ta._tree_edge_lengths],
        "leafsets": list(ta._tree_leafset_bitmasks),
        "weights": [units(w) for w in ta._tree_weights],
        "total": sd.total_trees_counted,
        "sumw": units(sd.sum_of_tree_weights),
        "rt": True in rt, "rf": False in rt, "rtypes_other": sorted(str(x) for x in rt if x is not True and x is not False),
        "counts": sorted([s, units(c)] for s, c in sd.split_counts.items()),
        "sel": sorted([s, sorted(units(x) for x in l)] for s, l in sd.split_edge_lengths.items() if l),
        "sag": sorted([s, sorted((units(x) for x in l), key=okey)] for s, l in sd.split_node_ages.items() if l),
    }


class World:
    """the taxon namespace, the tree occurrences and their per-tree records as the library derives them"""

    def __init__(self, case):
        import dendropy
        self.dp = dendropy
        self.case = case
        self.ns, self.taxa = trees.make_namespace(case["ntax"])
        self.ns.is_mutable = False
        self.records = {}

    def build(self, occ):
        t, _ = trees.build_dendropy(self.case["pool"][occ["tree"]], self.taxa, is_rooted=occ["rooting"], namespace=self.ns)
        if occ["weight"] is not None:
            t.weight = occ["weight"] * UNIT
        if occ["pre"]:
            t.encode_bipartitions()
        return t

    def record(self, i):
        """what add_tree derives from occurrence i: observed on one-tree arrays (fresh tree objects)"""
        if i in self.records:
            return self.records[i]
        occ = self.case["occ"][i]
        dp = self.dp
        t = self.build(occ)
        rooting_seen = t.is_rooted
        ta = dp.TreeArray(taxon_namespace=self.ns, ignore_edge_lengths=False, ignore_node_ages=True, use_tree_weights=True)
        ta.add_tree(t, is_bipartitions_updated=occ["upd"])
        splits = list(ta._tree_split_bitmasks[0])
        elens = [units(x) for x in ta._tree_edge_lengths[0]]
        rec = {"splits": splits, "elens": elens, "leafset": ta._tree_leafset_bitmasks[0],
               "weight": occ["weight"], "rooting": rooting_seen, "ages_ok": True, "ages": [None] * len(splits)}
        t2 = self.build(occ)
        tb = dp.TreeArray(taxon_namespace=self.ns, ignore_edge_lengths=False, ignore_node_ages=False, use_tree_weights=True)
        sd = tb._split_distribution
        got = {}
        orig = sd.count_splits_on_tree

        def wrapped(*a, **k):
            r = orig(*a, **k)
            got["r"] = r
            return r
        sd.count_splits_on_tree = wrapped
        try:
            tb.add_tree(t2, is_bipartitions_updated=occ["upd"])
            s2, e2, a2 = got["r"]
            if list(s2) == splits:
                rec["ages"] = [units(x) for x in a2]
                rec["elens_with_ages"] = [units(x) for x in e2]
            else:
                rec["ages_ok"] = "splits-differ"
        except Exception as e:
            if type(e).__name__ in ("UltrametricityError", "TypeError"):
                rec["ages_ok"] = err_name(e)
            else:
                raise
        self.records[i] = rec
        return rec


ERR_STATS = {}


def observe_direct(case):
    obs = _observe_direct(case)
    for op, st in zip(case["ops"], obs["steps"]):
        k = "outcome:%s:%s" % (op[0], st["err"] or "ok")
        ERR_STATS[k] = ERR_STATS.get(k, 0) + 1
    return obs


def _observe_direct(case):
    W = World(case)
    dp = W.dp
    arrs = [dp.TreeArray(taxon_namespace=W.ns, is_rooted_trees=s["rooting"], ignore_edge_lengths=s["iel"],
                         ignore_node_ages=s["iag"], use_tree_weights=s["uw"]) for s in case["slots"]]
    steps = []
    for op in case["ops"]:
        kind = op[0]
        err = None
        pre = None
        tgt = op[1]
        if kind == "add":
            W.record(op[2])
        try:
            if kind == "add":
                _, slot, i, index, how = op
                occ = case["occ"][i]
                t = W.build(occ)
                ta = arrs[slot]
                if how == "add_tree":
                    ta.add_tree(t, is_bipartitions_updated=occ["upd"], index=index)
                elif how == "append":
                    ta.append(t, is_bipartitions_updated=occ["upd"])
                elif how == "insert":
                    ta.insert(index, t, is_bipartitions_updated=occ["upd"])
                else:
                    ta.add_trees([t], is_bipartitions_updated=occ["upd"])
            else:
                a, b = (arrs[op[1]], arrs[op[2]]) if kind != "plus" else (arrs[op[2]], arrs[op[3]])
                pre = [[a._is_rooted_trees, len(a), [a.ignore_edge_lengths, a.ignore_node_ages, a.use_tree_weights]],
                       [b._is_rooted_trees, len(b), [b.ignore_edge_lengths, b.ignore_node_ages, b.use_tree_weights]]]
                if kind == "update":
                    a.update(b)
                elif kind == "extend":
                    r = a.extend(b)
                    assert r is a
                elif kind == "iadd":
                    a += b
                    assert a is arrs[op[1]]
                elif kind == "plus":
                    c = a + b
                    assert c is not a and c is not b
                    arrs[op[1]] = c
                else:
                    raise RuntimeError(kind)
        except Exception as e:
            if isinstance(e, RuntimeError):
                raise
            err = err_name(e)
        ta = arrs[tgt]
        steps.append({"err": err, "slot": tgt,
                      "lens": [len(ta._tree_split_bitmasks), len(ta._tree_edge_lengths),
                               len(ta._tree_leafset_bitmasks), len(ta._tree_weights)],
                      "rooting": ta._is_rooted_trees, "pre": pre})
    final = [dump_state(a) for a in arrs]
    queries = [run_queries(a) for a in arrs]
    return {"steps": steps, "final": final, "queries": queries,
            "records": {str(i): r for i, r in sorted(W.records.items())}}


def run_queries(ta):
    """the per-tree queries of the property; errors are reported, never raised"""
    out = {}
    if len(ta._tree_split_bitmasks) == 0:
        return out

    def guard(name, f):
        try:
            out[name] = f()
        except Exception as e:
            out[name] = {"error": "%s: %s" % (type(e).__name__, str(e)[:200])}

    def scores(fn):
        sc, idx = fn()
        return {"scores": [float(x) for x in sc], "argmax": idx}
    guard("log_product", lambda: scores(ta.calculate_log_product_of_split_supports))
    guard("sum", lambda: scores(ta.calculate_sum_of_split_supports))

    def tree_splits(t):
        t.encode_bipartitions()
        return sorted(b.split_bitmask for b in t.bipartition_encoding)
    guard("mcct", lambda: tree_splits(ta.maximum_product_of_split_support_tree(summarize_splits=False)))
    guard("msst", lambda: tree_splits(ta.maximum_sum_of_split_support_tree(summarize_splits=False)))
    guard("consensus", lambda: tree_splits(ta.consensus_tree(min_freq=0.5, summarize_splits=False)))
    guard("topology_freqs", lambda: len(ta.split_bitmask_set_frequencies()))
    guard("restore_last", lambda: tree_splits(ta.restore_tree(len(ta) - 1)))
    return out


# ----------------------------------------------------------------------------
# oracle: every array must be what pooling its trees gives
# ----------------------------------------------------------------------------

def popcount(x):
    return bin(x).count("1")


def naive_trivial(s, leafset):
    inside = popcount(s & leafset)
    return s == 0 or s == leafset or inside <= 1 or popcount(leafset) - inside <= 1


def pooled(recs, flags):
    """recompute an array's summary from the records of the trees it should contain"""
    iel, iag, uw = flags
    counts, sel, sag = {}, {}, {}
    total = 0
    sumw = 0
    per_tree = []
    rt = rf = False
    for r in recs:
        w = r["weight"] if (r["weight"] is not None and uw) else 1024
        total += 1
        sumw += w
        if r["rooting"] is True:
            rt = True
        else:
            rf = True
        for k, s in enumerate(r["splits"]):
            counts[s] = counts.get(s, 0) + w
            if not iel:
                sel.setdefault(s, []).append(r["elens"][k])
            if not iag:
                sag.setdefault(s, []).append(r["ages"][k])
        wt = (r["weight"] if (r["weight"] is not None and uw) else 1024)
        per_tree.append([r["splits"], [None] * len(r["splits"]) if iel else r["elens"], r["leafset"], wt])

    def okey(v):
        return (v is None, v if v is not None else 0)
    return {"counts": sorted([s, c] for s, c in counts.items()),
            "sel": sorted([s, sorted(l)] for s, l in sel.items()),
            "sag": sorted([s, sorted(l, key=okey)] for s, l in sag.items()),
            "total": total, "sumw": sumw, "rt": rt, "rf": rf,
            "per_tree": sorted(per_tree, key=lambda x: json.dumps(x))}


def compare_pooled(st, exp, what, same_settings=True):
    per_tree = sorted(([a, b, c, d] for a, b, c, d in zip(st["splits"], st["elens"], st["leafsets"], st["weights"])),
                      key=lambda x: json.dumps(x))
    n = len(st["splits"])
    if not (len(st["elens"]) == len(st["leafsets"]) == len(st["weights"]) == n):
        return ("%s: parallel per-tree lists have lengths %s" % (what, [n, len(st["elens"]), len(st["leafsets"]), len(st["weights"])]),
                "parallel-lists-misaligned")
    for fld, key in (("counts", "split-counts-differ"), ("sel", "edge-length-collections-differ"),
                     ("sag", "node-age-collections-differ"), ("total", "totals-differ"), ("sumw", "totals-differ"),
                     ("rt", "rooting-types-differ"), ("rf", "rooting-types-differ")):
        if not same_settings and fld in ("counts", "sumw", "sel", "sag"):
            continue        # arrays built under different settings were mixed: only setting-independent parts
        if st[fld] != exp[fld]:
            return ("%s: %s is %s, pooling the trees gives %s" % (what, fld, str(st[fld])[:300], str(exp[fld])[:300]), key)
    if same_settings and per_tree != exp["per_tree"]:
        return ("%s: the per-tree lists are not a permutation of the pooled trees' records" % what, "per-tree-lists-differ")
    return None


def oracle_direct_all(case, obs):
    found = []
    recs = {int(k): v for k, v in obs["records"].items()}
    nsl = len(case["slots"])
    ghost = [[] for _ in range(nsl)]           # occurrence indices each array should contain
    tainted = [False] * nsl
    ctor = [s["rooting"] for s in case["slots"]]
    same_settings = len({(s["iel"], s["iag"], s["uw"]) for s in case["slots"]}) == 1
    prev_tgt = None
    for k, (op, st) in enumerate(zip(case["ops"], obs["steps"])):
        kind = op[0]
        if prev_tgt is not None and not ghost[prev_tgt[0]]:
            # an array that is (still) empty: the rooting it shows is the one it was given
            # (constructor, adoption from another empty array, or a tree that was refused later on)
            ctor[prev_tgt[0]] = prev_tgt[1]
        prev_tgt = (st["slot"], st["rooting"])
        if kind == "add":
            slot, i = op[1], op[2]
            occ = case["occ"][i]
            if st["err"] is None:
                ghost[slot] = ghost[slot] + [i]
                continue
            # a refused tree: is the sample homogeneous in its declared rooting?
            declared = {case["occ"][j]["rooting"] for j in ghost[slot]} | {occ["rooting"]}
            if ctor[slot] is not None:
                declared.add(ctor[slot])
            if st["err"] == "EMixedRooting" and len(declared) == 1:
                if declared == {None}:
                    found.append(("step %d %s: tree with undefined rooting refused (MixedRootingError) by an array holding only "
                            "trees of undefined rooting (rooting recorded: %s)" % (k, op, st["rooting"]), K_UNDEF % "add"))
                else:
                    found.append(("step %d %s: MixedRootingError although every tree and the array were declared %s" % (k, op, declared),
                                  "add-refused-homogeneous"))
            if st["err"] not in ("EMixedRooting", "EUltrametricity", "(EPy AssertErr)", "(EPy TypeErr)"):
                found.append(("step %d %s: unexpected exception %s" % (k, op, st["err"]), "add-unexpected-exception"))
            if st["err"] != "EMixedRooting":
                tainted[slot] = True
            continue
        if kind == "plus":
            dst, ia, ib = op[1], op[2], op[3]
        else:
            dst, ia, ib = op[1], op[1], op[2]
        if st["err"] is None:
            merged = ghost[ia] + ghost[ib]
            tainted[dst] = tainted[ia] or tainted[ib]
            ghost[dst] = merged
            if kind == "plus":
                ctor[dst] = ctor[ia]
            continue
        (ra, na, fa), (rb, nb, fb) = st["pre"]
        if fa != fb:
            continue        # settings differ: a refusal is within the contract
        declared = {case["occ"][j]["rooting"] for j in ghost[ia] + ghost[ib]}
        fam = "update" if kind == "update" else "extend"
        if na == 0 or nb == 0:
            # an empty side: compatible with everything unless its constructor fixed another rooting
            empty_ctor = ctor[ia] if na == 0 else ctor[ib]
            if na == 0 and nb == 0 and ra != rb:
                continue
            if empty_ctor is None or empty_ctor in declared or not declared:
                key = K_EXT_EMPTY if fam == "extend" else "update-empty-side-refused"
                found.append(("step %d %s: merging with an empty collection failed with %s (rootings %s / %s, sizes %d / %d)"
                        % (k, op, st["err"], ra, rb, na, nb), key))
            continue
        if len(declared) == 1 and all(c is None or c in declared for c in (ctor[ia], ctor[ib])):
            if declared == {None}:
                found.append(("step %d %s: two non-empty collections of trees with undefined rooting refuse to merge: "
                        "%s (recorded rootings %s vs %s)" % (k, op, st["err"], ra, rb), K_UNDEF % fam))
            else:
                found.append(("step %d %s: merge refused (%s) although all trees were declared %s and settings agree"
                              % (k, op, st["err"], declared), "merge-refused-compatible"))
    for s in range(nsl):
        stt = obs["final"][s]
        if stt["rtypes_other"]:
            found.append(("array %d: tree_rooting_types_counted contains %s" % (s, stt["rtypes_other"]), "rooting-types-differ"))
        if tainted[s]:
            continue
        exp = pooled([recs[i] for i in ghost[s]], stt["flags"][:3])
        v = compare_pooled(stt, exp, "array %d (trees %s)" % (s, ghost[s]), same_settings)
        if v:
            found.append(v)
        q = obs["queries"][s]
        for name, r in q.items():
            if isinstance(r, dict) and "error" in r:
                found.append(("array %d: %s raises after the history: %s" % (s, name, r["error"]), "query-after-merge-raises:" + name))
        if q:
            v = check_scores(stt, q, s)
            if v:
                found.append(v)
    # arrays holding the same multiset of trees (and the same settings): same summaries
    for a in range(nsl):
        for b in range(a + 1, nsl):
            if tainted[a] or tainted[b] or sorted(ghost[a]) != sorted(ghost[b]) or not ghost[a]:
                continue
            fa, fb = obs["final"][a], obs["final"][b]
            if fa["flags"] != fb["flags"]:
                continue
            qa, qb = obs["queries"][a], obs["queries"][b]
            if fa["rooting"] != fb["rooting"]:
                und = {case["occ"][j]["rooting"] for j in ghost[a]} == {None}
                found.append(("arrays %d and %d hold the same trees but record rooting %s vs %s"
                        % (a, b, fa["rooting"], fb["rooting"]), (K_UNDEF % "flag") if und else "rooting-flag-differs"))
                continue
            if any(isinstance(r, dict) and "error" in r for r in list(qa.values()) + list(qb.values())):
                continue
            if qa.get("consensus") != qb.get("consensus"):
                found.append(("arrays %d and %d hold the same trees but give different consensus trees" % (a, b), "consensus-differs"))
            for nm in ("log_product", "sum"):
                ma, mb = max(qa[nm]["scores"]), max(qb[nm]["scores"])
                if abs(ma - mb) > 1e-9 * max(1.0, abs(ma)):
                    found.append(("arrays %d and %d hold the same trees but maximum %s score %r vs %r" % (a, b, nm, ma, mb), "max-score-differs"))
                if unique_max(qa[nm]["scores"], fa) and qa[{"log_product": "mcct", "sum": "msst"}[nm]] != qb[{"log_product": "mcct", "sum": "msst"}[nm]]:
                    found.append(("arrays %d and %d hold the same trees, unique maximiser, different maximum-%s tree" % (a, b, nm), "mcc-topology-differs"))
    return found



_KNOWN = None


def pick(found):
    """first finding that is not a listed known finding, else the first known one, else None"""
    global _KNOWN
    if _KNOWN is None:
        _KNOWN = core.load_known("C06")
    for f in found:
        if f[1] not in _KNOWN:
            return f
    return found[0] if found else None


def oracle_direct(case, obs):
    return pick(oracle_direct_all(case, obs))


def unique_max(scores, st):
    """every tree whose score is within rounding of the maximum has the same split set"""
    m = max(scores)
    tops = {tuple(sorted(st["splits"][i])) for i, x in enumerate(scores) if m - x <= 1e-9 * max(1.0, abs(m))}
    return len(tops) == 1


def check_scores(st, q, s):
    """scores against a naive recomputation from the array's own counts"""
    norm = st["sumw"] if st["sumw"] else st["total"] * 1024
    cnt = dict((a, b) for a, b in st["counts"])
    for nm in ("sum", "log_product"):
        if "scores" not in q.get(nm, {}):
            continue
        got = q[nm]["scores"]
        if len(got) != len(st["splits"]):
            return ("array %d: %s returns %d scores for %d trees" % (s, nm, len(got), len(st["splits"])), "scores-misaligned")
        for i, (sp, lf) in enumerate(zip(st["splits"], st["leafsets"])):
            tot = 0.0
            for x in sp:
                if x == lf or not naive_trivial(x, lf):
                    f = cnt.get(x, 0) / norm if norm else 0.0
                    if nm == "sum":
                        tot += f
                    elif f:
                        tot += math.log(f)
            if abs(tot - got[i]) > 1e-9 * max(1.0, abs(tot)):
                return ("array %d: %s score of tree %d is %r, recomputed %r" % (s, nm, i, got[i], tot), "score-differs")
        m = max(got)
        if got[q[nm]["argmax"]] != m or any(x == m for x in got[:q[nm]["argmax"]]):
            return ("array %d: %s argmax %s is not the first maximum" % (s, nm, q[nm]["argmax"]), "argmax")
    return None


# ----------------------------------------------------------------------------
# Coq terms
# ----------------------------------------------------------------------------

def c_trec(r):
    items = clist(["mkItem %s %s %s" % (cz(s), cz(e), copt(a, cz))
                   for s, e, a in zip(r["splits"], r["elens"], r["ages"])])
    return "(mkTrec %s %s %s %s %s)" % (items, cz(r["leafset"]), copt(r["weight"], cz),
                                          copt(r["rooting"], cbool), "None" if r["ages_ok"] is True else "(Some %s)" % r["ages_ok"])


def c_est(st):
    zl = lambda l: clist([cz(x) for x in l])
    ozl = lambda l: clist([copt(x, cz) for x in l])
    return ("(mkEst %s %s %s %s %s %s %s %s %s %s %s %s %s)" % (
        copt(st["rooting"], cbool), clist([cbool(b) for b in st["flags"]]),
        clist([zl(t) for t in st["splits"]]), clist([ozl(t) for t in st["elens"]]),
        zl(st["leafsets"]), zl(st["weights"]), cz(st["total"]), cz(st["sumw"]), cbool(st["rt"]), cbool(st["rf"]),
        clist(["(%s, %s)" % (cz(a), cz(b)) for a, b in st["counts"]]),
        clist(["(%s, %s)" % (cz(a), zl(b)) for a, b in st["sel"]]),
        clist(["(%s, %s)" % (cz(a), ozl(b)) for a, b in st["sag"]])))


def c_cfg(s):
    return "(mkCfg %s %s %s %s)" % (copt(s["rooting"], cbool), cbool(s["iel"]), cbool(s["iag"]), cbool(s["uw"]))


def to_coq_direct(case, obs):
    recs = obs["records"]
    names = {}
    lets = []
    for k in sorted(recs, key=int):
        names[int(k)] = "r%s" % k
        lets.append("let r%s := %s in" % (k, c_trec(recs[k])))
    ops = []
    for op in case["ops"]:
        if op[0] == "add":
            ops.append("OAdd %s %s %s" % (cnat(op[1]), names[op[2]], copt(op[3], cz)))
        elif op[0] == "update":
            ops.append("OUpdate %s %s" % (cnat(op[1]), cnat(op[2])))
        elif op[0] == "extend":
            ops.append("OExtend %s %s" % (cnat(op[1]), cnat(op[2])))
        elif op[0] == "iadd":
            ops.append("OIAdd %s %s" % (cnat(op[1]), cnat(op[2])))
        else:
            ops.append("OPlus %s %s %s" % (cnat(op[1]), cnat(op[2]), cnat(op[3])))
    steps = ["mkStep %s %s %s %s" % (copt(s["err"]), cnat(s["slot"]), clist([cz(x) for x in s["lens"]]),
                                     copt(s["rooting"], cbool)) for s in obs["steps"]]
    return "(%s mkCase %s %s %s %s)" % (" ".join(lets), clist([c_cfg(s) for s in case["slots"]]), clist(ops),
                                         clist(steps), clist([c_est(s) for s in obs["final"]]))


# ----------------------------------------------------------------------------
# dispatch (direct cases and SumTrees cases share the stages)
# ----------------------------------------------------------------------------

def observe(case):
    if case["kind"] == "direct":
        return observe_direct(case)
    from dv import c06_sumtrees
    return c06_sumtrees.observe(case)


def oracle(case, obs):
    if case["kind"] == "direct":
        return oracle_direct(case, obs)
    from dv import c06_sumtrees
    return c06_sumtrees.oracle(case, obs)


def nontrivial(case, obs):
    if case["kind"] != "direct":
        return True
    merges = sum(1 for o, s in zip(case["ops"], obs["steps"]) if o[0] != "add" and s["err"] is None and s["lens"][0] > 0)
    return merges >= 1 and max(len(f["splits"]) for f in obs["final"]) >= 2


def sample_fn(case, obs):
    if case["kind"] != "direct":
        return {"kind": case["kind"], "mode": case["mode"], "trees_per_file": [len(f) for f in case["files"]],
                "burnin": case["burnin"], "runs": obs.get("runs_summary")}
    return {"scenario": case["scenario"], "slots": case["slots"], "ops": case["ops"][:12],
            "steps": [[s["err"], s["lens"][0], s["rooting"]] for s in obs["steps"][:12]]}


def count_case(ctx, case):
    if case["kind"] != "direct":
        return
    ctx.count("scenario:" + case["scenario"])
    ctx.count("ntax:%d" % case["ntax"])
    ctx.count("ntrees:%d" % len(case["occ"]))
    for o in case["ops"]:
        ctx.count("op:" + (o[0] if o[0] != "add" else "add/" + o[4]))
    for s in case["slots"]:
        ctx.count("ctor_rooting:%s" % s["rooting"])
    for o in case["occ"]:
        ctx.count("tree_rooting:%s%s" % (o["rooting"], "/pre-encoded" if o["pre"] else ""))


def search(ctx, budget_s):
    t0 = time.time()
    rng = random.Random(ctx.seed + 606)
    n = 0
    while time.time() - t0 < budget_s and n < 20000:
        case = gen_direct(rng, big=True)
        obs = observe_direct(case)
        v = oracle_direct(case, obs)
        n += 1
        if v:
            ctx.violation(v[0], {"case": case, "observed": slim(obs)}, key=v[1])
            if ctx.violations:
                return
    ctx.notes.append("search: %d further histories through the oracle, no unlisted violation" % n)
    # the real SumTrees path (hand-out protocol, collation): repeated multiprocessing runs
    from dv import c06_sumtrees
    m = 0
    runs = 0
    while time.time() - t0 < budget_s * 1.5 and m < 400:
        case = c06_sumtrees.gen_case(rng, "search%d" % m)
        case["repeats"] = 6
        try:
            obs = c06_sumtrees.observe(case)
        except Exception as e:
            ctx.notes.append("search: SumTrees case could not be run: %s: %s" % (type(e).__name__, e))
            break
        m += 1
        runs += len(obs["runs"])
        for v in c06_sumtrees.oracle_all(case, obs):
            ctx.violation(v[0], {"case": case, "observed": {k: obs[k] for k in ("files", "runs_summary") if k in obs}}, key=v[1])
        if ctx.violations:
            return
    ctx.notes.append("search: %d further SumTrees cases (%d multiprocessing runs) through the oracle, no unlisted violation" % (m, runs))
    # several sources with a per-source burn-in (read_from_files / read_from_path / SumTrees serial mode)
    from dv import c06_readfiles
    c06_readfiles.search(ctx, budget_s * 0.5, rng=rng)


def slim(obs):
    o = dict(obs)
    o.pop("records", None)
    return o


def detect_variants():
    """which form of the two sites with a recorded finding does the working tree have? (DESIGN 5.2)
    decided by replaying the findings' reproducers; returns (undefined_is_unrooted, extend_accepts_empty)"""
    import dendropy
    ns = dendropy.TaxonNamespace(["A", "B", "C", "D"])
    t = dendropy.Tree.get(data="((A,B),(C,D));", schema="newick", taxon_namespace=ns)
    assert t.is_rooted is None
    a = dendropy.TreeArray(taxon_namespace=ns)
    a.add_tree(t)
    v_undef = a.is_rooted_trees is False
    u = dendropy.Tree.get(data="[&U]((A,B),(C,D));", schema="newick", taxon_namespace=ns)
    b = dendropy.TreeArray(taxon_namespace=ns)
    b.add_tree(u)
    try:
        b.extend(dendropy.TreeArray(taxon_namespace=ns))
        dendropy.TreeArray(taxon_namespace=ns).extend(b)
        v_ext = True
    except AssertionError:
        v_ext = False
    return v_undef, v_ext


def run(tier, seed, replay=None):
    ctx = core.Ctx("C06", tier, seed)
    ctx.assumptions = [
        "model coq/Model/C06Model.v is a hand transcription of TreeArray / SplitDistribution (accumulating part) and of the SumTrees worker/collation scheme; tied by this correspondence run",
        "what one tree contributes (splits, edge lengths, node ages, leafset, weight, rooting seen) is an input of the model, observed from the library on one-tree arrays (C01/C05 territory)",
        "lengths, ages and weights are dyadic (k * 2^-10) so that the floats of the library are exact; binary64 rounding is outside the model",
        "multiprocessing transport (pickling through multiprocessing.Queue) and the OS scheduler are exercised, not modelled: the schedule that happened is observed and handed to the model",
    ]
    if replay:
        r = json.load(open(replay))["replay"]
        case = r["case"]
        obs = observe(case)
        print("oracle:", oracle(case, obs))
        if case["kind"] == "direct":
            print("steps:", [[s["err"], s["lens"], s["rooting"]] for s in obs["steps"]])
        return 0
    ok = core.proof_stage(ctx, ["Props/C06.vo"], gen_needed=("BitFns", "TreeArrayGen"))
    if not ok:
        core.broken_proof(ctx, search)
    n = 320 if tier == "quick" else 4000
    cases = [gen_direct(ctx.rng, big=(tier != "quick")) for _ in range(n)]
    if tier != "quick":
        cases.extend(exhaustive_cases())
    for c in cases:
        count_case(ctx, c)
    vu, ve = detect_variants()
    ctx.notes.append("form of the sites with recorded findings in the working tree: add_tree %s; extend/+=/+ %s"
                     % ("treats undefined rooting as unrooted (repaired form add_tree_r)" if vu else "records undefined rooting as seen (current form)",
                        "accept an empty side (repaired form extend_r)" if ve else "assert equal rooting flags even for an empty side (current form)"))
    ctx.variants = (vu, ve)
    core.corr_stage(ctx, cases, observe, to_coq_direct, HEADER, "(case_ok_v %s %s)" % (cbool(vu), cbool(ve)), oracle=oracle,
                    show_fn="(case_show_v %s %s)" % (cbool(vu), cbool(ve)), nontrivial=nontrivial, search=search, shard=(40 if tier == "quick" else 125),
                    label="direct", sample_fn=sample_fn)
    from dv import c06_sumtrees
    c06_sumtrees.stage(ctx, tier)
    from dv import c06_readfiles
    c06_readfiles.stage(ctx, tier)
    for k, v in sorted(ERR_STATS.items()):
        ctx.count(k, v)
    return ctx.finish(level="proof", rule=(
        "direct: random tree multisets (0-7 quick / 0-9 thorough trees drawn with repetition from 1-4 topologies over 4-8 / 4-10 taxa; "
        "rooted, unrooted and undefined rooting; weights; with and without edge lengths / node ages) run through histories over 2-6 "
        "TreeArray objects: 'partition' scenario (serial one-by-one array vs. parts, some empty, merged in a random arrival order by "
        "update / extend / += / +, adds via add_tree/append/insert/add_trees) and random 'history' scenario (incl. disagreeing "
        "settings and rootings for the error branches); non-trivial = at least one successful merge of a non-empty array and an array "
        "with >= 2 trees at the end; distinct by full case content. thorough adds the exhaustive scope: a 3-tree sample, every "
        "assignment to 3 parts x every arrival order x update/extend/+ x rooted/unrooted/undefined (1458 histories). sumtrees: real TreeProcessor runs on 1-4 files, num_processes "
        "1..files+2, explicit and implicit rooting, schedule observed. readfiles: 1-5 NEXUS / Newick sources of 0-5 trees (tree-less "
        "NEXUS sources - TAXA block only, empty TREES block, bare #NEXUS - in every position; sources with two TREES blocks; sources "
        "shorter than the burn-in), tree_offset 0-3, read through read_from_files (paths / file objects), one call per source "
        "(read_from_path / read / read_from_stream / read_from_string), one array per source merged in random arrival orders "
        "(update / extend / +=), SumTrees serial mode (quiet and logging loop) and the naive per-source definition; non-trivial = "
        ">= 2 sources and >= 1 tree kept; thorough adds 3 sources x {trees, 3 tree-less forms}^3 x tree_offset 0..3"))
